(* C20 -- the parser's loops consume input.

   Abstract token cursor of core/parser.py: tokens[0..n-1], tokens[n-1] is EOF, `advance` clamps there.
   Every `while` of class Parser comes from the translator as a skeleton (Gen/ParserLoopsGen.v).

     loops_consume        syntactic check (the one named in the design): no path through a loop body
                          returns to the loop head without an advance()/expect()/call of a cursor-moving
                          parse method, unless it leaves the loop (break/return/raise)
     loop_ok              the stronger, EOF-aware check: on every path back to the loop head the cursor
                          has STRICTLY advanced, where advance() only counts when the current token is known
                          not to be EOF (from the loop guard or an enclosing test) -- `advance` clamps at EOF
     loop_ok_sound        soundness of loop_ok against a relational semantics of the skeletons
                          (conditions unknown except for what they say at EOF; calls per `call_contract`)
     loop_terminates      hence: any run of a checked loop has at most n iterations

   MODELLING ASSUMPTION (explicit, listed in the evidence): `call_contract` -- a call of one of the methods in
   `consuming_calls` made when the current token is not EOF either raises or returns with the cursor
   strictly advanced; every other cursor-moving method only moves the cursor forward.  For parse_section this
   holds at the three call sites only because the loops have filtered NEWLINE/INDENT/COMMENT before the call
   and test the result after it; it is an assumption of the theorem, supported by the exhaustive
   token-sequence search of harness/props/c20.py (hang detection by timeout), not proved here. *)
From OV Require Import Base.Strs Tools.ExnFlowLang.
Open Scope N_scope.

(* ---- the cursor ---------------------------------------------------------------------------------- *)
Definition adv (n pos : nat) : nat := if (S pos <? n)%nat then S pos else pos.

Lemma adv_progress n pos : (S pos < n)%nat -> adv n pos = S pos.
Proof. intro H. unfold adv. apply Nat.ltb_lt in H. rewrite H. reflexivity. Qed.
Lemma adv_clamps n pos : (n <= S pos)%nat -> adv n pos = pos.
Proof. intro H. unfold adv. destruct (S pos <? n)%nat eqn:E; [apply Nat.ltb_lt in E; lia|reflexivity]. Qed.
Lemma adv_monotone n pos : (pos <= adv n pos)%nat.
Proof. unfold adv. destruct (S pos <? n)%nat; lia. Qed.
Lemma adv_in_range n pos : (pos < n)%nat -> (adv n pos < n)%nat.
Proof. unfold adv. destruct (S pos <? n)%nat eqn:E; [apply Nat.ltb_lt in E|]; lia. Qed.

(* ---- what a condition says when the current token is EOF ---------------------------------------- *)
Fixpoint at_eof (c : pcond) : option bool :=
  match c with
  | PCur b => Some b
  | PNot c => option_map negb (at_eof c)
  | PAnd a b => match at_eof a, at_eof b with
                | Some false, _ | _, Some false => Some false
                | Some true, Some true => Some true
                | _, _ => None
                end
  | POr a b => match at_eof a, at_eof b with
               | Some true, _ | _, Some true => Some true
               | Some false, Some false => Some false
               | _, _ => None
               end
  | PIdx => Some false
  | POpaque => None
  end.

(* ---- the checker ----------------------------------------------------------------------------------- *)
Record ast := mkA { noteof : bool; moved : bool }.

Definition join (x y : option ast) : option ast :=
  match x, y with
  | None, z | z, None => z
  | Some a, Some b => Some (mkA (noteof a && noteof b) (moved a && moved b))
  end.

Definition opt_is (o : option bool) (b : bool) : bool :=
  match o with Some x => Bool.eqb x b | None => false end.

Section Checker.
Variable consuming : str -> bool.

Fixpoint chk_s (s : pstmt) (a : ast) : bool * option ast :=
  match s with
  | PAdv => (true, Some (mkA false (moved a || noteof a)))
  | PExpect true => (true, Some (mkA false (moved a || noteof a)))
  | PExpect false => (true, Some (mkA false true))
  | PCall f => (true, Some (mkA false (moved a || (consuming f && noteof a))))
  | PExit => (true, None)
  | PCont => (moved a, None)
  | PLoop _ => (true, Some (mkA false (moved a)))
  | PIf c t e =>
      let '(ok1, f1) := chk_b t (mkA (noteof a || opt_is (at_eof c) false) (moved a)) in
      let '(ok2, f2) := chk_b e (mkA (noteof a || opt_is (at_eof c) true) (moved a)) in
      (ok1 && ok2, join f1 f2)
  end
with chk_b (b : pblock) (a : ast) : bool * option ast :=
  match b with
  | BNil => (true, Some a)
  | BCons s b' =>
      let '(ok1, f) := chk_s s a in
      match f with
      | None => (ok1, None)
      | Some a' => let '(ok2, f2) := chk_b b' a' in (ok1 && ok2, f2)
      end
  end.

Definition loop_ok (l : ploop) : bool :=
  let '(ok, f) := chk_b (pl_body l) (mkA (opt_is (at_eof (pl_guard l)) false) false) in
  ok && match f with None => true | Some a => moved a end.

(* ---- relational semantics of the skeletons ------------------------------------------------------------ *)
(* value of a condition; `eof` = the cursor is on the last token *)
Inductive cond_val (eof : bool) : pcond -> bool -> Prop :=
| CV_cur b v : (eof = true -> v = b) -> cond_val eof (PCur b) v
| CV_not c v : cond_val eof c v -> cond_val eof (PNot c) (negb v)
| CV_and a b va vb : cond_val eof a va -> cond_val eof b vb -> cond_val eof (PAnd a b) (va && vb)
| CV_or a b va vb : cond_val eof a va -> cond_val eof b vb -> cond_val eof (POr a b) (va || vb)
| CV_idx v : (eof = true -> v = false) -> cond_val eof PIdx v
| CV_opaque v : cond_val eof POpaque v.

Lemma at_eof_sound c b v : at_eof c = Some b -> cond_val true c v -> v = b.
Proof.
  revert b v; induction c; intros b0 v H CV; inversion CV; subst; cbn in H.
  - inversion H; subst. auto.
  - destruct (at_eof c) as [x|] eqn:E; [|discriminate]. cbn in H. inversion H; subst.
    f_equal. eapply IHc; eauto.
  - destruct (at_eof c1) as [[|]|] eqn:E1; destruct (at_eof c2) as [[|]|] eqn:E2; inversion H; subst;
      try (rewrite (IHc1 _ _ eq_refl H2)); try (rewrite (IHc2 _ _ eq_refl H4)); cbn;
      try reflexivity; try apply andb_false_r.
  - destruct (at_eof c1) as [[|]|] eqn:E1; destruct (at_eof c2) as [[|]|] eqn:E2; inversion H; subst;
      try (rewrite (IHc1 _ _ eq_refl H2)); try (rewrite (IHc2 _ _ eq_refl H4)); cbn;
      try reflexivity; try apply orb_true_r.
  - inversion H; subst. auto.
  - discriminate.
Qed.

Inductive res := RFall (pos : nat) | RExit | RCont (pos : nat).

Section Sem.
Variable n : nat.    (* number of tokens; tokens[n-1] is EOF *)

Definition is_eof (pos : nat) : bool := (n <=? S pos)%nat.

(* the contract assumed of calls (see header) *)
Definition call_contract (f : str) (pos pos' : nat) : Prop :=
  (pos <= pos')%nat /\ (pos' < n)%nat /\ (consuming f = true -> is_eof pos = false -> (pos < pos')%nat).

Inductive exec_s : pstmt -> nat -> res -> Prop :=
| X_adv pos : exec_s PAdv pos (RFall (adv n pos))
| X_expect_ok e pos : is_eof pos = false -> exec_s (PExpect e) pos (RFall (S pos))
| X_expect_eof pos : is_eof pos = true -> exec_s (PExpect true) pos (RFall pos)
| X_expect_raise e pos : exec_s (PExpect e) pos RExit
| X_call f pos pos' : call_contract f pos pos' -> exec_s (PCall f) pos (RFall pos')
| X_call_raise f pos : exec_s (PCall f) pos RExit
| X_exit pos : exec_s PExit pos RExit
| X_cont pos : exec_s PCont pos (RCont pos)
| X_loop l pos pos' : (pos <= pos')%nat -> (pos' < n)%nat -> exec_s (PLoop l) pos (RFall pos')
| X_loop_exit l pos : exec_s (PLoop l) pos RExit          (* return / raise inside the nested loop *)
| X_if c t e pos v r : cond_val (is_eof pos) c v -> exec_b (if v then t else e) pos r -> exec_s (PIf c t e) pos r
with exec_b : pblock -> nat -> res -> Prop :=
| X_nil pos : exec_b BNil pos (RFall pos)
| X_cons_fall s b pos p r : exec_s s pos (RFall p) -> exec_b b p r -> exec_b (BCons s b) pos r
| X_cons_exit s b pos : exec_s s pos RExit -> exec_b (BCons s b) pos RExit
| X_cons_cont s b pos p : exec_s s pos (RCont p) -> exec_b (BCons s b) pos (RCont p).

(* the abstract state describes the concrete one *)
Definition R (a : ast) (pos0 pos : nat) : Prop :=
  (pos0 <= pos)%nat /\ (pos < n)%nat /\ (moved a = true -> (pos0 < pos)%nat) /\ (noteof a = true -> is_eof pos = false).

Definition post (pos0 : nat) (ok : bool) (f : option ast) (r : res) : Prop :=
  match r with
  | RExit => True
  | RCont p => ok = true -> (pos0 < p)%nat /\ (p < n)%nat
  | RFall p => exists a', f = Some a' /\ R a' pos0 p
  end.

Lemma R_weaken a a' pos0 pos :
  (noteof a' = true -> noteof a = true) -> (moved a' = true -> moved a = true) -> R a pos0 pos -> R a' pos0 pos.
Proof. intros H1 H2 (A & B & C & D). repeat split; auto. Qed.

Lemma post_join_l pos0 ok1 ok2 f1 f2 r : post pos0 ok1 f1 r -> post pos0 (ok1 && ok2) (join f1 f2) r.
Proof.
  destruct r as [p| |p]; cbn; auto.
  - intros (a' & -> & HR). destruct f2 as [b|]; cbn; [|eauto].
    eexists; split; [reflexivity|]. eapply R_weaken; [| |exact HR]; cbn; intro H; apply andb_true_iff in H; tauto.
  - intros H Hok. apply andb_true_iff in Hok. tauto.
Qed.
Lemma post_join_r pos0 ok1 ok2 f1 f2 r : post pos0 ok2 f2 r -> post pos0 (ok1 && ok2) (join f1 f2) r.
Proof.
  destruct r as [p| |p]; cbn; auto.
  - intros (a' & -> & HR). destruct f1 as [b|]; cbn; [|eauto].
    eexists; split; [reflexivity|]. eapply R_weaken; [| |exact HR]; cbn; intro H; apply andb_true_iff in H; tauto.
  - intros H Hok. apply andb_true_iff in Hok. tauto.
Qed.

Lemma is_eof_false_lt pos : is_eof pos = false -> (S pos < n)%nat.
Proof. unfold is_eof. intro H. apply Nat.leb_gt in H. lia. Qed.

Ltac mkR := unfold R; cbn [noteof moved]; split; [|split; [|split]].

Scheme pstmt_ind2 := Induction for pstmt Sort Prop
  with pblock_ind2 := Induction for pblock Sort Prop.
Combined Scheme pstmt_pblock_ind from pstmt_ind2, pblock_ind2.

Theorem chk_sound :
  (forall s a pos0 pos r, R a pos0 pos -> exec_s s pos r -> post pos0 (fst (chk_s s a)) (snd (chk_s s a)) r) /\
  (forall b a pos0 pos r, R a pos0 pos -> exec_b b pos r -> post pos0 (fst (chk_b b a)) (snd (chk_b b a)) r).
Proof.
  apply pstmt_pblock_ind.
  - (* PAdv *) intros a pos0 pos r (A & B & C & D) X. inversion X; subst. cbn.
    eexists; split; [reflexivity|]. pose proof (adv_monotone n pos) as M1. pose proof (adv_in_range n pos B) as M2.
    mkR; [lia|lia| |discriminate].
    intro Hm. apply orb_true_iff in Hm as [Hm|Hm]; [specialize (C Hm); lia|].
    specialize (D Hm). apply is_eof_false_lt in D. rewrite adv_progress by lia. lia.
  - (* PExpect *) intros e a pos0 pos r (A & B & C & D) X. inversion X; subst; cbn; auto.
    + apply is_eof_false_lt in H0. destruct e; cbn [chk_s fst snd]; eexists; (split; [reflexivity|]);
        (mkR; [lia|lia| |discriminate]).
      * intro Hm. apply orb_true_iff in Hm as [Hm|Hm]; [specialize (C Hm); lia|lia].
      * intros _. lia.
    + eexists; split; [reflexivity|]. mkR; [lia|lia| |discriminate].
      intro Hm. apply orb_true_iff in Hm as [Hm|Hm]; [specialize (C Hm); lia|].
      specialize (D Hm). congruence.
  - (* PCall *) intros f a pos0 pos r (A & B & C & D) X. inversion X; subst; cbn; auto.
    destruct H0 as (L1 & L2 & L3). eexists; split; [reflexivity|].
    mkR; [lia|lia| |discriminate].
    intro Hm. apply orb_true_iff in Hm as [Hm|Hm]; [specialize (C Hm); lia|].
    apply andb_true_iff in Hm as [Hc Hn]. specialize (L3 Hc (D Hn)). lia.
  - (* PExit *) intros a pos0 pos r HR X. inversion X; subst. exact I.
  - (* PCont *) intros a pos0 pos r (A & B & C & D) X. inversion X; subst. cbn. intro Hm. specialize (C Hm). lia.
  - (* PIf *) intros c t IHt e IHe a pos0 pos r HR X. inversion X; subst. cbn [chk_s].
    destruct HR as (A & B & C & D).
    match goal with Hc : cond_val _ c ?v, Hb : exec_b _ pos r |- _ => rename Hc into CV; rename Hb into XB end.
    assert (HRv : forall bb, v = bb -> R (mkA (noteof a || opt_is (at_eof c) (negb bb)) (moved a)) pos0 pos).
    { intros bb ->. mkR; auto.
      intro Hm. apply orb_true_iff in Hm as [Hm|Hm]; [auto|].
      destruct (is_eof pos) eqn:Ee; [|reflexivity]. exfalso.
      unfold opt_is in Hm. destruct (at_eof c) as [x|] eqn:Ea; [|discriminate].
      apply Bool.eqb_prop in Hm. subst x. pose proof (at_eof_sound _ _ _ Ea CV) as Q. destruct bb; discriminate. }
    destruct v.
    + pose proof (IHt _ pos0 pos r (HRv true eq_refl) XB) as P. cbn [negb] in P.
      destruct (chk_b t _) as [ok1 f1]. destruct (chk_b e _) as [ok2 f2]. cbn [fst snd] in *.
      apply post_join_l. exact P.
    + pose proof (IHe _ pos0 pos r (HRv false eq_refl) XB) as P. cbn [negb] in P.
      destruct (chk_b t _) as [ok1 f1]. destruct (chk_b e _) as [ok2 f2]. cbn [fst snd] in *.
      apply post_join_r. exact P.
  - (* PLoop *) intros l a pos0 pos r (A & B & C & D) X. inversion X; subst; cbn; auto.
    eexists; split; [reflexivity|]. mkR; [lia|lia| |discriminate].
    intro Hm. specialize (C Hm). lia.
  - (* BNil *) intros a pos0 pos r HR X. inversion X; subst. cbn. eauto.
  - (* BCons *) intros s IHs b IHb a pos0 pos r HR X. cbn [chk_b].
    destruct (chk_s s a) as [ok1 f] eqn:E1.
    inversion X; subst.
    + match goal with Hs : exec_s s pos (RFall ?p), Hb : exec_b b ?p r |- _ =>
        pose proof (IHs a pos0 pos _ HR Hs) as P1; rewrite E1 in P1; cbn in P1; destruct P1 as (a' & -> & HR');
        pose proof (IHb a' pos0 p r HR' Hb) as P2 end.
      destruct (chk_b b a') as [ok2 f2]. cbn [fst snd] in *.
      destruct r as [q| |q]; cbn in *; auto. intro Hk. apply andb_true_iff in Hk as [_ Hk]. auto.
    + destruct f as [a'|]; [destruct (chk_b b a')|]; exact I.
    + match goal with Hs : exec_s s pos (RCont _) |- _ =>
        pose proof (IHs a pos0 pos _ HR Hs) as P1; rewrite E1 in P1; cbn in P1 end.
      destruct f as [a'|]; [destruct (chk_b b a') as [ok2 f2]|]; cbn; intro Hk; [apply andb_true_iff in Hk as [Hk _]|]; auto.
Qed.

(* one iteration of a checked loop: the guard holds, the body runs; it either leaves the loop or ends
   strictly further along the token stream *)
Theorem loop_ok_sound l pos r :
  loop_ok l = true -> (pos < n)%nat ->
  cond_val (is_eof pos) (pl_guard l) true -> exec_b (pl_body l) pos r ->
  match r with RExit => True | RFall p | RCont p => (pos < p)%nat /\ (p < n)%nat end.
Proof.
  unfold loop_ok. intros Hok Hpos Hg X.
  set (a0 := mkA (opt_is (at_eof (pl_guard l)) false) false) in *.
  assert (HR : R a0 pos pos).
  { unfold a0. mkR; [lia|lia|discriminate|].
    intro H. destruct (is_eof pos) eqn:Ee; [|reflexivity]. exfalso.
    unfold opt_is in H. destruct (at_eof (pl_guard l)) as [x|] eqn:Ea; [|discriminate].
    apply Bool.eqb_prop in H. subst x. pose proof (at_eof_sound _ _ _ Ea Hg). discriminate. }
  pose proof (proj2 chk_sound (pl_body l) a0 pos pos r HR X) as P.
  destruct (chk_b (pl_body l) a0) as [ok f]. cbn [fst snd] in P.
  apply andb_true_iff in Hok as [Hok Hf].
  destruct r as [p| |p]; cbn in P; auto.
  destruct P as (a' & -> & (A & B & C & D)). split; auto.
Qed.

(* a run of the loop: a chain of iterations that come back to the loop head *)
Inductive iter_chain (l : ploop) : nat -> nat -> Prop :=
| IC_nil pos : iter_chain l pos O
| IC_step pos p k r : cond_val (is_eof pos) (pl_guard l) true -> exec_b (pl_body l) pos r ->
    (r = RFall p \/ r = RCont p) -> iter_chain l p k -> iter_chain l pos (S k).

Theorem loop_terminates l pos k :
  loop_ok l = true -> (pos < n)%nat -> iter_chain l pos k -> (pos + k < n)%nat.
Proof.
  intros Hok. revert pos. induction k as [|k IH]; intros pos Hpos C; [lia|].
  inversion C; subst.
  pose proof (loop_ok_sound l pos r Hok Hpos H0 H1) as P.
  destruct H2 as [-> | ->]; destruct P as [P1 P2]; specialize (IH p P2 H4); lia.
Qed.

End Sem.

(* ---- the purely syntactic check of the design note: some consumer/exit on every path ------------------- *)
Fixpoint syn_s (s : pstmt) (seen : bool) : bool * option bool :=
  match s with
  | PAdv | PExpect _ | PCall _ => (true, Some true)
  | PExit => (true, None)
  | PCont => (seen, None)
  | PLoop _ => (true, Some seen)
  | PIf _ t e =>
      let '(ok1, f1) := syn_b t seen in
      let '(ok2, f2) := syn_b e seen in
      (ok1 && ok2, match f1, f2 with None, z | z, None => z | Some x, Some y => Some (x && y) end)
  end
with syn_b (b : pblock) (seen : bool) : bool * option bool :=
  match b with
  | BNil => (true, Some seen)
  | BCons s b' =>
      let '(ok1, f) := syn_s s seen in
      match f with None => (ok1, None) | Some s' => let '(ok2, f2) := syn_b b' s' in (ok1 && ok2, f2) end
  end.

Definition loop_consumes (l : ploop) : bool :=
  let '(ok, f) := syn_b (pl_body l) false in ok && match f with None => true | Some s => s end.

End Checker.

(* ---- bracket nesting -------------------------------------------------------------------------------- *)
(* parse_list: expect '[' ; bracket_depth += 1 ; _check_deep_nesting raises when depth >= MAX.
   Events of a run: Enter (a parse_list activation starts) / Leave (it returns).  *)
Inductive nest_ev := Enter | Leave.

Fixpoint nest_run (mx : nat) (d : nat) (evs : list nest_ev) : option nat :=   (* None = ParserError raised *)
  match evs with
  | [] => Some d
  | Enter :: r => let d' := S d in if (mx <=? d')%nat then None else nest_run mx d' r
  | Leave :: r => nest_run mx (pred d) r
  end.

(* the depth reached before every event, and at the end *)
Fixpoint nest_depths (mx d : nat) (evs : list nest_ev) : list nat :=
  d :: match evs with
       | [] => []
       | Enter :: r => let d' := S d in if (mx <=? d')%nat then [d'] else nest_depths mx d' r
       | Leave :: r => nest_depths mx (pred d) r
       end.

Theorem nesting_bounded_gen mx d evs : (d < mx)%nat -> Forall (fun x => (x <= mx)%nat) (nest_depths mx d evs).
Proof.
  revert d; induction evs as [|e r IH]; intros d Hd; cbn [nest_depths].
  - constructor; [lia|constructor].
  - constructor; [lia|]. destruct e.
    + destruct (mx <=? S d)%nat eqn:E.
      * constructor; [|constructor]. lia.
      * apply IH. apply Nat.leb_gt in E. lia.
    + apply IH. lia.
Qed.
