(* C10 -- response envelopes of the four MCP tools (and the two CLI commands).

   The decision functions validate_env / write_env / eject_env / grammar_env / cli_validate_env / cli_write_env
   are NOT hand-written control flow: each is the generic interpreter `run` applied to the guard table that
   harness/translate/status_t.py regenerates from /repo on every run (Gen/StatusGen.v), under a valuation of the
   table's ATOMS (source text of `if` test leaves) by the abstract FACTS of one execution.  The only
   hand-written, source-specific part is the atom dictionary (atom text -> fact); an atom that is not in the
   dictionary makes compilation return None and every theorem below fail (fail closed).

   Facts are facts of ONE EXECUTION (what each consulted test evaluated to); they are measured independently by
   harness/props/c10.py.  Theorems quantify over the whole finite fact space; bounds are in the statements. *)
From OV Require Import Base.Strs Tools.EnvelopeSyntax Gen.StatusGen.
From Coq Require Import String Ascii.
Open Scope N_scope.

Fixpoint s2l (s : string) : str :=
  match s with EmptyString => [] | String c r => N_of_ascii c :: s2l r end.

(* ------------------------------------------------------------------------------------------------------ *)
(* abstract envelope: only what the property names *)
Record envl := mk_envl {
  e_vs : N;        (* validation_status: 0 absent, 1 VALIDATED, 2 UNVALIDATED, 3 INVALID, 4 anything else *)
  e_valid : N;     (* valid: 0 absent, 1 True, 2 False, 3 anything else *)
  e_name : bool;   (* schema_name present (not None) *)
  e_version : bool;(* schema_version present (not None) *)
  e_verrs : N;     (* validation_errors: 0 absent, 1 empty list, 2 non-empty list, 3 unknown *)
  e_vcount : N;    (* validation_error_count: 0 absent, 1 zero, 2 positive, 3 unknown *)
  e_status : N;    (* status: 0 absent, 1 success, 2 error, 3 other *)
  e_echo : N;      (* CLI: status printed on the `validation_status:` line (0 = line not printed) *)
  e_exit : N       (* CLI: exit code *)
}.
Definition empty_envl := mk_envl 0 0 false false 0 0 0 0 0.

Definition VALIDATED := 1.  Definition UNVALIDATED := 2.  Definition INVALID := 3.

(* tracked keys *)
Definition k_vs := 0. Definition k_valid := 1. Definition k_name := 2. Definition k_version := 3.
Definition k_verrs := 4. Definition k_vcount := 5. Definition k_status := 6.
Definition key_table : list (str * N) :=
  [(s2l "validation_status", k_vs); (s2l "valid", k_valid); (s2l "schema_name", k_name);
   (s2l "schema_version", k_version); (s2l "validation_errors", k_verrs);
   (s2l "validation_error_count", k_vcount); (s2l "status", k_status)].

Fixpoint assoc {A} (k : str) (l : list (str * A)) : option A :=
  match l with [] => None | (k', v) :: r => if str_eqb k k' then Some v else assoc k r end.

Definition set_key (k : N) (code : N) (e : envl) : envl :=
  match k with
  | 0 => mk_envl code (e_valid e) (e_name e) (e_version e) (e_verrs e) (e_vcount e) (e_status e) (e_echo e) (e_exit e)
  | 1 => mk_envl (e_vs e) code (e_name e) (e_version e) (e_verrs e) (e_vcount e) (e_status e) (e_echo e) (e_exit e)
  | 2 => mk_envl (e_vs e) (e_valid e) (negb (code =? 0)) (e_version e) (e_verrs e) (e_vcount e) (e_status e) (e_echo e) (e_exit e)
  | 3 => mk_envl (e_vs e) (e_valid e) (e_name e) (negb (code =? 0)) (e_verrs e) (e_vcount e) (e_status e) (e_echo e) (e_exit e)
  | 4 => mk_envl (e_vs e) (e_valid e) (e_name e) (e_version e) code (e_vcount e) (e_status e) (e_echo e) (e_exit e)
  | 5 => mk_envl (e_vs e) (e_valid e) (e_name e) (e_version e) (e_verrs e) code (e_status e) (e_echo e) (e_exit e)
  | _ => mk_envl (e_vs e) (e_valid e) (e_name e) (e_version e) (e_verrs e) (e_vcount e) code (e_echo e) (e_exit e)
  end.

(* ------------------------------------------------------------------------------------------------------ *)
(* compilation of the generated table against an atom dictionary over a fact type F *)
Section Compile.
  Variable F : Type.
  (* an atom denotes a test on the facts of the execution and (CLI: `validation_status == 'INVALID'`) on the
     current envelope *)
  Definition adict := list (str * (F -> envl -> bool)).
  Variable dict : adict.

  Fixpoint cbexp (b : bexp) : option (F -> envl -> bool) :=
    match b with
    | BTrue => Some (fun _ _ => true)
    | BAtom a => assoc a dict
    | BNot x => match cbexp x with Some g => Some (fun f e => negb (g f e)) | None => None end
    | BAnd x y => match cbexp x, cbexp y with
                  | Some g, Some h => Some (fun f e => if g f e then h f e else false) | _, _ => None end
    | BOr x y => match cbexp x, cbexp y with
                 | Some g, Some h => Some (fun f e => if g f e then true else h f e) | _, _ => None end
    end.

  Fixpoint cguards (gs : list bexp) : option (F -> envl -> bool) :=
    match gs with
    | [] => Some (fun _ _ => true)
    | g :: r => match cbexp g, cguards r with
                | Some a, Some b => Some (fun f e => if a f e then b f e else false) | _, _ => None end
    end.

  (* abstract code stored for (key, value) *)
  Definition cvalue (k : N) (v : val) : option (F -> envl -> N) :=
    match k with
    | 0 => match v with
           | VStr s => Some (fun _ _ => if str_eqb s (s2l "VALIDATED") then 1 else if str_eqb s (s2l "UNVALIDATED") then 2
                                       else if str_eqb s (s2l "INVALID") then 3 else 4)
           | _ => Some (fun _ _ => 4) end
    | 1 => Some (fun _ _ => match v with VTrue => 1 | VFalse => 2 | _ => 3 end)
    | 2 | 3 => Some (fun _ _ => match v with VNone => 0 | _ => 1 end)
    | 4 => match v with
           | VEmptyList => Some (fun _ _ => 1)
           | VLenOf a => match assoc a dict with Some g => Some (fun f e => if g f e then 2 else 1) | None => None end
           | _ => Some (fun _ _ => 3) end
    | 5 => match v with
           | VNum n => Some (fun _ _ => if n =? 0 then 1 else 2)
           | VLenOfKey key => if str_eqb key (s2l "validation_errors")
                              then Some (fun _ e => match e_verrs e with 0 => 1 | 1 => 1 | 2 => 2 | _ => 3 end)
                              else Some (fun _ _ => 3)
           | _ => Some (fun _ _ => 3) end
    | _ => match v with
           | VStr s => Some (fun _ _ => if str_eqb s (s2l "success") then 1 else if str_eqb s (s2l "error") then 2 else 3)
           | _ => Some (fun _ _ => 3) end
    end.

  Fixpoint cfields (l : list (str * val)) : option (list (N * (F -> envl -> N))) :=
    match l with
    | [] => Some []
    | (k, v) :: r => match assoc k key_table with
                     | Some kc => match cvalue kc v, cfields r with
                                  | Some cv, Some cr => Some ((kc, cv) :: cr) | _, _ => None end
                     | None => None end
    end.

  Inductive cact :=
  | CInit (l : list (N * (F -> envl -> N)))
  | CSet (k : N) (v : F -> envl -> N)
  | CRet
  | CRetDict (l : list (N * (F -> envl -> N)))
  | CRetCall (h : F -> option envl)
  | CEcho
  | CExit (n : N).
  Definition csite := ((F -> envl -> bool) * cact)%type.

  Fixpoint apply_fields (l : list (N * (F -> envl -> N))) (f : F) (e : envl) : envl :=
    match l with [] => e | (k, cv) :: r => apply_fields r f (set_key k (cv f e) e) end.

  (* the interpreter: sites in source order; a site fires when all its guards hold in the current state.
     fall = what happens when the end is reached without a return (tools: None = not a response;
     CLI: the command ends normally, exit code 0). *)
  Fixpoint run (fall : bool) (sites : list csite) (f : F) (e : envl) : option envl :=
    match sites with
    | [] => if fall then Some e else None
    | (g, a) :: r =>
        if g f e then
          match a with
          | CInit l => run fall r f (apply_fields l f empty_envl)
          | CSet k v => run fall r f (set_key k (v f e) e)
          | CRet => Some e
          | CRetDict l => Some (apply_fields l f empty_envl)
          | CRetCall h => h f
          | CEcho => run fall r f (mk_envl (e_vs e) (e_valid e) (e_name e) (e_version e) (e_verrs e) (e_vcount e)
                                           (e_status e) (e_vs e) (e_exit e))
          | CExit n => Some (mk_envl (e_vs e) (e_valid e) (e_name e) (e_version e) (e_verrs e) (e_vcount e)
                                     (e_status e) (e_echo e) n)
          end
        else run fall r f e
    end.

  Definition caction (helpers : list (str * (F -> option envl))) (a : action) : option cact :=
    match a with
    | AInit l => option_map CInit (cfields l)
    | ASet k v => match assoc k key_table with
                  | Some kc => option_map (CSet kc) (cvalue kc v) | None => None end
    | ARet => Some CRet
    | ARetDict l => option_map CRetDict (cfields l)
    | ARetCall fn => option_map CRetCall (assoc fn helpers)
    | AEcho => Some CEcho
    | AExit n => Some (CExit n)
    end.

  Fixpoint csites (helpers : list (str * (F -> option envl))) (l : list site) : option (list csite) :=
    match l with
    | [] => Some []
    | s :: r => match cguards (s_guards s), caction helpers (s_act s), csites helpers r with
                | Some g, Some a, Some cr => Some ((g, a) :: cr) | _, _, _ => None end
    end.

  (* helpers (every function of the table except the first) are compiled first, without helpers of their own *)
  Fixpoint chelpers (l : list fn_table) : option (list (str * (F -> option envl))) :=
    match l with
    | [] => Some []
    | (name, sites) :: r =>
        match csites [] sites, chelpers r with
        | Some cs, Some cr => Some ((name, fun f => run false cs f empty_envl) :: cr)
        | _, _ => None end
    end.

  (* flag locals: the value of the flag after a prefix of its assignment sites *)
  Fixpoint cflag_sites (l : list (list bexp * bool)) : option (list ((F -> envl -> bool) * bool)) :=
    match l with
    | [] => Some []
    | (gs, v) :: r => match cguards gs, cflag_sites r with
                      | Some g, Some cr => Some ((g, v) :: cr) | _, _ => None end
    end.
  Fixpoint flag_eval (sites : list ((F -> envl -> bool) * bool)) (cur : bool) (f : F) (e : envl) : bool :=
    match sites with
    | [] => cur
    | (g, v) :: r => flag_eval r (if g f e then v else cur) f e
    end.
  (* dictionary entries `name@k` (k = 1 .. number of sites; plain `name` when there is a single site).  A flag whose
     guards do not compile contributes nothing, so every table that reads it fails to compile (fail closed). *)
  Definition flag_entries (flags : list flag_table) : adict :=
    flat_map (fun ft =>
      match cflag_sites (snd ft) with
      | Some cs =>
          (if Nat.eqb (List.length cs) 1 then [(fst ft, flag_eval cs false)] else []) ++
          map (fun k => (fst ft ++ [64] ++ N_to_dec (N.of_nat k), flag_eval (firstn k cs) false)) (seq 1 (List.length cs))
      | None => [] end) flags.

  Definition compile (fall : bool) (tbl : list fn_table) : option (F -> option envl) :=
    match tbl with
    | [] => None
    | (_, main) :: hs =>
        match chelpers hs with
        | Some ch => match csites ch main with
                     | Some cs => Some (fun f => run fall cs f empty_envl)
                     | None => None end
        | None => None end
    end.
End Compile.
Arguments compile {F}. Arguments run {F}. Arguments csites {F}. Arguments chelpers {F}.
Arguments cflag_sites {F}. Arguments flag_eval {F}. Arguments flag_entries {F}.
(* the dictionary a table is compiled against: the hand-written atoms + the flags of the function, evaluated from
   their generated assignment sites *)
Definition with_flags {F} (dict : adict F) (flags : list flag_table) : adict F := dict ++ flag_entries dict flags.

Definition at_ {F} (s : string) (g : F -> bool) : str * (F -> envl -> bool) := (s2l s, fun f _ => g f).

(* ------------------------------------------------------------------------------------------------------ *)
(* octave_validate *)
Record vfacts := mk_vfacts {
  v_profile : N;     (* 0 STRICT, 1 STANDARD, 2 LENIENT, 3 ULTRA (after .upper()), 4 not a valid profile *)
  v_content : bool;  (* content argument given *)
  v_file : bool;     (* file_path argument given *)
  v_path_ok : bool;  (* _validate_path accepted *)
  v_exists : bool;   (* file exists *)
  v_read_ok : bool;  (* read_text did not raise *)
  v_parse_ok : bool; (* parse_with_warnings(content) did not raise *)
  v_builtin : bool;  (* get_builtin_schema(name) is not None *)
  v_loaded : bool;   (* load_schema_by_name(name) returned a definition (no exception, not None) *)
  v_fields : bool;   (* ... whose .fields is non-empty *)
  v_errs : bool;     (* Validator(schema_def).validate(doc, strict = (profile = STRICT), section_schemas) non-empty *)
  v_compact : bool;
  v_emit_ok : bool   (* emit(doc) did not raise *)
}.
(* flags with no atom in the table (fix, diff_only, grammar_hint, debug_grammar) are explicit, unused arguments *)

Definition validate_dict : adict vfacts :=
  [at_ "profile not in VALID_PROFILES" (fun f => 4 <=? v_profile f);
   at_ "content is not None@1" v_content;
   at_ "file_path is not None" v_file;
   at_ "is_valid" v_path_ok;
   at_ "path.exists()" v_exists;
   at_ "exc#1:path.read_text" (fun f => negb (v_read_ok f));
   at_ "exc#2:parse_with_warnings" (fun f => negb (v_parse_ok f));
   at_ "compact" v_compact;
   at_ "schema_def is not None" v_builtin;
   at_ "schema_definition is not None@2" v_loaded;
   at_ "schema_definition.fields@2" v_fields;
   at_ "validation_errors@1" v_errs;
   at_ "profile in ('LENIENT', 'ULTRA')" (fun f => (v_profile f =? 2) || (v_profile f =? 3));
   at_ "exc#5:emit" (fun f => negb (v_emit_ok f))].

Definition validate_compiled := compile (with_flags validate_dict status_validate_flags) false status_validate.
Definition validate_env (f : vfacts) (fix_ diff_only grammar_hint debug_grammar : bool) : option envl :=
  match validate_compiled with Some r => r f | None => None end.

(* ------------------------------------------------------------------------------------------------------ *)
(* octave_write *)
Record wfacts := mk_wfacts {
  w_policy : N;      (* parse_error_policy: 0 "error", 1 "salvage", 2 anything else *)
  w_path_ok : bool;
  w_content : bool;  (* content given *)
  w_changes : bool;  (* changes given *)
  w_exists : bool;   (* target exists *)
  w_io : N;          (* first failure before parsing the new content: 0 none, 1 read error, 2 hash mismatch,
                        3 existing file does not parse (changes mode), 4 _apply_changes raised *)
  w_base_hash : bool;(* base_hash given *)
  w_lenient : bool;
  w_pst : N;         (* parse of the (pre-processed) content: 0 ok, 1 tokenisation fails, 2 parse fails *)
  w_emit_ok : bool;
  w_schema : bool;   (* schema argument truthy *)
  w_builtin : bool; w_loaded : bool; w_fields : bool;
  w_errs : bool;     (* validation_errors non-empty at the decision point (after the lenient-mode repairs) *)
  w_post : N         (* 0 corrections_only (dry run); otherwise the WRITE FILE block: 1 written, 2 target is a
                        symlink, 3 base_hash re-check failed, 4 PermissionError, 5 other exception *)
}.

Definition write_dict : adict wfacts :=
  [at_ "parse_error_policy not in ('error', 'salvage')" (fun f => 2 <=? w_policy f);
   at_ "parse_error_policy == 'salvage'" (fun f => w_policy f =? 1);
   at_ "path_valid" w_path_ok;
   at_ "content is not None@1" w_content;
   at_ "changes is not None" w_changes;
   at_ "file_exists" w_exists;
   at_ "exc#1:open" (fun f => w_io f =? 1);
   at_ "exc#2:open" (fun f => w_io f =? 1);
   at_ "base_hash" w_base_hash;
   at_ "current_hash != base_hash@1" (fun f => w_io f =? 2);
   at_ "current_hash != base_hash@2" (fun f => w_io f =? 2);
   at_ "current_hash != base_hash@3" (fun f => w_io f =? 2);
   at_ "exc#3:parse" (fun f => w_io f =? 3);
   at_ "exc#4:self._apply_changes" (fun f => w_io f =? 4);
   at_ "lenient" w_lenient;
   at_ "exc#8:parse_with_warnings" (fun f => negb (w_pst f =? 0));
   at_ "exc#9:tokenize" (fun f => w_pst f =? 1);                     (* up to /repo f3e003d: tokenize(parse_input) *)
   at_ "exc#9:_strip_yaml_frontmatter" (fun f => w_pst f =? 1);      (* since /repo c296b0f: the try body first blanks the YAML
                                                                        frontmatter, then tokenises (same fact: tokenisation fails) *)
   at_ "exc#10:parse" (fun f => w_pst f =? 2);
   at_ "exc#12:emit" (fun f => negb (w_emit_ok f));
   at_ "schema_name" w_schema;
   at_ "schema_def is not None" w_builtin;
   at_ "schema_definition is not None@5" w_loaded;
   at_ "schema_definition.fields@5" w_fields;
   at_ "validation_errors@3" w_errs;
   at_ "corrections_only" (fun f => w_post f =? 0);
   at_ "exc#17:path_obj.parent.mkdir:PermissionError" (fun f => w_post f =? 4);
   at_ "exc#17:path_obj.parent.mkdir:Exception" (fun f => 5 <=? w_post f);
   at_ "exc#18:os.fchmod" (fun f => 4 <=? w_post f);
   at_ "path_obj.exists()" (fun f => (w_post f =? 2) || w_exists f);
   at_ "path_obj.is_symlink()" (fun f => w_post f =? 2);
   at_ "verify_hash != base_hash" (fun f => w_post f =? 3)].

Definition write_compiled := compile (with_flags write_dict status_write_flags) false status_write.
(* the final value of the flag local `salvaged` of WriteTool.execute, evaluated from its generated assignment sites
   (None when the source has no such flag, or a site guard is not understood) *)
Definition write_salvaged_flag_c : option (wfacts -> bool) :=
  match assoc (s2l "salvaged") status_write_flags with
  | Some sites => match cflag_sites write_dict sites with
                  | Some cs => Some (fun f => flag_eval cs false f empty_envl)
                  | None => None end
  | None => None end.
Definition write_salvaged_flag (f : wfacts) : option bool :=
  match write_salvaged_flag_c with Some g => Some (g f) | None => None end.
Definition write_env (f : wfacts) (grammar_hint debug_grammar : bool) : option envl :=
  match write_compiled with Some r => r f | None => None end.

(* ------------------------------------------------------------------------------------------------------ *)
(* octave_eject *)
Record efacts := mk_efacts {
  j_content : bool;   (* content is not None *)
  j_parse_ok : bool;
  j_format : N        (* 0 octave/other, 1 json, 2 yaml, 3 markdown, 4 gbnf *)
}.
Definition eject_dict : adict efacts :=
  [at_ "content is not None" j_content;
   at_ "exc#1:parse" (fun f => negb (j_parse_ok f));
   at_ "output_format == 'json'" (fun f => j_format f =? 1);
   at_ "output_format == 'yaml'" (fun f => j_format f =? 2);
   at_ "output_format == 'markdown'" (fun f => j_format f =? 3);
   at_ "output_format == 'gbnf'" (fun f => j_format f =? 4)].
Definition eject_compiled := compile (with_flags eject_dict status_eject_flags) false status_eject.
Definition eject_env (f : efacts) : option envl :=
  match eject_compiled with Some r => r f | None => None end.

(* ------------------------------------------------------------------------------------------------------ *)
(* octave_compile_grammar *)
Record gfacts := mk_gfacts {
  g_format : N;       (* 0 gbnf, 1 json_schema, 2 not a valid format *)
  g_schema : bool;    (* schema argument given *)
  g_content : bool;   (* content argument given *)
  g_load_exc : bool;  (* load_schema_by_name raised *)
  g_loaded : bool;    (* ... returned a definition *)
  g_parse_ok : bool;
  g_meta : bool;      (* doc.meta truthy *)
  g_contract : bool;  (* 'CONTRACT' in doc.meta *)
  g_resolved : bool;  (* content path: a schema definition object was obtained *)
  g_compile_exc : bool
}.
Definition grammar_dict : adict gfacts :=
  [at_ "output_format not in VALID_FORMATS" (fun f => 2 <=? g_format f);
   at_ "schema_name_param is not None" g_schema;
   at_ "content is not None" g_content;
   at_ "exc#1:load_schema_by_name" g_load_exc;
   at_ "schema_def is not None@2" g_loaded;
   at_ "exc#2:parse" (fun f => negb (g_parse_ok f));
   at_ "doc.meta" g_meta;
   at_ "'CONTRACT' in doc.meta" g_contract;
   at_ "output_format == 'gbnf'" (fun f => g_format f =? 0);
   at_ "output_format == 'json_schema'" (fun f => g_format f =? 1);
   at_ "schema_def is not None@4" (fun f => if g_schema f then g_loaded f else g_resolved f);
   at_ "exc#3:GBNFCompiler" g_compile_exc].
Definition grammar_compiled := compile (with_flags grammar_dict status_grammar_flags) false status_grammar.
Definition grammar_env (f : gfacts) : option envl :=
  match grammar_compiled with Some r => r f | None => None end.

(* ------------------------------------------------------------------------------------------------------ *)
(* `octave validate` (CLI) *)
Record cvfacts := mk_cvfacts {
  cv_file : bool; cv_stdin : bool;          (* FILE argument / --stdin *)
  cv_require_seal : bool; cv_verify_seal : bool;
  cv_exc : bool;                            (* anything in the try body raised (parse, load, emit, ...) *)
  cv_schema : bool;                         (* --schema given and non-empty *)
  cv_builtin : bool;                        (* get_builtin_schema(schema) is not None *)
  cv_errs : bool;                           (* Validator(schema_def).validate(doc) non-empty *)
  cv_errs_noschema : bool;                  (* Validator(None).validate(doc) non-empty *)
  cv_fix : bool;
  cv_errs_after : bool;                     (* re-validation after repair non-empty *)
  cv_seal : N                               (* 0 verified, 1 INVALID, 2 NO_SEAL *)
}.
Definition cv_errs_before (f : cvfacts) : bool :=
  if cv_schema f && cv_builtin f then cv_errs f else cv_errs_noschema f.
Definition cli_validate_dict : adict cvfacts :=
  [at_ "file is not None" cv_file;
   at_ "file" cv_file;
   at_ "use_stdin" cv_stdin;
   at_ "require_seal" cv_require_seal;
   at_ "verify_seal" cv_verify_seal;
   at_ "exc#1:parse:Exception" cv_exc;
   at_ "schema" cv_schema;
   at_ "schema_def is not None@1" cv_builtin;
   at_ "validation_errors@2" cv_errs;
   at_ "fix" cv_fix;
   at_ "validation_errors@4" cv_errs_before;
   at_ "validation_errors@5" cv_errs_after;
   (s2l "validation_status == 'INVALID'@4", fun _ e => e_vs e =? 3);
   at_ "seal_status == SealStatus.INVALID@2" (fun f => cv_seal f =? 1);
   at_ "seal_status == SealStatus.NO_SEAL@2" (fun f => cv_seal f =? 2)].
Definition cli_validate_compiled := compile (with_flags cli_validate_dict status_cli_validate_flags) true status_cli_validate.
Definition cli_validate_env (f : cvfacts) : option envl :=
  match cli_validate_compiled with Some r => r f | None => None end.

(* `octave write` (CLI) *)
Record cwfacts := mk_cwfacts {
  cw_sources : N;      (* number of input sources given: 0, 1, 2 (= more than one) *)
  cw_path_ok : bool;
  cw_content : bool;   (* content mode (--content / --stdin) rather than --changes *)
  cw_exists : bool;
  cw_exc : N;          (* 0 none, 1 JSONDecodeError, 2 other exception in the try body (parse, emit, ...) *)
  cw_schema : bool; cw_builtin : bool; cw_errs : bool;
  cw_write_err : bool  (* atomic_write_octave returned status error *)
}.
Definition cli_write_dict : adict cwfacts :=
  [at_ "input_sources == 0" (fun f => cw_sources f =? 0);
   at_ "input_sources > 1" (fun f => 2 <=? cw_sources f);
   at_ "path_valid" cw_path_ok;
   at_ "exc#1:parse:json_module.JSONDecodeError" (fun f => cw_exc f =? 1);
   at_ "exc#1:parse:Exception" (fun f => 2 <=? cw_exc f);
   at_ "content is not None@2" cw_content;
   at_ "target_path.exists()" cw_exists;
   at_ "schema" cw_schema;
   at_ "schema_def is not None" cw_builtin;
   at_ "validation_errors" cw_errs;
   at_ "write_result['status'] == 'error'" cw_write_err].
Definition cli_write_compiled := compile (with_flags cli_write_dict status_cli_write_flags) true status_cli_write.
Definition cli_write_env (f : cwfacts) : option envl :=
  match cli_write_compiled with Some r => r f | None => None end.
