(* C20 -- no exception escapes a tool's execute(); every returned envelope carries a status.

   Consumes Gen/ExnFlowGen.v (harness/translate/exnflow_t.py): per tool, the ordered call sites of execute()
   with, for each, the classes caught by every enclosing `try` whose BODY contains the site.

   `may_raise` is the table of what each called stage may raise FOR WELL-TYPED ARGUMENTS (required
   parameters present with their declared JSON types, enum parameters within their enum, surrogate-free
   text).  Every line of it is an ASSUMPTION about Python code that is not modelled here; the table is
   listed in the evidence and is what the search of harness/props/c20.py attacks.  It is fail-closed: a
   callee that is in neither list is taken to raise `Exception`, so a new uncovered call breaks the
   obligation until it is classified.

     uncovered tool          the (callee, ordinal, class) triples that no enclosing handler catches
     no_escape tool          uncovered tool ⊆ benign_sites  (context-justified sites, listed below)
     C20 obligations         what escapes each tool is EXACTLY known_escapes (vm_compute over the generated structure)
                             eject: since repair 88905cd the json.dumps site (still outside any try) is BENIGN --
                             its argument is _ast_to_dict(...) (generated: flow_eject_json_dumps_args), whose result
                             holds native values only (Proj/ProjFacts.v dict_native, re-exported by ExnFlowEject.v);
                             the only escapes of eject are the two of compile_gbnf_from_meta (format=gbnf)
     envelope_has_status     every `return` of every execute() yields a dict that has "status" or
                             "validation_status"                                                      *)
From Coq Require Import String Ascii.
From OV Require Import Base.Strs Tools.ExnFlowLang Gen.ExnFlowGen.
Open Scope N_scope.
Open Scope string_scope.

Definition L (s : string) : str := List.map N_of_ascii (list_ascii_of_string s).

(* ---- stages that may raise, with the classes ------------------------------------------------------ *)
Definition raising : list (string * list string) :=
  [ (* first clause of C20: the reader raises its own two classes (Lex/Progress.v + search) -- and, on the
       pinned tree, ValueError from `int(lexeme)` on an integer literal longer than CPython's 4300-digit
       conversion limit (finding C20-lexer-int-digit-limit; outside the lexer model, which keeps the lexeme) *)
    ("parse", ["LexerError"; "ParserError"; "ValueError"]);
    ("parse_with_warnings", ["LexerError"; "ParserError"; "ValueError"]);
    ("tokenize", ["LexerError"; "ParserError"; "ValueError"]);
    (* META.CONTRACT route of the grammar compiler: TypeError/AttributeError on a non-string META.TYPE
       (finding C20-gbnf-contract-nonstring-type) *)
    ("compile_gbnf_from_meta", ["TypeError"; "AttributeError"]);
    (* emit raises on values it cannot write (Absent in value position, unknown node types) *)
    ("emit", ["Exception"]);
    (* json refuses objects that are not dict/list/str/num/bool/None (in general: the server's json.dumps(result);
       the one site in eject is whitelisted in benign_sites by its argument) *)
    ("json.dumps", ["TypeError"]);
    (* schema loading: file system + parse of the schema file *)
    ("load_schema_by_name", ["Exception"]);
    ("load_schema", ["Exception"]);
    ("resolve_hermetic_standard", ["Exception"]);
    (* grammar compilation from a loaded schema definition *)
    ("GBNFCompiler().compile_schema", ["Exception"]);
    ("_gbnf_to_json_schema", ["Exception"]);
    ("parse_contract_field", ["ValueError"]);
    (* applying caller-supplied changes to the AST *)
    ("self._apply_changes", ["Exception"]);
    ("self._map_parse_warnings_to_corrections", ["Exception"]);
    (* the operating system *)
    ("open", ["Exception"]); ("f.read", ["Exception"]); ("f.write", ["Exception"]); ("f.flush", ["Exception"]);
    ("f.fileno", ["Exception"]); ("verify_f.read", ["Exception"]); ("path.read_text", ["Exception"]);
    ("os.fchmod", ["Exception"]); ("os.fdopen", ["Exception"]); ("os.fsync", ["Exception"]);
    ("os.replace", ["Exception"]); ("os.stat", ["Exception"]); ("os.unlink", ["Exception"]);
    ("os.path.exists", ["Exception"]); ("tempfile.mkstemp", ["Exception"]);
    ("path_obj.parent.mkdir", ["Exception"]); ("path_obj.is_symlink", ["Exception"]);
    (* pathlib swallows ENOENT/ENOTDIR/EBADF/ELOOP only: ENAMETOOLONG escapes (finding C20-path-name-too-long) *)
    ("path.exists", ["OSError"]); ("path_obj.exists", ["OSError"]);
    ("raise <reraise>", ["Exception"])
  ].

(* stages ASSUMED total on well-typed arguments (each is an assumption; see header) *)
Definition total : list string :=
  [ (* builtins and container methods on values the function itself built *)
    "len"; "str"; "bool"; "type"; "isinstance"; "hasattr"; "sorted"; "', '.join";
    "params.get"; "result.get"; "c.get"; "doc.meta.get"; "field_spec.get"; "meta_schema.get"; "schema_def.get";
    "_compilation_rule_map.get"; "fields.items"; "schema_definition.fields.items";
    "compilations.append"; "corrections.append"; "corrections.extend"; "result['corrections'].append";
    "result['errors'].append"; "result['repairs'].extend"; "result['warnings'].extend";
    "current.lower"; "v.lower"; "profile_raw.upper"; "parse_input.strip"; "schema_name.startswith";
    "<subscript>params"; "<subscript>result"; "<subscript>base_hash"; "<subscript>current_hash";
    "<subscript>verify_hash"; "<subscript>debug_info"; "<subscript>compilations"; "<subscript>matches";
    (* constructors of plain records *)
    "Path"; "Validator"; "GBNFCompiler"; "SchemaDefinition"; "FieldDefinition"; "HolographicPattern";
    "LiteralZoneRepairLog"; "LiteralZoneRepairLog(entries=[]).to_dict";
    (* pure traversals of a document the reader produced *)
    "project"; "_count_literal_zones"; "_ast_to_dict"; "_ast_to_markdown"; "extract_structural_metrics";
    "validator.validate"; "validator_for_repair.validate"; "validator.routing_log.to_dict"; "repair"; "entry.to_dict";
    "extract_schema_from_document"; "compiler.compile_schema"; "_extract_contract_field_specs";
    "chain.to_string"; "chain.compile"; "get_builtin_schema"; "yaml.dump"; "re.search"; "_extract_spec_code";
    (* str.startswith / split / join on a str argument (frontmatter replaced by blank lines before strict tokenisation: c296b0f) *)
    "_strip_yaml_frontmatter";
    (* methods of the tool itself (their own bodies catch what they call) and path predicates *)
    "self.validate_parameters"; "self._validate_path"; "self._compute_hash"; "self._build_unified_diff";
    "self._generate_diff"; "self._apply_mutations"; "self._unwrap_markdown_code_fence";
    "self._repair_curly_brace_annotations"; "self._wrap_plain_text_as_doc"; "self._localized_salvage";
    "self._track_corrections"; "self._error_envelope"; "self._error_response"
  ].

Definition lookup_raising (c : str) : option (list str) :=
  match find (fun p => str_eqb (L (fst p)) c) raising with
  | Some p => Some (List.map L (snd p))
  | None => None
  end.
Definition is_total (c : str) : bool := existsb (fun t => str_eqb (L t) c) total.

Definition exn_any : str := L "Exception".
Definition may_raise (c : str) : list str :=
  match lookup_raising c with
  | Some ks => ks
  | None => if is_total c then [] else [exn_any]      (* fail closed *)
  end.

(* a handler list catches class k: by name, or because it catches everything *)
Definition catches (k : str) (classes : list str) : bool :=
  existsb (fun c => str_eqb c k || str_eqb c (L "Exception") || str_eqb c (L "BaseException")) classes.
Definition covered (k : str) (stack : list (list str)) : bool := existsb (catches k) stack.

Definition uncovered_of (sites : list site) : list (str * N * str) :=
  flat_map (fun s => List.map (fun k => (s_callee s, s_ord s, k))
                              (filter (fun k => negb (covered k (s_stack s))) (may_raise (s_callee s)))) sites.

(* sites where the context excludes the exception the stage may raise in general: (tool, callee, ordinal) *)
Definition benign_sites : list (string * string * N) :=
  [ (* write.py: re-emit after the ENUM case-fold of one META string; the same document was emitted by the
       covered site emit#0 a few lines earlier and only a str was replaced by a str *)
    ("write", "emit", 1);
    (* eject.py (format=json): `data = _ast_to_dict(result.filtered_doc); output = json.dumps(data, ...)`.
       The site is outside any try, but since repair 88905cd its argument holds dict/list/str/number/bool/None only,
       for EVERY document: eject_json_dumps_argument (below, over the generated provenance) +
       ExnFlowEject.eject_json_argument_native (= Proj.ProjFacts.dict_native over the generated isinstance table of
       _convert_value).  Before the repair this was the escape of findings C20-eject-json-holographic / -nested-meta. *)
    ("eject", "json.dumps", 0) ].

Definition triple_eqb (t : string * string * N) (tool : str) (u : str * N * str) : bool :=
  let '(tl, cal, o) := t in let '(c, o', _) := u in
  str_eqb (L tl) tool && str_eqb (L cal) c && N.eqb o o'.

Definition escapes (tool : str) (sites : list site) : list (str * N * str) :=
  filter (fun u => negb (existsb (fun t => triple_eqb t tool u) benign_sites)) (uncovered_of sites).

Definition no_escape (tool : str) (sites raises : list site) : bool :=
  match escapes tool (sites ++ raises)%list with [] => true | _ => false end.

(* ---- envelope shape ------------------------------------------------------------------------------------ *)
Definition has_status_key (keys : list str) : bool :=
  existsb (fun k => str_eqb k (L "status") || str_eqb k (L "validation_status")) keys.

Definition split_commas (s : str) : list str := split_on 44 s.

Definition shape_ok (tool : str) (dict_vars : list (str * list str)) (shape : str) : bool :=
  if prefixb (L "dict:") shape then has_status_key (split_commas (skipn 5 shape))
  else if prefixb (L "helper:") shape then
    match find (fun h => str_eqb (fst (fst h)) tool && str_eqb (snd (fst h)) (skipn 7 shape)) flow_helpers with
    | Some h => has_status_key (snd h)
    | None => false
    end
  else if prefixb (L "var:") shape then
    match find (fun v => str_eqb (fst v) (skipn 4 shape)) dict_vars with
    | Some v => has_status_key (snd v)
    | None => false
    end
  else false.

Definition envelope_has_status (tool : str) (returns : list (N * str)) (dict_vars : list (str * list str)) : bool :=
  match returns with [] => false | _ => forallb (fun r => shape_ok tool dict_vars (snd r)) returns end.

(* ---- obligations over the generated structure ------------------------------------------------------- *)
(* genuine escapes on the pinned tree, each a replayed finding of known_findings: (tool, callee, ordinal, class) *)
Definition known_escapes : list (string * string * N * string) :=
  [ (* C20-gbnf-contract-nonstring-type: compile_gbnf_from_meta(doc.meta) outside any try *)
    ("eject", "compile_gbnf_from_meta", 0, "TypeError"); ("eject", "compile_gbnf_from_meta", 0, "AttributeError");
    ("compile_grammar", "compile_gbnf_from_meta", 0, "TypeError");
    ("compile_grammar", "compile_gbnf_from_meta", 0, "AttributeError");
    (* C20-write-baseline-foreign-exception (caused by C20-lexer-int-digit-limit): re-parse of the existing
       file under handlers that catch only (LexerError, ParserError) *)
    ("write", "parse", 1, "ValueError"); ("write", "parse_with_warnings", 0, "ValueError");
    ("write", "parse", 3, "ValueError");
    (* C20-path-name-too-long: Path(...).exists() outside any try *)
    ("validate", "path.exists", 0, "OSError"); ("write", "path_obj.exists", 0, "OSError") ].

Definition known_of (tool : string) : list (str * N * str) :=
  List.map (fun t => (L (snd (fst (fst t))), snd (fst t), L (snd t)))
           (filter (fun t => String.eqb (fst (fst (fst t))) tool) known_escapes).

Definition flow_of (tool : string) : list site :=
  if String.eqb tool "validate" then (flow_validate_sites ++ flow_validate_raises)%list
  else if String.eqb tool "write" then (flow_write_sites ++ flow_write_raises)%list
  else if String.eqb tool "eject" then (flow_eject_sites ++ flow_eject_raises)%list
  else if String.eqb tool "compile_grammar" then (flow_compile_grammar_sites ++ flow_compile_grammar_raises)%list
  else [].

Definition tool_names : list string := ["validate"; "write"; "eject"; "compile_grammar"].

(* validate: the content-dependent stages are all covered; the one escape is the path predicate *)
Lemma no_escape_validate_refuted : no_escape (L "validate") flow_validate_sites flow_validate_raises = false.
Proof. vm_compute. reflexivity. Qed.
Lemma validate_only_escape_is_path_exists :
  escapes (L "validate") (flow_validate_sites ++ flow_validate_raises)%list = [(L "path.exists", 0, L "OSError")].
Proof. vm_compute. reflexivity. Qed.

(* the helpers that build error envelopes call nothing that may raise *)
Lemma no_escape_helpers :
  no_escape (L "validate") flow_validate_helper_error_envelope_sites [] = true /\
  no_escape (L "write") flow_write_helper_error_envelope_sites [] = true /\
  no_escape (L "compile_grammar") flow_compile_grammar_helper_error_response_sites [] = true.
Proof. vm_compute. repeat split; reflexivity. Qed.

(* the full statement is false of the faithful structure for every tool ... *)
Definition no_escape_full : Prop :=
  forall tool, In tool tool_names -> escapes (L tool) (flow_of tool) = [].
Lemma no_escape_write_refuted : no_escape (L "write") flow_write_sites flow_write_raises = false.
Proof. vm_compute. reflexivity. Qed.
(* eject: still refuted as a whole -- by compile_gbnf_from_meta (format=gbnf, finding C20-gbnf-contract-nonstring-type) ... *)
Lemma no_escape_eject_refuted : no_escape (L "eject") flow_eject_sites flow_eject_raises = false.
Proof. vm_compute. reflexivity. Qed.
(* ... and by nothing else: the json.dumps site no longer escapes (repair 88905cd) *)
Lemma eject_only_escape_is_gbnf_contract :
  escapes (L "eject") (flow_eject_sites ++ flow_eject_raises)%list =
  [(L "compile_gbnf_from_meta", 0, L "TypeError"); (L "compile_gbnf_from_meta", 0, L "AttributeError")].
Proof. vm_compute. reflexivity. Qed.
(* POSITIVE form: with the gbnf-contract call set aside, nothing escapes octave_eject -- every site reached by
   format = octave / json / yaml / markdown (and the template / parse-error paths) is covered or benign *)
Definition not_gbnf_contract (s : site) : bool := negb (str_eqb (s_callee s) (L "compile_gbnf_from_meta")).
Lemma no_escape_eject_json :
  no_escape (L "eject") (filter not_gbnf_contract flow_eject_sites) flow_eject_raises = true.
Proof. vm_compute. reflexivity. Qed.
(* the json.dumps site is STILL syntactically unprotected (no try): it is absent from `escapes` only through
   benign_sites, i.e. through the argument theorem -- not because a handler appeared *)
Lemma eject_json_dumps_unprotected_but_benign :
  existsb (fun u => str_eqb (fst (fst u)) (L "json.dumps") && N.eqb (snd (fst u)) 0 && str_eqb (snd u) (L "TypeError"))
          (uncovered_of flow_eject_sites) = true /\
  existsb (fun u => str_eqb (fst (fst u)) (L "json.dumps")) (escapes (L "eject") (flow_eject_sites ++ flow_eject_raises)%list) = false.
Proof. vm_compute. split; reflexivity. Qed.
(* the whitelisted site is the ONLY json.dumps of execute() and it is applied to the output of _ast_to_dict *)
Lemma eject_json_dumps_argument :
  flow_eject_json_dumps_args = [(0, L "_ast_to_dict(result.filtered_doc)")] /\
  List.length (filter (fun s => str_eqb (s_callee s) (L "json.dumps")) flow_eject_sites) = 1%nat.
Proof. vm_compute. split; reflexivity. Qed.
Lemma no_escape_compile_grammar_refuted :
  no_escape (L "compile_grammar") flow_compile_grammar_sites flow_compile_grammar_raises = false.
Proof. vm_compute. reflexivity. Qed.
Lemma no_escape_full_refuted : ~ no_escape_full.
Proof. intro H. specialize (H "eject" (or_intror (or_intror (or_introl eq_refl)))). vm_compute in H. discriminate. Qed.

(* ... and what escapes is EXACTLY the list of known findings, tool by tool *)
Lemma escapes_are_the_known_ones :
  forallb (fun tool => let e := escapes (L tool) (flow_of tool) in let k := known_of tool in
                       forallb (fun u => existsb (fun v => str_eqb (fst (fst u)) (fst (fst v)) && N.eqb (snd (fst u)) (snd (fst v))
                                                           && str_eqb (snd u) (snd v)) k) e
                       && forallb (fun v => existsb (fun u => str_eqb (fst (fst u)) (fst (fst v)) && N.eqb (snd (fst u)) (snd (fst v))
                                                              && str_eqb (snd u) (snd v)) e) k) tool_names = true.
Proof. vm_compute. reflexivity. Qed.

(* partial form: apart from the known escapes nothing escapes any tool *)
Definition no_escape_partial_stmt : Prop :=
  forall tool u, In tool tool_names -> In u (escapes (L tool) (flow_of tool)) ->
    existsb (fun v => str_eqb (fst (fst u)) (fst (fst v)) && N.eqb (snd (fst u)) (snd (fst v)) && str_eqb (snd u) (snd v))
            (known_of tool) = true.
Lemma no_escape_partial : no_escape_partial_stmt.
Proof.
  intros tool u Ht Hu.
  pose proof (proj1 (forallb_forall _ _) escapes_are_the_known_ones tool Ht) as H. cbn zeta in H.
  apply andb_true_iff in H as [H _]. exact (proj1 (forallb_forall _ _) H u Hu).
Qed.

Lemma envelopes_have_status :
  forallb (fun t => let '(name, _, returns, dvars) := t in envelope_has_status name returns dvars) flow_tools = true.
Proof. vm_compute. reflexivity. Qed.

(* the tool list is the four tools the server registers, and the server adds no handler of its own:
   what escapes execute() or json.dumps(result) escapes handle_call_tool *)
Lemma flow_tools_names : List.map (fun t => fst (fst (fst t))) flow_tools = [L "validate"; L "write"; L "eject"; L "compile_grammar"].
Proof. vm_compute. reflexivity. Qed.
Lemma server_adds_no_handler : forallb (fun s => match s_stack s with [] => true | _ => false end) flow_server_sites = true.
Proof. vm_compute. reflexivity. Qed.
Lemma server_serialises_result : existsb (fun s => str_eqb (s_callee s) (L "json.dumps")) flow_server_sites = true.
Proof. vm_compute. reflexivity. Qed.

(* ---- the check is not vacuous: removing the handler around a parse stage flips it ---------------------- *)
Definition strip_handlers (callee : str) (sites : list site) : list site :=
  List.map (fun s => if str_eqb (s_callee s) callee then mkSite (s_line s) (s_callee s) (s_ord s) [] else s) sites.

Definition count_escapes (tool : str) (sites : list site) : nat := List.length (escapes tool sites).

Lemma no_escape_detects_unprotected_parse :
  (count_escapes (L "validate") flow_validate_sites
   < count_escapes (L "validate") (strip_handlers (L "parse_with_warnings") flow_validate_sites))%nat /\
  (count_escapes (L "write") flow_write_sites < count_escapes (L "write") (strip_handlers (L "tokenize") flow_write_sites))%nat /\
  (count_escapes (L "compile_grammar") flow_compile_grammar_sites
   < count_escapes (L "compile_grammar") (strip_handlers (L "parse") flow_compile_grammar_sites))%nat.
Proof. vm_compute. repeat split; try reflexivity; lia. Qed.

(* every site is classified: nothing on the pinned tree falls into the fail-closed default *)
Definition classified (c : str) : bool := match lookup_raising c with Some _ => true | None => is_total c end.
Lemma all_callees_classified :
  forallb (fun t => let '(_, sites, _, _) := t in forallb (fun s => classified (s_callee s)) sites) flow_tools = true.
Proof. vm_compute. reflexivity. Qed.

(* ---- reports for the harness (extracted) ------------------------------------------------------------- *)
Definition tool_sites (tool : str) : list site :=
  if str_eqb tool (L "validate") then (flow_validate_sites ++ flow_validate_raises)%list
  else if str_eqb tool (L "write") then (flow_write_sites ++ flow_write_raises)%list
  else if str_eqb tool (L "eject") then (flow_eject_sites ++ flow_eject_raises)%list
  else if str_eqb tool (L "compile_grammar") then (flow_compile_grammar_sites ++ flow_compile_grammar_raises)%list
  else if str_eqb tool (L "server") then (flow_server_sites ++ flow_server_raises)%list
  else [].
Definition report_escapes (tool : str) : list (str * N * str) := escapes tool (tool_sites tool).
(* (line, callee, ordinal, classes it may raise, classes not caught) for every site of a tool *)
Definition report_sites (tool : str) : list (N * str * N * list str * list str) :=
  List.map (fun s => (s_line s, s_callee s, s_ord s, may_raise (s_callee s),
                      filter (fun k => negb (covered k (s_stack s))) (may_raise (s_callee s)))) (tool_sites tool).
Definition report_total : list str := List.map L total.
Definition report_raising : list (str * list str) := List.map (fun p => (L (fst p), List.map L (snd p))) raising.
Definition report_known : list (str * str * N * str) :=
  List.map (fun t => (L (fst (fst (fst t))), L (snd (fst (fst t))), snd (fst t), L (snd t))) known_escapes.
Definition report_benign : list (str * str * N) := List.map (fun t => (L (fst (fst t)), L (snd (fst t)), snd t)) benign_sites.
