(* C10 -- theorems about the table-driven envelope functions of Tools/Envelope.v.
   Every theorem is over the WHOLE finite fact space of the tool (size in the comment above each enumerator),
   decided by vm_compute on nested forallb and lifted to a universally quantified statement.
   Because validate_env etc. are the interpreter applied to Gen/StatusGen.v, these proofs are re-checked against
   the current source on every run: a moved assignment, a dropped downgrade or a changed guard changes the table
   and either breaks compilation of the table (unknown atom -> None) or one of the vm_compute checks below. *)
From OV Require Import Base.Strs Tools.EnvelopeSyntax Gen.StatusGen Tools.Envelope.
Open Scope N_scope.

Definition bools := [true; false].
Definition upto (k : nat) : list N := map N.of_nat (seq 0 k).
Lemma all_bools (g : bool -> bool) : forallb g bools = true -> forall b, g b = true.
Proof. cbn. intros H b. apply andb_true_iff in H as [H1 H2]. apply andb_true_iff in H2 as [H2 _]. destruct b; assumption. Qed.
Lemma all_upto (g : N -> bool) (k : nat) : forallb g (upto k) = true -> forall n, n < N.of_nat k -> g n = true.
Proof.
  intros H n Hn. rewrite forallb_forall in H. apply H. unfold upto. apply in_map_iff.
  exists (N.to_nat n). split; [apply N2Nat.id|]. apply in_seq. lia.
Qed.

(* vfacts: 20480 valuations *)
Definition forall_v (P : vfacts -> bool) : bool :=
  forallb (fun x0 => forallb (fun x1 => forallb (fun x2 => forallb (fun x3 => forallb (fun x4 => forallb (fun x5 => forallb (fun x6 => forallb (fun x7 => forallb (fun x8 => forallb (fun x9 => forallb (fun x10 => forallb (fun x11 => forallb (fun x12 => P (mk_vfacts x0 x1 x2 x3 x4 x5 x6 x7 x8 x9 x10 x11 x12)) bools) bools) bools) bools) bools) bools) bools) bools) bools) bools) bools) bools) (upto 5).
Definition wf_v (f : vfacts) : Prop := v_profile f < 5.
Lemma forall_v_sound P : forall_v P = true -> forall f, wf_v f -> P f = true.
Proof.
  unfold forall_v, wf_v; intros H [x0 x1 x2 x3 x4 x5 x6 x7 x8 x9 x10 x11 x12] Hwf.
  apply (all_upto _ 5) with (n := x0) in H; [cbv beta in H | tauto].
  apply all_bools with (b := x1) in H; cbv beta in H.
  apply all_bools with (b := x2) in H; cbv beta in H.
  apply all_bools with (b := x3) in H; cbv beta in H.
  apply all_bools with (b := x4) in H; cbv beta in H.
  apply all_bools with (b := x5) in H; cbv beta in H.
  apply all_bools with (b := x6) in H; cbv beta in H.
  apply all_bools with (b := x7) in H; cbv beta in H.
  apply all_bools with (b := x8) in H; cbv beta in H.
  apply all_bools with (b := x9) in H; cbv beta in H.
  apply all_bools with (b := x10) in H; cbv beta in H.
  apply all_bools with (b := x11) in H; cbv beta in H.
  apply all_bools with (b := x12) in H; cbv beta in H.
  exact H.
Qed.

(* wfacts: 1105920 valuations *)
Definition forall_w (P : wfacts -> bool) : bool :=
  forallb (fun x0 => forallb (fun x1 => forallb (fun x2 => forallb (fun x3 => forallb (fun x4 => forallb (fun x5 => forallb (fun x6 => forallb (fun x7 => forallb (fun x8 => forallb (fun x9 => forallb (fun x10 => forallb (fun x11 => forallb (fun x12 => forallb (fun x13 => forallb (fun x14 => forallb (fun x15 => P (mk_wfacts x0 x1 x2 x3 x4 x5 x6 x7 x8 x9 x10 x11 x12 x13 x14 x15)) (upto 6)) bools) bools) bools) bools) bools) bools) (upto 3)) bools) bools) (upto 5)) bools) bools) bools) bools) (upto 3).
Definition wf_w (f : wfacts) : Prop := w_policy f < 3 /\ w_io f < 5 /\ w_pst f < 3 /\ w_post f < 6.
Lemma forall_w_sound P : forall_w P = true -> forall f, wf_w f -> P f = true.
Proof.
  unfold forall_w, wf_w; intros H [x0 x1 x2 x3 x4 x5 x6 x7 x8 x9 x10 x11 x12 x13 x14 x15] Hwf.
  apply (all_upto _ 3) with (n := x0) in H; [cbv beta in H | tauto].
  apply all_bools with (b := x1) in H; cbv beta in H.
  apply all_bools with (b := x2) in H; cbv beta in H.
  apply all_bools with (b := x3) in H; cbv beta in H.
  apply all_bools with (b := x4) in H; cbv beta in H.
  apply (all_upto _ 5) with (n := x5) in H; [cbv beta in H | tauto].
  apply all_bools with (b := x6) in H; cbv beta in H.
  apply all_bools with (b := x7) in H; cbv beta in H.
  apply (all_upto _ 3) with (n := x8) in H; [cbv beta in H | tauto].
  apply all_bools with (b := x9) in H; cbv beta in H.
  apply all_bools with (b := x10) in H; cbv beta in H.
  apply all_bools with (b := x11) in H; cbv beta in H.
  apply all_bools with (b := x12) in H; cbv beta in H.
  apply all_bools with (b := x13) in H; cbv beta in H.
  apply all_bools with (b := x14) in H; cbv beta in H.
  apply (all_upto _ 6) with (n := x15) in H; [cbv beta in H | tauto].
  exact H.
Qed.

(* efacts: 20 valuations *)
Definition forall_j (P : efacts -> bool) : bool :=
  forallb (fun x0 => forallb (fun x1 => forallb (fun x2 => P (mk_efacts x0 x1 x2)) (upto 5)) bools) bools.
Definition wf_j (f : efacts) : Prop := j_format f < 5.
Lemma forall_j_sound P : forall_j P = true -> forall f, wf_j f -> P f = true.
Proof.
  unfold forall_j, wf_j; intros H [x0 x1 x2] Hwf.
  apply all_bools with (b := x0) in H; cbv beta in H.
  apply all_bools with (b := x1) in H; cbv beta in H.
  apply (all_upto _ 5) with (n := x2) in H; [cbv beta in H | tauto].
  exact H.
Qed.

(* gfacts: 1536 valuations *)
Definition forall_g (P : gfacts -> bool) : bool :=
  forallb (fun x0 => forallb (fun x1 => forallb (fun x2 => forallb (fun x3 => forallb (fun x4 => forallb (fun x5 => forallb (fun x6 => forallb (fun x7 => forallb (fun x8 => forallb (fun x9 => P (mk_gfacts x0 x1 x2 x3 x4 x5 x6 x7 x8 x9)) bools) bools) bools) bools) bools) bools) bools) bools) bools) (upto 3).
Definition wf_g (f : gfacts) : Prop := g_format f < 3.
Lemma forall_g_sound P : forall_g P = true -> forall f, wf_g f -> P f = true.
Proof.
  unfold forall_g, wf_g; intros H [x0 x1 x2 x3 x4 x5 x6 x7 x8 x9] Hwf.
  apply (all_upto _ 3) with (n := x0) in H; [cbv beta in H | tauto].
  apply all_bools with (b := x1) in H; cbv beta in H.
  apply all_bools with (b := x2) in H; cbv beta in H.
  apply all_bools with (b := x3) in H; cbv beta in H.
  apply all_bools with (b := x4) in H; cbv beta in H.
  apply all_bools with (b := x5) in H; cbv beta in H.
  apply all_bools with (b := x6) in H; cbv beta in H.
  apply all_bools with (b := x7) in H; cbv beta in H.
  apply all_bools with (b := x8) in H; cbv beta in H.
  apply all_bools with (b := x9) in H; cbv beta in H.
  exact H.
Qed.

(* cvfacts: 6144 valuations *)
Definition forall_cv (P : cvfacts -> bool) : bool :=
  forallb (fun x0 => forallb (fun x1 => forallb (fun x2 => forallb (fun x3 => forallb (fun x4 => forallb (fun x5 => forallb (fun x6 => forallb (fun x7 => forallb (fun x8 => forallb (fun x9 => forallb (fun x10 => forallb (fun x11 => P (mk_cvfacts x0 x1 x2 x3 x4 x5 x6 x7 x8 x9 x10 x11)) (upto 3)) bools) bools) bools) bools) bools) bools) bools) bools) bools) bools) bools.
Definition wf_cv (f : cvfacts) : Prop := cv_seal f < 3.
Lemma forall_cv_sound P : forall_cv P = true -> forall f, wf_cv f -> P f = true.
Proof.
  unfold forall_cv, wf_cv; intros H [x0 x1 x2 x3 x4 x5 x6 x7 x8 x9 x10 x11] Hwf.
  apply all_bools with (b := x0) in H; cbv beta in H.
  apply all_bools with (b := x1) in H; cbv beta in H.
  apply all_bools with (b := x2) in H; cbv beta in H.
  apply all_bools with (b := x3) in H; cbv beta in H.
  apply all_bools with (b := x4) in H; cbv beta in H.
  apply all_bools with (b := x5) in H; cbv beta in H.
  apply all_bools with (b := x6) in H; cbv beta in H.
  apply all_bools with (b := x7) in H; cbv beta in H.
  apply all_bools with (b := x8) in H; cbv beta in H.
  apply all_bools with (b := x9) in H; cbv beta in H.
  apply all_bools with (b := x10) in H; cbv beta in H.
  apply (all_upto _ 3) with (n := x11) in H; [cbv beta in H | tauto].
  exact H.
Qed.

(* cwfacts: 1152 valuations *)
Definition forall_cw (P : cwfacts -> bool) : bool :=
  forallb (fun x0 => forallb (fun x1 => forallb (fun x2 => forallb (fun x3 => forallb (fun x4 => forallb (fun x5 => forallb (fun x6 => forallb (fun x7 => forallb (fun x8 => P (mk_cwfacts x0 x1 x2 x3 x4 x5 x6 x7 x8)) bools) bools) bools) bools) (upto 3)) bools) bools) bools) (upto 3).
Definition wf_cw (f : cwfacts) : Prop := cw_sources f < 3 /\ cw_exc f < 3.
Lemma forall_cw_sound P : forall_cw P = true -> forall f, wf_cw f -> P f = true.
Proof.
  unfold forall_cw, wf_cw; intros H [x0 x1 x2 x3 x4 x5 x6 x7 x8] Hwf.
  apply (all_upto _ 3) with (n := x0) in H; [cbv beta in H | tauto].
  apply all_bools with (b := x1) in H; cbv beta in H.
  apply all_bools with (b := x2) in H; cbv beta in H.
  apply all_bools with (b := x3) in H; cbv beta in H.
  apply (all_upto _ 3) with (n := x4) in H; [cbv beta in H | tauto].
  apply all_bools with (b := x5) in H; cbv beta in H.
  apply all_bools with (b := x6) in H; cbv beta in H.
  apply all_bools with (b := x7) in H; cbv beta in H.
  apply all_bools with (b := x8) in H; cbv beta in H.
  exact H.
Qed.
(* ------------------------------------------------------------------------------------------------------ *)
(* one enumeration pass per tool: a list of boolean clauses checked on every valuation *)
Definition all_clauses {F} (env : F -> option envl) (cs : list (F -> envl -> bool)) (f : F) : bool :=
  match env f with Some e => forallb (fun c => c f e) cs | None => false end.
Lemma all_clauses_spec {F} (env : F -> option envl) cs f :
  all_clauses env cs f = true -> exists e, env f = Some e /\ forall c, In c cs -> c f e = true.
Proof.
  unfold all_clauses. destruct (env f) as [e|]; [|discriminate]. intro H. exists e. split; [reflexivity|].
  rewrite forallb_forall in H. exact H.
Qed.

Lemma implb_elim a b : implb a b = true -> a = true -> b = true.
Proof. destruct a, b; cbn; congruence. Qed.
Lemma eqb_of_eq a b : a = b -> (a =? b) = true.
Proof. intros ->. apply N.eqb_refl. Qed.

Definition vs_is (n : N) (e : envl) : bool := e_vs e =? n.
Definition c_total {F} (_ : F) (e : envl) : bool := vs_is 1 e || vs_is 2 e || vs_is 3 e.

(* ====================================================================================================== *)
(* octave_validate *)
Definition v_has_schema (f : vfacts) : bool := v_builtin f || (v_loaded f && v_fields f).
Definition v_lenient_profile (f : vfacts) : bool := (v_profile f =? 2) || (v_profile f =? 3).
Definition v_input_ok (f : vfacts) : bool :=
  (v_profile f <? 4) && xorb (v_content f) (v_file f) && (negb (v_file f) || (v_path_ok f && v_exists f && v_read_ok f)).
(* exactly the condition under which octave_validate answers VALIDATED *)
Definition v_validated_cond (f : vfacts) : bool :=
  v_input_ok f && v_parse_ok f && v_has_schema f && (negb (v_errs f) || v_lenient_profile f).

Definition vc_sound (f : vfacts) e := implb (vs_is 1 e) (v_parse_ok f && v_has_schema f && (negb (v_errs f) || v_lenient_profile f)).
Definition vc_unval (f : vfacts) e := implb (negb (v_parse_ok f) || negb (v_has_schema f)) (vs_is 2 e).
Definition vc_invalid (f : vfacts) e :=
  implb (vs_is 3 e) (((v_profile f =? 0) || (v_profile f =? 1)) && ((e_verrs e =? 2) || (e_vcount e =? 2))
                     && e_name e && e_version e && v_errs f).
Definition vc_valid (f : vfacts) e := negb (e_valid e =? 0) && Bool.eqb (e_valid e =? 1) (vs_is 1 e) && ((e_valid e =? 1) || (e_valid e =? 2)).
Definition vc_char (f : vfacts) e := Bool.eqb (vs_is 1 e) (v_validated_cond f).
Definition vc_named (f : vfacts) e := implb (vs_is 1 e) (e_name e && e_version e).
Definition vc_compact (f : vfacts) e := implb (negb (v_compact f)) (e_vcount e =? 0).
Definition v_clauses := [@c_total vfacts; vc_sound; vc_unval; vc_invalid; vc_valid; vc_char; vc_named; vc_compact].
Definition validate_env0 f := validate_env f false false false false.

Lemma validate_all : forall_v (all_clauses validate_env0 v_clauses) = true.
Proof. vm_compute. reflexivity. Qed.

Lemma validate_flags_irrelevant f a b c d : validate_env f a b c d = validate_env0 f.
Proof. unfold validate_env0, validate_env. reflexivity. Qed.

Lemma validate_clause f : wf_v f -> exists e, validate_env0 f = Some e /\ forall c, In c v_clauses -> c f e = true.
Proof. intro H. apply (all_clauses_spec validate_env0 v_clauses f). exact (forall_v_sound _ validate_all f H). Qed.
(* tactics must never try to evaluate the compiled table (vm_compute still does) *)
Global Opaque validate_compiled validate_env validate_env0.

(* obtain clause c for the envelope e of valuation f *)
Lemma validate_get f fx d gh dg e c : wf_v f -> validate_env f fx d gh dg = Some e -> In c v_clauses -> c f e = true.
Proof.
  intros Hwf He Hin. rewrite validate_flags_irrelevant in He. destruct (validate_clause f Hwf) as [e' [He' Hc]].
  rewrite He in He'. inversion He'; subst e'. apply Hc. exact Hin.
Qed.

(* 5 x 2^12 = 20480 valuations; fix / diff_only / grammar_hint / debug_grammar have no atom in the table *)
Theorem validate_status_total f fx d gh dg : wf_v f ->
  exists e, validate_env f fx d gh dg = Some e /\ (vs_is VALIDATED e || vs_is UNVALIDATED e || vs_is INVALID e = true).
Proof.
  intro Hwf. rewrite validate_flags_irrelevant. destruct (validate_clause f Hwf) as [e [He Hc]]. exists e. split; [exact He|].
  apply (Hc (@c_total vfacts)). cbn; tauto.
Qed.

(* VALIDATED -> the document parsed, a schema was found, and there is no blocking error *)
Theorem validate_validated_sound f fx d gh dg e : wf_v f -> validate_env f fx d gh dg = Some e -> e_vs e = VALIDATED ->
  v_parse_ok f && v_has_schema f && (negb (v_errs f) || v_lenient_profile f) = true.
Proof.
  intros Hwf He Hvs. apply (implb_elim (vs_is 1 e)); [|apply eqb_of_eq; exact Hvs].
  apply (validate_get f fx d gh dg e vc_sound Hwf He). cbn; tauto.
Qed.

(* parse failure, or no usable schema (unknown / malformed / unloadable name: not builtin, and not loaded or without fields) -> UNVALIDATED *)
Theorem validate_unvalidated_on_failure f fx d gh dg e : wf_v f -> validate_env f fx d gh dg = Some e ->
  negb (v_parse_ok f) || negb (v_has_schema f) = true -> e_vs e = UNVALIDATED.
Proof.
  intros Hwf He H. apply N.eqb_eq. apply (implb_elim _ _ (validate_get f fx d gh dg e vc_unval Hwf He ltac:(cbn; tauto)) H).
Qed.

(* INVALID -> STRICT/STANDARD, >= 1 reported validation error (list, or count when compact), schema name and version *)
Theorem validate_invalid_has_errors f fx d gh dg e : wf_v f -> validate_env f fx d gh dg = Some e -> e_vs e = INVALID ->
  ((v_profile f =? 0) || (v_profile f =? 1)) && ((e_verrs e =? 2) || (e_vcount e =? 2)) && e_name e && e_version e && v_errs f = true.
Proof.
  intros Hwf He Hvs. apply (implb_elim (vs_is 3 e)); [|apply eqb_of_eq; exact Hvs].
  apply (validate_get f fx d gh dg e vc_invalid Hwf He). cbn; tauto.
Qed.

(* valid is always present, a boolean, and true exactly when VALIDATED *)
Theorem validate_valid_iff_validated f fx d gh dg e : wf_v f -> validate_env f fx d gh dg = Some e ->
  negb (e_valid e =? 0) && Bool.eqb (e_valid e =? 1) (vs_is VALIDATED e) && ((e_valid e =? 1) || (e_valid e =? 2)) = true.
Proof. intros Hwf He. apply (validate_get f fx d gh dg e vc_valid Hwf He). cbn; tauto. Qed.

Theorem validate_validated_iff_cond f fx d gh dg e : wf_v f -> validate_env f fx d gh dg = Some e ->
  vs_is VALIDATED e = v_validated_cond f.
Proof. intros Hwf He. apply Bool.eqb_prop. apply (validate_get f fx d gh dg e vc_char Hwf He). cbn; tauto. Qed.

Theorem validate_validated_names_schema f fx d gh dg e : wf_v f -> validate_env f fx d gh dg = Some e -> e_vs e = VALIDATED ->
  e_name e && e_version e = true.
Proof.
  intros Hwf He Hvs. apply (implb_elim (vs_is 1 e)); [|apply eqb_of_eq; exact Hvs].
  apply (validate_get f fx d gh dg e vc_named Hwf He). cbn; tauto.
Qed.

(* re-validation: the second call is on the returned canonical text as `content`, same schema argument, same
   profile.  Explicit hypotheses (proved elsewhere, NOT here): the canonical text parses again (C01); the loader
   is deterministic (same name -> same builtin/loaded/fields, C06); a document without validation errors has a
   canonical form without validation errors and repair is the identity on it (C09 / C11). *)
Theorem validate_revalidate f fx d gh dg e f2 fx2 d2 gh2 dg2 e2 :
  wf_v f -> wf_v f2 ->
  validate_env f fx d gh dg = Some e -> e_vs e = VALIDATED ->
  v_content f2 = true -> v_file f2 = false ->                       (* second call: content = canonical *)
  v_profile f2 = v_profile f ->                                     (* same profile *)
  v_builtin f2 = v_builtin f -> v_loaded f2 = v_loaded f -> v_fields f2 = v_fields f ->   (* same schema (C06) *)
  v_parse_ok f2 = true ->                                           (* canonical re-parses (C01) *)
  (v_errs f = false -> v_errs f2 = false) ->                        (* C09 / C11 *)
  validate_env f2 fx2 d2 gh2 dg2 = Some e2 -> e_vs e2 = VALIDATED.
Proof.
  intros Hwf Hwf2 He Hvs Hc2 Hf2 Hp HB HL HF Hpo Herr He2.
  apply N.eqb_eq. change (vs_is VALIDATED e2 = true). rewrite (validate_validated_iff_cond f2 fx2 d2 gh2 dg2 e2 Hwf2 He2).
  apply eqb_of_eq in Hvs. change (vs_is VALIDATED e = true) in Hvs. rewrite (validate_validated_iff_cond f fx d gh dg e Hwf He) in Hvs.
  assert (Hs : v_has_schema f2 = v_has_schema f) by (unfold v_has_schema; rewrite HB, HL, HF; reflexivity).
  assert (Hl : v_lenient_profile f2 = v_lenient_profile f) by (unfold v_lenient_profile; rewrite Hp; reflexivity).
  unfold v_validated_cond in *. rewrite Hs, Hl, Hpo.
  apply andb_true_iff in Hvs as [Hvs H4]. apply andb_true_iff in Hvs as [Hvs H3]. apply andb_true_iff in Hvs as [H1 H2].
  unfold v_input_ok in *. rewrite Hc2, Hf2, Hp.
  apply andb_true_iff in H1 as [H1 _]. apply andb_true_iff in H1 as [H1 _].
  rewrite H1, H3. cbn.
  destruct (v_errs f) eqn:Ef.
  - cbn in H4. rewrite H4. apply orb_true_r.
  - rewrite (Herr eq_refl). reflexivity.
Qed.

(* the profile matters: what LENIENT calls VALIDATED (errors downgraded to warnings), STANDARD calls INVALID *)
Theorem validate_revalidate_cross_profile_refuted :
  exists f f2 e e2, wf_v f /\ wf_v f2 /\ validate_env0 f = Some e /\ validate_env0 f2 = Some e2 /\
    v_profile f = 2 /\ v_profile f2 = 1 /\ v_builtin f2 = v_builtin f /\ v_loaded f2 = v_loaded f /\ v_fields f2 = v_fields f /\
    v_errs f2 = v_errs f /\ v_parse_ok f2 = true /\ e_vs e = VALIDATED /\ e_vs e2 = INVALID.
Proof.
  exists (mk_vfacts 2 true false true true true true true false false true false true),
         (mk_vfacts 1 true false true true true true true false false true false true).
  eexists. eexists. unfold wf_v.
  split; [reflexivity|]. split; [reflexivity|]. split; [vm_compute; reflexivity|]. split; [vm_compute; reflexivity|].
  repeat split.
Qed.

(* ====================================================================================================== *)
(* octave_write : 1 105 920 valuations (3 x 2^4 x 5 x 2^2 x 3 x 2^6 x 6), one vm_compute pass *)
Definition w_has_schema (f : wfacts) : bool := w_builtin f || (w_loaded f && w_fields f).
(* the text that is parsed fails to tokenise/parse: the new content (content / normalize mode) or the existing
   file (changes mode) *)
Definition w_parse_fail (f : wfacts) : bool := if w_changes f then w_io f =? 3 else negb (w_pst f =? 0).
(* lenient + parse_error_policy="salvage": a failed parse is replaced by a salvaged carrier document (the flag local
   `salvaged` of WriteTool.execute: see write_salvaged_flag_is_fact) *)
Definition w_salvaged (f : wfacts) : bool :=
  negb (w_changes f) && w_lenient f && (w_policy f =? 1) && negb (w_pst f =? 0).
Definition w_cas_fail (f : wfacts) : bool := w_base_hash f && (w_io f =? 2).
Definition w_validated_cond (f : wfacts) : bool :=
  (w_policy f <? 2) && w_path_ok f && negb (w_content f && w_changes f) &&
  (if w_changes f
   then w_exists f && negb (w_io f =? 1) && negb (w_cas_fail f) && negb (w_io f =? 3) && negb (w_io f =? 4)
   else (w_content f || (w_exists f && negb (w_io f =? 1) && negb (w_cas_fail f)))
        && negb (w_cas_fail f && w_exists f)
        && (w_pst f =? 0))                                  (* a salvaged carrier is never schema-validated *)
  && w_emit_ok f && w_schema f && w_has_schema f && negb (w_errs f)
  && ((w_post f <? 2) || ((w_post f =? 3) && negb (w_base_hash f && w_exists f))).  (* the re-check only exists with base_hash *)

Definition wc_sound (f : wfacts) e := implb (vs_is 1 e) (w_schema f && w_has_schema f && negb (w_errs f)).
Definition wc_unval_schema (f : wfacts) e := implb (negb (w_schema f) || negb (w_has_schema f)) (vs_is 2 e).
Definition wc_unval_parse (f : wfacts) e := implb (w_parse_fail f) (vs_is 2 e).
Definition wc_salvaged (f : wfacts) e := implb (w_salvaged f) (vs_is 2 e && negb (e_name e) && negb (e_version e) && (e_verrs e =? 0)).
(* the generated assignment sites of the flag `salvaged` compute exactly the fact w_salvaged *)
Definition wc_flag (f : wfacts) (e : envl) :=
  match write_salvaged_flag f with Some b => Bool.eqb b (w_salvaged f) | None => false end.
Definition wc_invalid (f : wfacts) e :=
  implb (vs_is 3 e) ((e_verrs e =? 2) && e_name e && e_version e && w_errs f && w_schema f && w_has_schema f).
Definition wc_valid_absent (f : wfacts) e := e_valid e =? 0.
Definition wc_char (f : wfacts) e := Bool.eqb (vs_is 1 e) (w_validated_cond f).
Definition wc_named (f : wfacts) e := implb (vs_is 1 e) (e_name e && e_version e).
Definition wc_error_unval (f : wfacts) e := implb (e_status e =? 2) (vs_is 2 e).
Definition w_clauses := [@c_total wfacts; wc_sound; wc_unval_schema; wc_unval_parse; wc_invalid; wc_valid_absent; wc_char;
                         wc_named; wc_error_unval; wc_salvaged; wc_flag].
Definition write_env0 f := write_env f false false.

Lemma write_all : forall_w (all_clauses write_env0 w_clauses) = true.
Proof. vm_compute. reflexivity. Qed.
Lemma write_flags_irrelevant f a b : write_env f a b = write_env0 f.
Proof. unfold write_env0, write_env. reflexivity. Qed.
Lemma write_clause f : wf_w f -> exists e, write_env0 f = Some e /\ forall c, In c w_clauses -> c f e = true.
Proof. intro H. apply (all_clauses_spec write_env0 w_clauses f). exact (forall_w_sound _ write_all f H). Qed.
Global Opaque write_compiled write_env write_env0.
Lemma write_get f gh dg e c : wf_w f -> write_env f gh dg = Some e -> In c w_clauses -> c f e = true.
Proof.
  intros Hwf He Hin. rewrite write_flags_irrelevant in He. destruct (write_clause f Hwf) as [e' [He' Hc]].
  rewrite He in He'. inversion He'; subst e'. apply Hc. exact Hin.
Qed.

Theorem write_status_total f gh dg : wf_w f ->
  exists e, write_env f gh dg = Some e /\ (vs_is VALIDATED e || vs_is UNVALIDATED e || vs_is INVALID e = true).
Proof.
  intro Hwf. rewrite write_flags_irrelevant. destruct (write_clause f Hwf) as [e [He Hc]]. exists e. split; [exact He|].
  apply (Hc (@c_total wfacts)). cbn; tauto.
Qed.

Theorem write_validated_sound f gh dg e : wf_w f -> write_env f gh dg = Some e -> e_vs e = VALIDATED ->
  w_schema f && w_has_schema f && negb (w_errs f) = true.
Proof.
  intros Hwf He Hvs. apply (implb_elim (vs_is 1 e)); [|apply eqb_of_eq; exact Hvs].
  apply (write_get f gh dg e wc_sound Hwf He). cbn; tauto.
Qed.

Theorem write_unvalidated_on_schema_failure f gh dg e : wf_w f -> write_env f gh dg = Some e ->
  negb (w_schema f) || negb (w_has_schema f) = true -> e_vs e = UNVALIDATED.
Proof.
  intros Hwf He H. apply N.eqb_eq. apply (implb_elim _ _ (write_get f gh dg e wc_unval_schema Hwf He ltac:(cbn; tauto)) H).
Qed.

(* any tokenise/parse failure of the text octave_write parses (new content, or the existing file in changes mode)
   gives UNVALIDATED -- unconditionally since /repo f3e003d (before: not under lenient + parse_error_policy="salvage",
   finding C10-salvage-validated) *)
Theorem write_unvalidated_on_parse_failure f gh dg e : wf_w f -> write_env f gh dg = Some e ->
  w_parse_fail f = true -> e_vs e = UNVALIDATED.
Proof.
  intros Hwf He H1. apply N.eqb_eq. apply (implb_elim _ _ (write_get f gh dg e wc_unval_parse Hwf He ltac:(cbn; tauto))).
  exact H1.
Qed.
(* salvaged content: UNVALIDATED, no schema name / version, no validation_errors key *)
Theorem write_salvaged_is_unvalidated f gh dg e : wf_w f -> write_env f gh dg = Some e -> w_salvaged f = true ->
  e_vs e = UNVALIDATED /\ e_name e = false /\ e_version e = false /\ e_verrs e = 0.
Proof.
  intros Hwf He H1. pose proof (implb_elim _ _ (write_get f gh dg e wc_salvaged Hwf He ltac:(cbn; tauto)) H1) as H.
  apply andb_true_iff in H as [H H4]. apply andb_true_iff in H as [H H3]. apply andb_true_iff in H as [H H2].
  repeat split; [apply N.eqb_eq; exact H | apply negb_true_iff; exact H2 | apply negb_true_iff; exact H3 | apply N.eqb_eq; exact H4].
Qed.
(* the tie of the fact to the source: the flag local `salvaged`, evaluated from the assignment sites the translator
   extracts (status_write_flags), IS w_salvaged.  Reverting the fix removes the flag table: None <> Some _. *)
Theorem write_salvaged_flag_is_fact f : wf_w f -> write_salvaged_flag f = Some (w_salvaged f).
Proof.
  intro Hwf. destruct (write_clause f Hwf) as [e [_ Hc]]. specialize (Hc wc_flag ltac:(cbn; tauto)). unfold wc_flag in Hc.
  destruct (write_salvaged_flag f) as [b|]; [|discriminate]. apply Bool.eqb_prop in Hc. rewrite Hc. reflexivity.
Qed.
(* regression (the witness of the former finding C10-salvage-validated): content that does not tokenise, lenient=true,
   parse_error_policy="salvage", schema=META (builtin found, no errors), file written -> success, UNVALIDATED, no schema name *)
Definition salvage_witness : wfacts := mk_wfacts 1 true true false false 0 false true 1 true true true true false false 1.
Example write_salvage_regression :
  wf_w salvage_witness /\ w_parse_fail salvage_witness = true /\ w_salvaged salvage_witness = true /\
  w_schema salvage_witness = true /\ w_has_schema salvage_witness = true /\ w_errs salvage_witness = false /\
  exists e, write_env0 salvage_witness = Some e /\ e_vs e = UNVALIDATED /\ e_status e = 1 /\ e_name e = false /\ e_version e = false.
Proof.
  split; [unfold wf_w; repeat split|]. repeat (split; [reflexivity|]). eexists. split; [vm_compute; reflexivity|]. repeat split.
Qed.

Theorem write_invalid_has_errors f gh dg e : wf_w f -> write_env f gh dg = Some e -> e_vs e = INVALID ->
  (e_verrs e =? 2) && e_name e && e_version e && w_errs f && w_schema f && w_has_schema f = true.
Proof.
  intros Hwf He Hvs. apply (implb_elim (vs_is 3 e)); [|apply eqb_of_eq; exact Hvs].
  apply (write_get f gh dg e wc_invalid Hwf He). cbn; tauto.
Qed.

(* octave_write never carries a `valid` key (so "valid is true exactly when VALIDATED" is about octave_validate) *)
Theorem write_valid_absent f gh dg e : wf_w f -> write_env f gh dg = Some e -> e_valid e = 0.
Proof. intros Hwf He. apply N.eqb_eq. apply (write_get f gh dg e wc_valid_absent Hwf He). cbn; tauto. Qed.

Theorem write_validated_iff_cond f gh dg e : wf_w f -> write_env f gh dg = Some e -> vs_is VALIDATED e = w_validated_cond f.
Proof. intros Hwf He. apply Bool.eqb_prop. apply (write_get f gh dg e wc_char Hwf He). cbn; tauto. Qed.

Theorem write_validated_names_schema f gh dg e : wf_w f -> write_env f gh dg = Some e -> e_vs e = VALIDATED ->
  e_name e && e_version e = true.
Proof.
  intros Hwf He Hvs. apply (implb_elim (vs_is 1 e)); [|apply eqb_of_eq; exact Hvs].
  apply (write_get f gh dg e wc_named Hwf He). cbn; tauto.
Qed.

Theorem write_error_is_unvalidated f gh dg e : wf_w f -> write_env f gh dg = Some e -> e_status e = 2 -> e_vs e = UNVALIDATED.
Proof.
  intros Hwf He Hs. apply N.eqb_eq. apply (implb_elim _ _ (write_get f gh dg e wc_error_unval Hwf He ltac:(cbn; tauto))).
  apply eqb_of_eq. exact Hs.
Qed.

(* re-validation by octave_write itself: normalize mode on the file just written (no content, no changes), same
   schema argument.  Hypotheses: the written canonical text parses (strictly and leniently: C01/C03); same schema
   facts (C06; the hermetic frozen@/latest references resolve the same way in the same tool); no validation error
   in the re-read document when there was none at the decision point of the first call (C09/C11). *)
Theorem write_revalidate f gh dg e f2 gh2 dg2 e2 :
  wf_w f -> wf_w f2 -> write_env f gh dg = Some e -> e_vs e = VALIDATED ->
  w_content f2 = false -> w_changes f2 = false -> w_exists f2 = true -> w_path_ok f2 = true ->
  w_policy f2 < 2 -> w_io f2 = 0 -> w_post f2 < 2 -> w_emit_ok f2 = true ->
  w_pst f2 = 0 ->                                                             (* C01 *)
  w_schema f2 = w_schema f -> w_builtin f2 = w_builtin f -> w_loaded f2 = w_loaded f -> w_fields f2 = w_fields f ->
  (w_errs f = false -> w_errs f2 = false) ->                                  (* C09 / C11 *)
  write_env f2 gh2 dg2 = Some e2 -> e_vs e2 = VALIDATED.
Proof.
  intros Hwf Hwf2 He Hvs Hc Hch Hex Hpa Hpol Hio Hpost Hem Hpst HS HB HL HF Herr He2.
  pose proof (write_validated_sound f gh dg e Hwf He Hvs) as Hs.
  apply andb_true_iff in Hs as [Hs H3]. apply andb_true_iff in Hs as [H1 H2].
  apply negb_true_iff in H3.
  apply N.eqb_eq. change (vs_is VALIDATED e2 = true). rewrite (write_validated_iff_cond f2 gh2 dg2 e2 Hwf2 He2).
  assert (Hhs : w_has_schema f2 = w_has_schema f) by (unfold w_has_schema; rewrite HB, HL, HF; reflexivity).
  unfold w_validated_cond, w_cas_fail. rewrite Hhs, HS, H1, H2, (Herr H3), Hc, Hch, Hex, Hpa, Hio, Hem, Hpst.
  apply N.ltb_lt in Hpol. apply N.ltb_lt in Hpost. rewrite Hpol, Hpost. cbn.
  destruct (w_base_hash f2), (w_lenient f2); reflexivity.
Qed.

(* re-validation by octave_validate of what octave_write wrote (same, non-hermetic schema name; any profile) *)
Theorem write_then_validate f gh dg e f2 fx2 d2 gh2 dg2 e2 :
  wf_w f -> wf_v f2 -> write_env f gh dg = Some e -> e_vs e = VALIDATED ->
  v_input_ok f2 = true -> v_parse_ok f2 = true ->
  v_builtin f2 = w_builtin f -> v_loaded f2 = w_loaded f -> v_fields f2 = w_fields f ->
  (w_errs f = false -> v_errs f2 = false) ->
  validate_env f2 fx2 d2 gh2 dg2 = Some e2 -> e_vs e2 = VALIDATED.
Proof.
  intros Hwf Hwf2 He Hvs Hin Hpo HB HL HF Herr He2.
  pose proof (write_validated_sound f gh dg e Hwf He Hvs) as Hs.
  apply andb_true_iff in Hs as [Hs H3]. apply andb_true_iff in Hs as [H1 H2]. apply negb_true_iff in H3.
  apply N.eqb_eq. change (vs_is VALIDATED e2 = true). rewrite (validate_validated_iff_cond f2 fx2 d2 gh2 dg2 e2 Hwf2 He2).
  unfold v_validated_cond. rewrite Hin, Hpo, (Herr H3).
  unfold v_has_schema. rewrite HB, HL, HF. unfold w_has_schema in H2. rewrite H2. reflexivity.
Qed.

(* ====================================================================================================== *)
(* octave_eject (20 valuations) and octave_compile_grammar (1536 valuations): always UNVALIDATED, no `valid` *)
Definition c_always_unval {F} (_ : F) (e : envl) : bool := vs_is 2 e && (e_valid e =? 0) && (e_verrs e =? 0).
Lemma eject_all : forall_j (all_clauses eject_env [@c_always_unval efacts]) = true.
Proof. vm_compute. reflexivity. Qed.
Theorem eject_always_unvalidated f : wf_j f -> exists e, eject_env f = Some e /\ e_vs e = UNVALIDATED /\ e_valid e = 0.
Proof.
  intro Hwf. destruct (all_clauses_spec eject_env _ f (forall_j_sound _ eject_all f Hwf)) as [e [He Hc]].
  exists e. split; [exact He|]. specialize (Hc (@c_always_unval efacts) ltac:(cbn; tauto)). unfold c_always_unval, vs_is in Hc.
  apply andb_true_iff in Hc as [Hc _]. apply andb_true_iff in Hc as [H1 H2]. split; apply N.eqb_eq; assumption.
Qed.
Lemma grammar_all : forall_g (all_clauses grammar_env [@c_always_unval gfacts]) = true.
Proof. vm_compute. reflexivity. Qed.
Theorem grammar_always_unvalidated f : wf_g f -> exists e, grammar_env f = Some e /\ e_vs e = UNVALIDATED /\ e_valid e = 0.
Proof.
  intro Hwf. destruct (all_clauses_spec grammar_env _ f (forall_g_sound _ grammar_all f Hwf)) as [e [He Hc]].
  exists e. split; [exact He|]. specialize (Hc (@c_always_unval gfacts) ltac:(cbn; tauto)). unfold c_always_unval, vs_is in Hc.
  apply andb_true_iff in Hc as [Hc _]. apply andb_true_iff in Hc as [H1 H2]. split; apply N.eqb_eq; assumption.
Qed.

(* ====================================================================================================== *)
(* `octave validate` (6144 valuations) and `octave write` (1152 valuations) *)
Definition cv_final_errs (f : cvfacts) : bool := if cv_fix f && cv_errs_before f then cv_errs_after f else cv_errs_before f.
Definition cvc_line (f : cvfacts) (e : envl) := e_echo e <? 4.
Definition cvc_noline (f : cvfacts) (e : envl) := implb (e_echo e =? 0) (e_exit e =? 1).
Definition cvc_invalid_exit (f : cvfacts) (e : envl) := implb (e_echo e =? 3) (e_exit e =? 1).
Definition cvc_exc (f : cvfacts) (e : envl) := implb (cv_exc f) ((e_echo e =? 0) && (e_exit e =? 1)).
Definition cvc_sound_partial (f : cvfacts) (e : envl) :=
  implb ((e_echo e =? 1) && negb (cv_errs_noschema f)) (cv_schema f && cv_builtin f && negb (cv_final_errs f)).
Definition cvc_invalid_errs (f : cvfacts) (e : envl) := implb (e_echo e =? 3) (cv_schema f && cv_builtin f && cv_final_errs f).
Definition cv_clauses := [cvc_line; cvc_noline; cvc_invalid_exit; cvc_exc; cvc_sound_partial; cvc_invalid_errs].
Lemma cli_validate_all : forall_cv (all_clauses cli_validate_env cv_clauses) = true.
Proof. vm_compute. reflexivity. Qed.
Lemma cli_validate_get f c : wf_cv f -> In c cv_clauses -> exists e, cli_validate_env f = Some e /\ c f e = true.
Proof.
  intros Hwf Hin. destruct (all_clauses_spec cli_validate_env _ f (forall_cv_sound _ cli_validate_all f Hwf)) as [e [He Hc]].
  exists e. split; [exact He|]. apply Hc. exact Hin.
Qed.
(* the status line is missing only when the command fails; INVALID exits 1; any exception: no line, exit 1 *)
Theorem cli_validate_line_and_exit f : wf_cv f -> exists e, cli_validate_env f = Some e /\
  cvc_line f e && cvc_noline f e && cvc_invalid_exit f e && cvc_exc f e && cvc_invalid_errs f e = true.
Proof.
  intro Hwf. destruct (all_clauses_spec cli_validate_env _ f (forall_cv_sound _ cli_validate_all f Hwf)) as [e [He Hc]].
  exists e. split; [exact He|].
  rewrite (Hc cvc_line), (Hc cvc_noline), (Hc cvc_invalid_exit), (Hc cvc_exc), (Hc cvc_invalid_errs); cbn; tauto.
Qed.
(* PARTIAL: the VALIDATED line is sound provided the schema-less validator reports nothing (it cannot: every
   error source of Validator.validate is guarded by a schema; measured on every case by the harness) *)
Theorem cli_validate_validated_sound_partial f : wf_cv f -> cv_errs_noschema f = false ->
  exists e, cli_validate_env f = Some e /\ (e_echo e = VALIDATED -> cv_schema f && cv_builtin f && negb (cv_final_errs f) = true).
Proof.
  intros Hwf Hn. destruct (cli_validate_get f cvc_sound_partial Hwf ltac:(cbn; tauto)) as [e [He Hc]].
  exists e. split; [exact He|]. intro Hv. apply (implb_elim _ _ Hc). rewrite Hn, Hv. reflexivity.
Qed.
Definition cli_validate_validated_sound_full : Prop :=
  forall f e, wf_cv f -> cli_validate_env f = Some e -> e_echo e = VALIDATED -> cv_schema f && cv_builtin f = true.
(* latent path: --fix with an unknown schema name would print VALIDATED if the schema-less validator ever
   reported an error that repair removes (`if not validation_errors: validation_status = "VALIDATED"`) *)
Theorem cli_validate_validated_sound_refuted :
  exists f e, wf_cv f /\ cli_validate_env f = Some e /\ e_echo e = VALIDATED /\ e_exit e = 0 /\ cv_builtin f = false.
Proof.
  exists (mk_cvfacts true false false false false true false false true true false 0). eexists.
  split; [unfold wf_cv; reflexivity|]. split; [vm_compute; reflexivity|]. repeat split.
Qed.

Definition cwc_line (f : cwfacts) (e : envl) := e_echo e <? 4.
Definition cwc_noline (f : cwfacts) (e : envl) := Bool.eqb (e_echo e =? 0) (e_exit e =? 1) && (e_exit e <? 2).
Definition cwc_sound (f : cwfacts) (e : envl) := implb (e_echo e =? 1) (cw_schema f && cw_builtin f && negb (cw_errs f)).
Definition cwc_invalid (f : cwfacts) (e : envl) := implb (e_echo e =? 3) (cw_schema f && cw_builtin f && cw_errs f).
Definition cwc_exc (f : cwfacts) (e : envl) := implb (negb (cw_exc f =? 0)) ((e_echo e =? 0) && (e_exit e =? 1)).
Definition cw_clauses := [cwc_line; cwc_noline; cwc_sound; cwc_invalid; cwc_exc].
Lemma cli_write_all : forall_cw (all_clauses cli_write_env cw_clauses) = true.
Proof. vm_compute. reflexivity. Qed.
(* the status line is printed exactly when the command exits 0; VALIDATED only for a found builtin schema without
   errors; INVALID only with errors (note: `octave write` exits 0 on INVALID, the file is written) *)
Theorem cli_write_line_and_exit f : wf_cw f -> exists e, cli_write_env f = Some e /\
  cwc_line f e && cwc_noline f e && cwc_sound f e && cwc_invalid f e && cwc_exc f e = true.
Proof.
  intro Hwf. destruct (all_clauses_spec cli_write_env _ f (forall_cw_sound _ cli_write_all f Hwf)) as [e [He Hc]].
  exists e. split; [exact He|].
  rewrite (Hc cwc_line), (Hc cwc_noline), (Hc cwc_sound), (Hc cwc_invalid), (Hc cwc_exc); cbn; tauto.
Qed.
