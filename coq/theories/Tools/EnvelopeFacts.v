(* C10 -- theorems about the table-driven envelope functions of Tools/Envelope.v.
   Every theorem is over the WHOLE finite fact space of the tool (size in the comment above each enumerator),
   decided by vm_compute on nested forallb and lifted to a universally quantified statement.
   Because validate_env etc. are the interpreter applied to Gen/StatusGen.v, these proofs are re-checked against
   the current source on every run: a moved assignment, a dropped downgrade or a changed guard changes the table
   and either breaks compilation of the table (unknown atom -> None) or one of the vm_compute checks below. *)
From OV Require Import Base.Strs Tools.EnvelopeSyntax Gen.StatusGen Tools.Envelope.
Open Scope N_scope.

Definition bools := [true; false].
Definition upto (k : nat) : list N := map N.of_nat (seq 0 k).
Lemma all_bools (g : bool -> bool) : forallb g bools = true -> forall b, g b = true.
Proof. cbn. intros H b. apply andb_true_iff in H as [H1 H2]. apply andb_true_iff in H2 as [H2 _]. destruct b; assumption. Qed.
Lemma all_upto (g : N -> bool) (k : nat) : forallb g (upto k) = true -> forall n, n < N.of_nat k -> g n = true.
Proof.
  intros H n Hn. rewrite forallb_forall in H. apply H. unfold upto. apply in_map_iff.
  exists (N.to_nat n). split; [apply N2Nat.id|]. apply in_seq. lia.
Qed.

(* vfacts: 20480 valuations *)
Definition forall_v (P : vfacts -> bool) : bool :=
  forallb (fun x0 => forallb (fun x1 => forallb (fun x2 => forallb (fun x3 => forallb (fun x4 => forallb (fun x5 => forallb (fun x6 => forallb (fun x7 => forallb (fun x8 => forallb (fun x9 => forallb (fun x10 => forallb (fun x11 => forallb (fun x12 => P (mk_vfacts x0 x1 x2 x3 x4 x5 x6 x7 x8 x9 x10 x11 x12)) bools) bools) bools) bools) bools) bools) bools) bools) bools) bools) bools) bools) (upto 5).
Definition wf_v (f : vfacts) : Prop := v_profile f < 5.
Lemma forall_v_sound P : forall_v P = true -> forall f, wf_v f -> P f = true.
Proof.
  unfold forall_v, wf_v; intros H [x0 x1 x2 x3 x4 x5 x6 x7 x8 x9 x10 x11 x12] Hwf.
  apply (all_upto _ 5) with (n := x0) in H; [cbv beta in H | tauto].
  apply all_bools with (b := x1) in H; cbv beta in H.
  apply all_bools with (b := x2) in H; cbv beta in H.
  apply all_bools with (b := x3) in H; cbv beta in H.
  apply all_bools with (b := x4) in H; cbv beta in H.
  apply all_bools with (b := x5) in H; cbv beta in H.
  apply all_bools with (b := x6) in H; cbv beta in H.
  apply all_bools with (b := x7) in H; cbv beta in H.
  apply all_bools with (b := x8) in H; cbv beta in H.
  apply all_bools with (b := x9) in H; cbv beta in H.
  apply all_bools with (b := x10) in H; cbv beta in H.
  apply all_bools with (b := x11) in H; cbv beta in H.
  apply all_bools with (b := x12) in H; cbv beta in H.
  exact H.
Qed.

(* wfacts: 1105920 valuations *)
Definition forall_w (P : wfacts -> bool) : bool :=
  forallb (fun x0 => forallb (fun x1 => forallb (fun x2 => forallb (fun x3 => forallb (fun x4 => forallb (fun x5 => forallb (fun x6 => forallb (fun x7 => forallb (fun x8 => forallb (fun x9 => forallb (fun x10 => forallb (fun x11 => forallb (fun x12 => forallb (fun x13 => forallb (fun x14 => forallb (fun x15 => P (mk_wfacts x0 x1 x2 x3 x4 x5 x6 x7 x8 x9 x10 x11 x12 x13 x14 x15)) (upto 6)) bools) bools) bools) bools) bools) bools) (upto 3)) bools) bools) (upto 5)) bools) bools) bools) bools) (upto 3).
Definition wf_w (f : wfacts) : Prop := w_policy f < 3 /\ w_io f < 5 /\ w_pst f < 3 /\ w_post f < 6.
Lemma forall_w_sound P : forall_w P = true -> forall f, wf_w f -> P f = true.
Proof.
  unfold forall_w, wf_w; intros H [x0 x1 x2 x3 x4 x5 x6 x7 x8 x9 x10 x11 x12 x13 x14 x15] Hwf.
  apply (all_upto _ 3) with (n := x0) in H; [cbv beta in H | tauto].
  apply all_bools with (b := x1) in H; cbv beta in H.
  apply all_bools with (b := x2) in H; cbv beta in H.
  apply all_bools with (b := x3) in H; cbv beta in H.
  apply all_bools with (b := x4) in H; cbv beta in H.
  apply (all_upto _ 5) with (n := x5) in H; [cbv beta in H | tauto].
  apply all_bools with (b := x6) in H; cbv beta in H.
  apply all_bools with (b := x7) in H; cbv beta in H.
  apply (all_upto _ 3) with (n := x8) in H; [cbv beta in H | tauto].
  apply all_bools with (b := x9) in H; cbv beta in H.
  apply all_bools with (b := x10) in H; cbv beta in H.
  apply all_bools with (b := x11) in H; cbv beta in H.
  apply all_bools with (b := x12) in H; cbv beta in H.
  apply all_bools with (b := x13) in H; cbv beta in H.
  apply all_bools with (b := x14) in H; cbv beta in H.
  apply (all_upto _ 6) with (n := x15) in H; [cbv beta in H | tauto].
  exact H.
Qed.

(* efacts: 20 valuations *)
Definition forall_j (P : efacts -> bool) : bool :=
  forallb (fun x0 => forallb (fun x1 => forallb (fun x2 => P (mk_efacts x0 x1 x2)) (upto 5)) bools) bools.
Definition wf_j (f : efacts) : Prop := j_format f < 5.
Lemma forall_j_sound P : forall_j P = true -> forall f, wf_j f -> P f = true.
Proof.
  unfold forall_j, wf_j; intros H [x0 x1 x2] Hwf.
  apply all_bools with (b := x0) in H; cbv beta in H.
  apply all_bools with (b := x1) in H; cbv beta in H.
  apply (all_upto _ 5) with (n := x2) in H; [cbv beta in H | tauto].
  exact H.
Qed.

(* gfacts: 1536 valuations *)
Definition forall_g (P : gfacts -> bool) : bool :=
  forallb (fun x0 => forallb (fun x1 => forallb (fun x2 => forallb (fun x3 => forallb (fun x4 => forallb (fun x5 => forallb (fun x6 => forallb (fun x7 => forallb (fun x8 => forallb (fun x9 => P (mk_gfacts x0 x1 x2 x3 x4 x5 x6 x7 x8 x9)) bools) bools) bools) bools) bools) bools) bools) bools) bools) (upto 3).
Definition wf_g (f : gfacts) : Prop := g_format f < 3.
Lemma forall_g_sound P : forall_g P = true -> forall f, wf_g f -> P f = true.
Proof.
  unfold forall_g, wf_g; intros H [x0 x1 x2 x3 x4 x5 x6 x7 x8 x9] Hwf.
  apply (all_upto _ 3) with (n := x0) in H; [cbv beta in H | tauto].
  apply all_bools with (b := x1) in H; cbv beta in H.
  apply all_bools with (b := x2) in H; cbv beta in H.
  apply all_bools with (b := x3) in H; cbv beta in H.
  apply all_bools with (b := x4) in H; cbv beta in H.
  apply all_bools with (b := x5) in H; cbv beta in H.
  apply all_bools with (b := x6) in H; cbv beta in H.
  apply all_bools with (b := x7) in H; cbv beta in H.
  apply all_bools with (b := x8) in H; cbv beta in H.
  apply all_bools with (b := x9) in H; cbv beta in H.
  exact H.
Qed.

(* cvfacts: 6144 valuations *)
Definition forall_cv (P : cvfacts -> bool) : bool :=
  forallb (fun x0 => forallb (fun x1 => forallb (fun x2 => forallb (fun x3 => forallb (fun x4 => forallb (fun x5 => forallb (fun x6 => forallb (fun x7 => forallb (fun x8 => forallb (fun x9 => forallb (fun x10 => forallb (fun x11 => P (mk_cvfacts x0 x1 x2 x3 x4 x5 x6 x7 x8 x9 x10 x11)) (upto 3)) bools) bools) bools) bools) bools) bools) bools) bools) bools) bools) bools.
Definition wf_cv (f : cvfacts) : Prop := cv_seal f < 3.
Lemma forall_cv_sound P : forall_cv P = true -> forall f, wf_cv f -> P f = true.
Proof.
  unfold forall_cv, wf_cv; intros H [x0 x1 x2 x3 x4 x5 x6 x7 x8 x9 x10 x11] Hwf.
  apply all_bools with (b := x0) in H; cbv beta in H.
  apply all_bools with (b := x1) in H; cbv beta in H.
  apply all_bools with (b := x2) in H; cbv beta in H.
  apply all_bools with (b := x3) in H; cbv beta in H.
  apply all_bools with (b := x4) in H; cbv beta in H.
  apply all_bools with (b := x5) in H; cbv beta in H.
  apply all_bools with (b := x6) in H; cbv beta in H.
  apply all_bools with (b := x7) in H; cbv beta in H.
  apply all_bools with (b := x8) in H; cbv beta in H.
  apply all_bools with (b := x9) in H; cbv beta in H.
  apply all_bools with (b := x10) in H; cbv beta in H.
  apply (all_upto _ 3) with (n := x11) in H; [cbv beta in H | tauto].
  exact H.
Qed.

(* cwfacts: 1152 valuations *)
Definition forall_cw (P : cwfacts -> bool) : bool :=
  forallb (fun x0 => forallb (fun x1 => forallb (fun x2 => forallb (fun x3 => forallb (fun x4 => forallb (fun x5 => forallb (fun x6 => forallb (fun x7 => forallb (fun x8 => P (mk_cwfacts x0 x1 x2 x3 x4 x5 x6 x7 x8)) bools) bools) bools) bools) (upto 3)) bools) bools) bools) (upto 3).
Definition wf_cw (f : cwfacts) : Prop := cw_sources f < 3 /\ cw_exc f < 3.
Lemma forall_cw_sound P : forall_cw P = true -> forall f, wf_cw f -> P f = true.
Proof.
  unfold forall_cw, wf_cw; intros H [x0 x1 x2 x3 x4 x5 x6 x7 x8] Hwf.
  apply (all_upto _ 3) with (n := x0) in H; [cbv beta in H | tauto].
  apply all_bools with (b := x1) in H; cbv beta in H.
  apply all_bools with (b := x2) in H; cbv beta in H.
  apply all_bools with (b := x3) in H; cbv beta in H.
  apply (all_upto _ 3) with (n := x4) in H; [cbv beta in H | tauto].
  apply all_bools with (b := x5) in H; cbv beta in H.
  apply all_bools with (b := x6) in H; cbv beta in H.
  apply all_bools with (b := x7) in H; cbv beta in H.
  apply all_bools with (b := x8) in H; cbv beta in H.
  exact H.
Qed.
(* ------------------------------------------------------------------------------------------------------ *)
(* one enumeration pass per tool: a list of boolean clauses checked on every valuation *)
Definition all_clauses {F} (env : F -> option envl) (cs : list (F -> envl -> bool)) (f : F) : bool :=
  match env f with Some e => forallb (fun c => c f e) cs | None => false end.
Lemma all_clauses_spec {F} (env : F -> option envl) cs f :
  all_clauses env cs f = true -> exists e, env f = Some e /\ forall c, In c cs -> c f e = true.
Proof.
  unfold all_clauses. destruct (env f) as [e|]; [|discriminate]. intro H. exists e. split; [reflexivity|].
  rewrite forallb_forall in H. exact H.
Qed.

Lemma implb_elim a b : implb a b = true -> a = true -> b = true.
Proof. destruct a, b; cbn; congruence. Qed.
Lemma eqb_of_eq a b : a = b -> (a =? b) = true.
Proof. intros ->. apply N.eqb_refl. Qed.

Definition vs_is (n : N) (e : envl) : bool := e_vs e =? n.
Definition c_total {F} (_ : F) (e : envl) : bool := vs_is 1 e || vs_is 2 e || vs_is 3 e.

(* ====================================================================================================== *)
(* octave_validate *)
Definition v_has_schema (f : vfacts) : bool := v_builtin f || (v_loaded f && v_fields f).
Definition v_lenient_profile (f : vfacts) : bool := (v_profile f =? 2) || (v_profile f =? 3).
Definition v_input_ok (f : vfacts) : bool :=
  (v_profile f <? 4) && xorb (v_content f) (v_file f) && (negb (v_file f) || (v_path_ok f && v_exists f && v_read_ok f)).
(* exactly the condition under which octave_validate answers VALIDATED *)
Definition v_validated_cond (f : vfacts) : bool :=
  v_input_ok f && v_parse_ok f && v_has_schema f && (negb (v_errs f) || v_lenient_profile f).

Definition vc_sound (f : vfacts) e := implb (vs_is 1 e) (v_parse_ok f && v_has_schema f && (negb (v_errs f) || v_lenient_profile f)).
Definition vc_unval (f : vfacts) e := implb (negb (v_parse_ok f) || negb (v_has_schema f)) (vs_is 2 e).
Definition vc_invalid (f : vfacts) e :=
  implb (vs_is 3 e) (((v_profile f =? 0) || (v_profile f =? 1)) && ((e_verrs e =? 2) || (e_vcount e =? 2))
                     && e_name e && e_version e && v_errs f).
Definition vc_valid (f : vfacts) e := negb (e_valid e =? 0) && Bool.eqb (e_valid e =? 1) (vs_is 1 e) && ((e_valid e =? 1) || (e_valid e =? 2)).
Definition vc_char (f : vfacts) e := Bool.eqb (vs_is 1 e) (v_validated_cond f).
Definition vc_named (f : vfacts) e := implb (vs_is 1 e) (e_name e && e_version e).
Definition vc_compact (f : vfacts) e := implb (negb (v_compact f)) (e_vcount e =? 0).
Definition v_clauses := [@c_total vfacts; vc_sound; vc_unval; vc_invalid; vc_valid; vc_char; vc_named; vc_compact].
Definition validate_env0 f := validate_env f false false false false.

Lemma validate_all : forall_v (all_clauses validate_env0 v_clauses) = true.
Proof. vm_compute. reflexivity. Qed.

Lemma validate_flags_irrelevant f a b c d : validate_env f a b c d = validate_env0 f.
Proof. unfold validate_env0, validate_env. reflexivity. Qed.

Lemma validate_clause f : wf_v f -> exists e, validate_env0 f = Some e /\ forall c, In c v_clauses -> c f e = true.
Proof. intro H. apply (all_clauses_spec validate_env0 v_clauses f). exact (forall_v_sound _ validate_all f H). Qed.
(* tactics must never try to evaluate the compiled table (vm_compute still does) *)
Global Opaque validate_compiled validate_env validate_env0.

(* obtain clause c for the envelope e of valuation f *)
Lemma validate_get f fx d gh dg e c : wf_v f -> validate_env f fx d gh dg = Some e -> In c v_clauses -> c f e = true.
Proof.
  intros Hwf He Hin. rewrite validate_flags_irrelevant in He. destruct (validate_clause f Hwf) as [e' [He' Hc]].
  rewrite He in He'. inversion He'; subst e'. apply Hc. exact Hin.
Qed.

(* 5 x 2^12 = 20480 valuations; fix / diff_only / grammar_hint / debug_grammar have no atom in the table *)
Theorem validate_status_total f fx d gh dg : wf_v f ->
  exists e, validate_env f fx d gh dg = Some e /\ (vs_is VALIDATED e || vs_is UNVALIDATED e || vs_is INVALID e = true).
Proof.
  intro Hwf. rewrite validate_flags_irrelevant. destruct (validate_clause f Hwf) as [e [He Hc]]. exists e. split; [exact He|].
  apply (Hc (@c_total vfacts)). cbn; tauto.
Qed.

(* VALIDATED -> the document parsed, a schema was found, and there is no blocking error *)
Theorem validate_validated_sound f fx d gh dg e : wf_v f -> validate_env f fx d gh dg = Some e -> e_vs e = VALIDATED ->
  v_parse_ok f && v_has_schema f && (negb (v_errs f) || v_lenient_profile f) = true.
Proof.
  intros Hwf He Hvs. apply (implb_elim (vs_is 1 e)); [|apply eqb_of_eq; exact Hvs].
  apply (validate_get f fx d gh dg e vc_sound Hwf He). cbn; tauto.
Qed.

(* parse failure, or no usable schema (unknown / malformed / unloadable name: not builtin, and not loaded or without fields) -> UNVALIDATED *)
Theorem validate_unvalidated_on_failure f fx d gh dg e : wf_v f -> validate_env f fx d gh dg = Some e ->
  negb (v_parse_ok f) || negb (v_has_schema f) = true -> e_vs e = UNVALIDATED.
Proof.
  intros Hwf He H. apply N.eqb_eq. apply (implb_elim _ _ (validate_get f fx d gh dg e vc_unval Hwf He ltac:(cbn; tauto)) H).
Qed.

(* INVALID -> STRICT/STANDARD, >= 1 reported validation error (list, or count when compact), schema name and version *)
Theorem validate_invalid_has_errors f fx d gh dg e : wf_v f -> validate_env f fx d gh dg = Some e -> e_vs e = INVALID ->
  ((v_profile f =? 0) || (v_profile f =? 1)) && ((e_verrs e =? 2) || (e_vcount e =? 2)) && e_name e && e_version e && v_errs f = true.
Proof.
  intros Hwf He Hvs. apply (implb_elim (vs_is 3 e)); [|apply eqb_of_eq; exact Hvs].
  apply (validate_get f fx d gh dg e vc_invalid Hwf He). cbn; tauto.
Qed.

(* valid is always present, a boolean, and true exactly when VALIDATED *)
Theorem validate_valid_iff_validated f fx d gh dg e : wf_v f -> validate_env f fx d gh dg = Some e ->
  negb (e_valid e =? 0) && Bool.eqb (e_valid e =? 1) (vs_is VALIDATED e) && ((e_valid e =? 1) || (e_valid e =? 2)) = true.
Proof. intros Hwf He. apply (validate_get f fx d gh dg e vc_valid Hwf He). cbn; tauto. Qed.

Theorem validate_validated_iff_cond f fx d gh dg e : wf_v f -> validate_env f fx d gh dg = Some e ->
  vs_is VALIDATED e = v_validated_cond f.
Proof. intros Hwf He. apply Bool.eqb_prop. apply (validate_get f fx d gh dg e vc_char Hwf He). cbn; tauto. Qed.

Theorem validate_validated_names_schema f fx d gh dg e : wf_v f -> validate_env f fx d gh dg = Some e -> e_vs e = VALIDATED ->
  e_name e && e_version e = true.
Proof.
  intros Hwf He Hvs. apply (implb_elim (vs_is 1 e)); [|apply eqb_of_eq; exact Hvs].
  apply (validate_get f fx d gh dg e vc_named Hwf He). cbn; tauto.
Qed.

(* re-validation: the second call is on the returned canonical text as `content`, same schema argument, same
   profile.  Explicit hypotheses (proved elsewhere, NOT here): the canonical text parses again (C01); the loader
   is deterministic (same name -> same builtin/loaded/fields, C06); a document without validation errors has a
   canonical form without validation errors and repair is the identity on it (C09 / C11). *)
Theorem validate_revalidate f fx d gh dg e f2 fx2 d2 gh2 dg2 e2 :
  wf_v f -> wf_v f2 ->
  validate_env f fx d gh dg = Some e -> e_vs e = VALIDATED ->
  v_content f2 = true -> v_file f2 = false ->                       (* second call: content = canonical *)
  v_profile f2 = v_profile f ->                                     (* same profile *)
  v_builtin f2 = v_builtin f -> v_loaded f2 = v_loaded f -> v_fields f2 = v_fields f ->   (* same schema (C06) *)
  v_parse_ok f2 = true ->                                           (* canonical re-parses (C01) *)
  (v_errs f = false -> v_errs f2 = false) ->                        (* C09 / C11 *)
  validate_env f2 fx2 d2 gh2 dg2 = Some e2 -> e_vs e2 = VALIDATED.
Proof.
  intros Hwf Hwf2 He Hvs Hc2 Hf2 Hp HB HL HF Hpo Herr He2.
  apply N.eqb_eq. change (vs_is VALIDATED e2 = true). rewrite (validate_validated_iff_cond f2 fx2 d2 gh2 dg2 e2 Hwf2 He2).
  apply eqb_of_eq in Hvs. change (vs_is VALIDATED e = true) in Hvs. rewrite (validate_validated_iff_cond f fx d gh dg e Hwf He) in Hvs.
  assert (Hs : v_has_schema f2 = v_has_schema f) by (unfold v_has_schema; rewrite HB, HL, HF; reflexivity).
  assert (Hl : v_lenient_profile f2 = v_lenient_profile f) by (unfold v_lenient_profile; rewrite Hp; reflexivity).
  unfold v_validated_cond in *. rewrite Hs, Hl, Hpo.
  apply andb_true_iff in Hvs as [Hvs H4]. apply andb_true_iff in Hvs as [Hvs H3]. apply andb_true_iff in Hvs as [H1 H2].
  unfold v_input_ok in *. rewrite Hc2, Hf2, Hp.
  apply andb_true_iff in H1 as [H1 _]. apply andb_true_iff in H1 as [H1 _].
  rewrite H1, H3. cbn.
  destruct (v_errs f) eqn:Ef.
  - cbn in H4. rewrite H4. apply orb_true_r.
  - rewrite (Herr eq_refl). reflexivity.
Qed.

(* the profile matters: what LENIENT calls VALIDATED (errors downgraded to warnings), STANDARD calls INVALID *)
Theorem validate_revalidate_cross_profile_refuted :
  exists f f2 e e2, wf_v f /\ wf_v f2 /\ validate_env0 f = Some e /\ validate_env0 f2 = Some e2 /\
    v_profile f = 2 /\ v_profile f2 = 1 /\ v_builtin f2 = v_builtin f /\ v_loaded f2 = v_loaded f /\ v_fields f2 = v_fields f /\
    v_errs f2 = v_errs f /\ v_parse_ok f2 = true /\ e_vs e = VALIDATED /\ e_vs e2 = INVALID.
Proof.
  exists (mk_vfacts 2 true false true true true true true false false true false true),
         (mk_vfacts 1 true false true true true true true false false true false true).
  eexists. eexists. unfold wf_v.
  split; [reflexivity|]. split; [reflexivity|]. split; [vm_compute; reflexivity|]. split; [vm_compute; reflexivity|].
  repeat split.
Qed.
