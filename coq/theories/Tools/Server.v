(* C06 -- the MCP server as a state machine over exactly the process state the inventory lists.

   What a running octave-mcp process keeps between two tool calls (Gen/ModStateGen.v, pinned below):
     - the four tool objects held by create_server()'s closure (all_tools / tools / server): their instance
       fields are ms_tool_fields, the writes to them outside __init__ are ms_tool_attr_writes;
     - the Absent._instance cell (the only run-time mutation site of module/class state, ModuleState.v section 1);
     - sys.modules: imports executed inside functions (ms_lazy_imports), write-once per module;
     - nothing else: no module-level container is mutated at run time (no_mutable_module_state).
   The response of a call is an ABSTRACT function (Section variable `handler`) of the call -- its arguments and the
   texts they name, i.e. the named schema's text and the file at file_path -- and of what the code can observe of
   the state: the values of the tool fields and the identity profile of the Absent tokens it obtains.
   `step` really updates every component; history independence is proved from the pins, not assumed. *)
From OV Require Import Base.Strs Gen.ModStateGen Tools.ModuleState.
From Coq Require Import Sorting.Permutation.
Require Coq.Strings.String.
Import Coq.Strings.String.StringSyntax.
Open Scope N_scope.

(* ---- pins: the field list the record below was written against ------------------------------------------------ *)
Lemma pin_tool_fields : ms_tool_fields = [].
Proof. vm_compute. reflexivity. Qed.
Lemma pin_tool_attr_writes : ms_tool_attr_writes = [].
Proof. vm_compute. reflexivity. Qed.
Lemma pin_server_closure : ms_server_closure = [lit "all_tools"; lit "server"; lit "tools"].
Proof. vm_compute. reflexivity. Qed.
Lemma pin_server_closure_writes : ms_server_closure_writes = [].
Proof. vm_compute. reflexivity. Qed.
(* no scheduling point inside any tool method: an `async def execute` without await runs to completion once
   started, so concurrently scheduled asyncio calls are executed one after the other in SOME order *)
Lemma pin_tool_awaits : ms_tool_awaits = [].
Proof. vm_compute. reflexivity. Qed.
Lemma pin_long_lived_classes :
  map (fun c => snd (fst (fst c))) (filter (fun c => N.eqb (snd c) 1) ms_tool_classes) =
  [lit "BaseTool"; lit "CompileGrammarTool"; lit "EjectTool"; lit "ValidateTool"; lit "WriteTool"].
Proof. vm_compute. reflexivity. Qed.

(* ---- state ---------------------------------------------------------------------------------------------------- *)
Definition field_id := (str * str * str)%type.          (* module, class, field *)
Record srv := {
  s_absent : acell;                       (* Absent._instance + allocator position *)
  s_fields : list (field_id * N);         (* one slot per instance field of the long-lived objects *)
  s_loaded : list str;                    (* modules imported lazily so far (sys.modules) *)
  s_served : N                            (* number of calls served *)
}.

Definition field_eqb (a b : field_id) : bool :=
  let '(a1, a2, a3) := a in let '(b1, b2, b3) := b in str_eqb a1 b1 && str_eqb a2 b2 && str_eqb a3 b3.

Fixpoint set_field (f : field_id) (v : N) (l : list (field_id * N)) : list (field_id * N) :=
  match l with
  | [] => [(f, v)]
  | (g, w) :: r => if field_eqb f g then (g, v) :: r else (g, w) :: set_field f v r
  end.

Fixpoint add_loaded (m : str) (l : list str) : list str :=
  match l with [] => [m] | x :: r => if str_eqb m x then l else x :: add_loaded m r end.

Section Server.
  Variable call : Type.
  Variable response : Type.
  Variable tool_module : call -> str.           (* which tool (module of mcp/) serves the call *)
  Variable n_absent : call -> nat.              (* how many times the call evaluates Absent() *)
  Variable wval : call -> N.                    (* the value a write site would store (depends on the call) *)
  (* the response: call (arguments + the texts they name), observed field values, observed identity profile *)
  Variable handler : call -> list (field_id * N) -> list (list bool) -> response.

  (* the writes to self.<field> that the code of the call's tool performs: driven by the GENERATED list *)
  Definition writes_of (c : call) : list field_id :=
    map (fun w => (fst (fst (fst w)), snd (fst (fst w)), snd (fst w)))
        (filter (fun w => str_eqb (fst (fst (fst w))) (tool_module c)) ms_tool_attr_writes).

  Definition lazy_of (c : call) : list str :=
    map (fun i => snd i) (filter (fun i => str_eqb (fst (fst i)) (tool_module c)) ms_lazy_imports).

  Definition init_fields : list (field_id * N) := map (fun f => (f, 0)) ms_tool_fields.

  Definition step (s : srv) (c : call) : srv * response :=
    let (cell', toks) := absent_gets (n_absent c) (s_absent s) in
    let r := handler c (s_fields s) (identity_profile toks) in
    ({| s_absent := absent_alloc_other cell';
        s_fields := fold_left (fun fs f => set_field f (wval c) fs) (writes_of c) (s_fields s);
        s_loaded := fold_left (fun l m => add_loaded m l) (lazy_of c) (s_loaded s);
        s_served := N.succ (s_served s) |}, r).

  Definition run (h : list call) (s : srv) : srv := fold_left (fun s c => fst (step s c)) h s.

  Definition fresh (cell : acell) : srv :=
    {| s_absent := cell; s_fields := init_fields; s_loaded := []; s_served := 0 |}.

  (* -- the fields are never written after construction (from the pin) -- *)
  Lemma writes_of_nil c : writes_of c = [].
  Proof. unfold writes_of. rewrite pin_tool_attr_writes. reflexivity. Qed.

  Lemma step_fields s c : s_fields (fst (step s c)) = s_fields s.
  Proof.
    unfold step. destruct (absent_gets (n_absent c) (s_absent s)) as [cell' toks]. cbn [fst s_fields].
    rewrite writes_of_nil. reflexivity.
  Qed.

  Lemma run_fields h : forall s, s_fields (run h s) = s_fields s.
  Proof.
    induction h as [|c h IH]; intro s; [reflexivity|].
    change (run (c :: h) s) with (run h (fst (step s c))). rewrite IH. apply step_fields.
  Qed.

  (* -- two states with the same field values answer alike, whatever their Absent cell / imports / counters -- *)
  Lemma response_state_irrelevant s1 s2 c : s_fields s1 = s_fields s2 -> snd (step s1 c) = snd (step s2 c).
  Proof.
    intro Hf. unfold step.
    pose proof (absent_singleton_unobservable (n_absent c) (s_absent s1) (s_absent s2)) as Hobs.
    destruct (absent_gets (n_absent c) (s_absent s1)) as [c1 t1].
    destruct (absent_gets (n_absent c) (s_absent s2)) as [c2 t2]. cbn [snd] in *.
    rewrite Hf, Hobs. reflexivity.
  Qed.

  (* -- THE theorem: the answer to a call does not depend on the calls served before it -- *)
  Theorem history_independent : forall s0 h c, snd (step (run h s0) c) = snd (step s0 c).
  Proof. intros s0 h c. apply response_state_irrelevant. apply run_fields. Qed.

  (* -- nor on the state the process started in (fresh interpreter: cell unset; or ABSENT already built at import) -- *)
  Theorem start_state_independent : forall cell1 cell2 h1 h2 c,
    snd (step (run h1 (fresh cell1)) c) = snd (step (run h2 (fresh cell2)) c).
  Proof.
    intros. rewrite !history_independent. apply response_state_irrelevant. reflexivity.
  Qed.

  (* -- responses of a whole schedule: every call is answered as if it were alone on a fresh server -- *)
  Fixpoint responses (s : srv) (h : list call) : list response :=
    match h with [] => [] | c :: r => snd (step s c) :: responses (fst (step s c)) r end.

  Lemma responses_pointwise s0 : forall h s, s_fields s = s_fields s0 ->
    responses s h = map (fun c => snd (step s0 c)) h.
  Proof.
    induction h as [|c h IH]; intros s Hs; [reflexivity|]. cbn [responses map].
    rewrite (response_state_irrelevant s s0 c Hs). f_equal. apply IH. rewrite step_fields. exact Hs.
  Qed.

  (* asyncio.gather of calls whose execute() has no await point (pin_tool_awaits) runs them in some order p, a
     permutation of the submitted calls: every call gets the answer it gets sequentially, in every order *)
  Theorem interleaving_independent : forall s0 cs p, Permutation cs p ->
    forall c, In c cs -> In (c, snd (step s0 c)) (combine p (responses s0 p)).
  Proof.
    intros s0 cs p P c Hc. rewrite (responses_pointwise s0 p s0 eq_refl).
    assert (Hp : In c p) by (eapply Permutation_in; eassumption).
    clear -Hp. induction p as [|x p IH]; [contradiction|]. cbn [map combine].
    destruct Hp as [->|Hp]; [left; reflexivity|right; apply IH; exact Hp].
  Qed.
End Server.

(* ---- non-vacuity: a concrete instance in which the state REALLY changes at every step, and a handler that really
        looks at everything it is given ------------------------------------------------------------------------------ *)
Definition ex_call := (str * nat)%type.
Definition ex_handler (c : ex_call) (fs : list (field_id * N)) (prof : list (list bool)) : N * N * list (list bool) :=
  (N.of_nat (length (fst c)), N.of_nat (length fs), prof).
Definition ex_step := step ex_call (N * N * list (list bool)) (fun c => fst c) (fun c => snd c) (fun _ => 5) ex_handler.
Definition ex_s0 := fresh {| a_inst := None; a_next := 100 |}.
Definition ex_c1 : ex_call := (lit "mcp/compile_grammar", 2%nat).
Definition ex_c2 : ex_call := (lit "mcp/validate", 3%nat).

Example server_state_really_changes :
  let s1 := fst (ex_step ex_s0 ex_c1) in
  let s2 := fst (ex_step s1 ex_c2) in
  a_inst (s_absent ex_s0) = None /\ a_inst (s_absent s1) = Some 100 /\ a_inst (s_absent s2) = Some 100 /\
  a_next (s_absent s1) <> a_next (s_absent s2) /\
  s_loaded ex_s0 = [] /\ (1 <=? N.of_nat (length (s_loaded s1))) = true /\ s_served s2 = 2 /\
  snd (ex_step s2 ex_c2) = snd (ex_step ex_s0 ex_c2).
Proof. vm_compute. repeat split; try reflexivity; discriminate. Qed.

(* what would go wrong: if a tool wrote one of its fields (a non-empty ms_tool_attr_writes), a handler that reads the
   field answers differently after a history.  The same step function over a one-entry write list: *)
Section Counterfactual.
  Definition cf_writes : list (str * str * str * str) := [(lit "mcp/validate", lit "ValidateTool", lit "last", lit "ValidateTool.execute")].
  Definition cf_step (s : srv) (c : ex_call) : srv * N :=
    let r := match s_fields s with [] => 0 | (_, v) :: _ => v end in
    ({| s_absent := s_absent s;
        s_fields := fold_left (fun fs w => set_field (fst (fst (fst w)), snd (fst (fst w)), snd (fst w)) (N.of_nat (snd c)) fs) cf_writes (s_fields s);
        s_loaded := s_loaded s; s_served := N.succ (s_served s) |}, r).
  Example counterfactual_history_dependent :
    snd (cf_step (fst (cf_step ex_s0 ex_c2)) ex_c1) <> snd (cf_step ex_s0 ex_c1).
  Proof. vm_compute. discriminate. Qed.
End Counterfactual.
