(* Syntax of the GUARD TABLE extracted from the four MCP tools (and the two CLI commands) by
   harness/translate/status_t.py.  Gen/StatusGen.v is written in these types on every run; Tools/Envelope.v
   interprets it.  Nothing here is specific to the current source text. *)
From OV Require Import Base.Strs.

(* a guard: boolean combination of ATOMS; an atom is the source text (ast.unparse) of an `if` test leaf,
   suffixed `@k` when it mentions a local that is assigned more than once (k = number of assignments to
   those locals that textually precede the test), or `exc#k:<first call of the try body>` for "the k-th
   try statement of the function raised (into this handler)". *)
Inductive bexp :=
| BTrue
| BAtom (a : str)
| BNot (b : bexp)
| BAnd (a b : bexp)
| BOr (a b : bexp).

(* the value assigned at a site, as far as the envelope abstraction cares *)
Inductive val :=
| VStr (s : str)          (* string constant *)
| VTrue | VFalse | VNone
| VEmptyList              (* [] *)
| VNum (n : N)            (* small non-negative int constant *)
| VLenOf (atom : str)     (* a list with exactly one element per element of the list named by `atom`
                             (list comprehension without filter over it): non-empty iff the atom is truthy *)
| VLenOfKey (key : str)   (* len(result.get(key, [])) / len(result[key]) *)
| VOther (src : str).     (* any other expression (source text) *)

Inductive action :=
| AInit (fields : list (str * val))     (* result = {...}   (only tracked keys are listed) *)
| ASet (key : str) (v : val)            (* result[key] = v   /  CLI: local `validation_status = v` *)
| ARet                                  (* return result *)
| ARetDict (fields : list (str * val))  (* return {...} *)
| ARetCall (fn : str)                   (* return self.fn(...)  -- fn is an envelope helper with its own table *)
| AEcho                                 (* CLI: click.echo(f"...validation_status: {validation_status}") *)
| AExit (code : N).                     (* CLI: raise SystemExit(code) *)

(* one site: conjunction of the enclosing guards (outermost first) and what happens there *)
Record site := mk_site { s_guards : list bexp; s_act : action }.

(* one function: name, and its sites in source order *)
Definition fn_table := (str * list site)%type.

(* a FLAG local of a function (only ever bound to True / False): its assignment sites in source order, each with
   the conjunction of the enclosing guards and the constant assigned.  An atom `name@k` that reads the flag denotes
   its value after the first k assignment sites. *)
Definition flag_table := (str * list (list bexp * bool))%type.
