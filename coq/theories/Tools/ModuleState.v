(* C06 -- where non-determinism can enter a Python program, and why it does not enter here.

   Everything below is an obligation over the inventory that harness/translate/modstate_t.py regenerates from
   /repo/src/octave_mcp on every run (Gen/ModStateGen.v).  The obligations are decided by vm_compute over the
   GENERATED lists; the whitelists are written here, each entry individually inspected and justified. *)
From OV Require Import Base.Strs Gen.ModStateGen.
From Coq Require Import Sorting.Sorted Sorting.Permutation.
Require Coq.Strings.String.
Import Coq.Strings.String.StringSyntax.
Open Scope N_scope.

(* ------------------------------------------------------------------------------------------------------------ *)
(** * 1. No mutable module state *)

(* kind codes of the translator: 0 immutable literal, 1 compiled regex, 2 frozenset, 3 tuple, 4 mutable list,
   5 mutable dict, 6 mutable set, 7 class instance, 8 dataclass field descriptor (per-instance default),
   9 alias of another binding / element of a flat table, 10 type alias *)
Definition immutable_kind (k : N) : bool :=
  match k with 0 | 1 | 2 | 3 | 8 | 9 | 10 => true | _ => false end.

Definition binding := (str * str * N)%type.
Definition mutation := (str * str * str * str)%type.   (* site module, site function, mutated module, mutated binding *)

Definition b_mod (b : binding) : str := fst (fst b).
Definition b_name (b : binding) : str := snd (fst b).
Definition b_kind (b : binding) : N := snd b.
Definition m_site_fn (m : mutation) : str := snd (fst (fst m)).
Definition m_mod (m : mutation) : str := snd (fst m).
Definition m_name (m : mutation) : str := snd m.

Definition site_mutates (b : binding) (m : mutation) : bool :=
  str_eqb (b_mod b) (m_mod m) && str_eqb (b_name b) (m_name m).

(* import-time code runs once, before the process serves its first call: it is part of the program text, not of
   the history (e.g. `__version__` is rebound in a try/except at the top of __init__.py) *)
Definition import_time (m : mutation) : bool := str_eqb (m_site_fn m) (lit "<module>").

(* THE one write-once cell: Absent.__new__ stores the singleton in Absent._instance (core/ast_nodes.py).
   Modelled explicitly in section 2 below. *)
Definition absent_cell_write : mutation :=
  (lit "core/ast_nodes", lit "Absent.__new__", lit "core/ast_nodes", lit "Absent._instance").

Definition mutation_eqb (a b : mutation) : bool :=
  let '(a1, a2, a3, a4) := a in let '(b1, b2, b3, b4) := b in
  str_eqb a1 b1 && str_eqb a2 b2 && str_eqb a3 b3 && str_eqb a4 b4.

Definition allowed_mutation (m : mutation) : bool := import_time m || mutation_eqb m absent_cell_write.

(* a binding is harmless if its kind is immutable or no run-time site mutates it (other than the Absent cell) *)
Definition binding_ok (b : binding) : bool :=
  immutable_kind (b_kind b) ||
  forallb (fun m => negb (site_mutates b m) || allowed_mutation m) ms_mutations.

(* objects built by a call at module / class level.  Whitelist by constructor, each inspected:
   - Absent            : the I2 sentinel; no instance fields; __eq__/__hash__/__bool__/__repr__ are constants of the class
   - auto              : enum.auto() members of TokenType (immutable enum members)
   - logging.getLogger : loggers; write to the logging stream only, never read by result-producing code *)
Definition instance_ctor_whitelist : list str := [lit "Absent"; lit "auto"; lit "logging.getLogger"].
Definition instance_ok (i : str * str * str) : bool := str_in (snd i) instance_ctor_whitelist.

(* mutable module-level objects handed out by reference.  Whitelist (owner module, binding, how), inspected:
   - USAGE_HINTS (dict str->str, compile_grammar.py) is placed in the result envelope of compile_grammar / validate /
     write under "usage_hints" / "grammar_hint"; the only consumer in the package is server.handle_call_tool, which
     serialises the envelope with json.dumps at once and drops it.  No site in the package stores into it
     (ms_mutations).  A Python caller that mutated the returned dict would change later results: outside the MCP
     interface, stated in docs/design_C06.md. *)
Definition escape_ok (e : str * str * str * str * str) : bool :=
  let '(_, _, owner, name, how) := e in
  str_eqb owner (lit "mcp/compile_grammar") && str_eqb name (lit "USAGE_HINTS") && str_eqb how (lit "stored in dict display").

(* import-time expression statements (side effects at import).  Whitelist, inspected:
   - server.py load_dotenv(): reads a .env file into os.environ -- feeds only the server configuration variables of
     section 4 (never read by a tool);  server.py run() / cli/main.py cli() are under `if __name__ == "__main__"`. *)
Definition toplevel_call_ok (c : str * str * str) : bool :=
  let '(m, _, call) := c in
  (str_eqb m (lit "mcp/server") && (str_eqb call (lit "load_dotenv()") || str_eqb call (lit "run()"))) ||
  (str_eqb m (lit "cli/main") && str_eqb call (lit "cli()")).

Definition no_mutable_module_state_b : bool :=
  forallb binding_ok ms_bindings && forallb allowed_mutation ms_mutations && forallb instance_ok ms_instances &&
  forallb escape_ok ms_escapes && forallb toplevel_call_ok ms_toplevel_calls.

Lemma no_mutable_module_state : no_mutable_module_state_b = true.
Proof. vm_compute. reflexivity. Qed.

Lemma all_bindings_ok : forallb binding_ok ms_bindings = true.
Proof. vm_compute. reflexivity. Qed.
Lemma all_mutations_allowed : forallb allowed_mutation ms_mutations = true.
Proof. vm_compute. reflexivity. Qed.

(* the same, as a statement about every binding and every site of the generated inventory *)
Lemma no_mutable_module_state_forall :
  (forall b, In b ms_bindings -> immutable_kind (b_kind b) = true \/
      forall m, In m ms_mutations -> site_mutates b m = true -> import_time m = true \/ m = absent_cell_write) /\
  (forall m, In m ms_mutations -> import_time m = true \/ m = absent_cell_write).
Proof.
  assert (Hmut : forall m, allowed_mutation m = true -> import_time m = true \/ m = absent_cell_write).
  { intros m H. unfold allowed_mutation in H. apply orb_true_iff in H as [H|H]; [left; exact H|right].
    destruct m as [[[a1 a2] a3] a4]. unfold absent_cell_write, mutation_eqb in *.
    repeat (apply andb_true_iff in H as [H ?]).
    apply str_eqb_eq in H, H0, H1, H2. subst. reflexivity. }
  split.
  - intros b Hb. pose proof all_bindings_ok as H. rewrite forallb_forall in H. specialize (H b Hb). unfold binding_ok in H.
    apply orb_true_iff in H as [H|H]; [left; exact H|right].
    intros m Hm Hs. rewrite forallb_forall in H. specialize (H m Hm). rewrite Hs in H. cbn in H. apply Hmut; exact H.
  - intros m Hm. pose proof all_mutations_allowed as H. rewrite forallb_forall in H. apply Hmut, H, Hm.
Qed.

(* non-vacuity: the inventory really contains mutable containers and the Absent cell write *)
Lemma inventory_nonvacuous :
  existsb (fun b => negb (immutable_kind (b_kind b))) ms_bindings = true /\
  existsb (fun m => mutation_eqb m absent_cell_write) ms_mutations = true /\
  (20 <=? N.of_nat (length ms_modules)) = true /\ (100 <=? N.of_nat (length ms_bindings)) = true.
Proof. vm_compute. repeat split; reflexivity. Qed.

(* ------------------------------------------------------------------------------------------------------------ *)
(** * 2. The Absent singleton: a write-once cell whose state cannot be observed *)

(* `Absent()` returns the instance stored in the class attribute, allocating it on first use.  The address of the
   instance depends on the allocator, i.e. on everything the process did before (a_next).  The class defines
   __eq__ (isinstance), __hash__ (hash of a constant string), __bool__ (False) and __repr__ ("Absent()"), so the
   only observation that could depend on WHICH instance is returned is identity (`is`); id() does not occur in
   the package (section 4). *)
Record acell := { a_inst : option N; a_next : N }.

Definition absent_get (c : acell) : acell * N :=
  match a_inst c with
  | Some a => (c, a)
  | None => ({| a_inst := Some (a_next c); a_next := N.succ (a_next c) |}, a_next c)
  end.

(* other allocations move the allocator but never touch the cell *)
Definition absent_alloc_other (c : acell) : acell := {| a_inst := a_inst c; a_next := N.succ (a_next c) |}.

Fixpoint absent_gets (n : nat) (c : acell) : acell * list N :=
  match n with
  | O => (c, [])
  | S k => let (c1, t) := absent_get c in let (c2, ts) := absent_gets k c1 in (c2, t :: ts)
  end.

(* what code can see of the tokens it obtained: which of them are the same object *)
Definition identity_profile (l : list N) : list (list bool) := map (fun a => map (fun b => N.eqb a b) l) l.

Lemma absent_get_set c a : a_inst c = Some a -> absent_get c = (c, a).
Proof. unfold absent_get. intros ->. reflexivity. Qed.

Lemma absent_gets_set n : forall c a, a_inst c = Some a -> absent_gets n c = (c, repeat a n).
Proof.
  induction n as [|n IH]; intros c a H; cbn [absent_gets repeat]; [reflexivity|].
  rewrite (absent_get_set c a H). rewrite (IH c a H). reflexivity.
Qed.

Lemma absent_gets_repeat n c : snd (absent_gets n c) = repeat (snd (absent_get c)) n.
Proof.
  destruct n as [|n]; [reflexivity|]. cbn [absent_gets repeat].
  destruct (a_inst c) as [a|] eqn:E.
  - rewrite (absent_get_set c a E). rewrite (absent_gets_set n c a E). reflexivity.
  - unfold absent_get. rewrite E. cbn [snd].
    rewrite (absent_gets_set n {| a_inst := Some (a_next c); a_next := N.succ (a_next c) |} (a_next c) eq_refl). reflexivity.
Qed.

Lemma identity_profile_repeat a n : identity_profile (repeat a n) = repeat (repeat true n) n.
Proof.
  unfold identity_profile.
  assert (H : forall l, (forall x, In x l -> x = a) ->
            forall m, map (fun x => map (fun y => N.eqb x y) (repeat a m)) l = repeat (repeat true m) (length l)).
  { induction l as [|x l IH]; intros Hl m; [reflexivity|]. cbn [map length repeat].
    rewrite IH by (intros y Hy; apply Hl; right; exact Hy). f_equal.
    rewrite (Hl x (or_introl eq_refl)). clear. induction m as [|m IHm]; [reflexivity|]. cbn. rewrite N.eqb_refl, IHm. reflexivity. }
  rewrite H by (intros x Hx; apply repeat_spec in Hx; exact Hx). rewrite repeat_length. reflexivity.
Qed.

(* whatever the cell holds and wherever the allocator stands, n calls of Absent() look the same *)
Lemma absent_singleton_unobservable n c1 c2 :
  identity_profile (snd (absent_gets n c1)) = identity_profile (snd (absent_gets n c2)).
Proof. rewrite !absent_gets_repeat, !identity_profile_repeat. reflexivity. Qed.

(* the cell is write-once: once set it never changes again *)
Lemma absent_write_once n c a : a_inst c = Some a -> a_inst (fst (absent_gets n c)) = Some a.
Proof. intro H. rewrite (absent_gets_set n c a H). exact H. Qed.

(* non-vacuity: the two states really differ and really return different addresses *)
Example absent_states_differ :
  snd (absent_get {| a_inst := None; a_next := 7 |}) <> snd (absent_get {| a_inst := Some 3; a_next := 7 |}).
Proof. vm_compute. discriminate. Qed.

(* ------------------------------------------------------------------------------------------------------------ *)
(** * 3. No unordered iteration *)

(* sites where the iteration order of a set could reach an output: (module, function, construct, expression).
   Whitelist, each inspected:
   - core/hydrator.py detect_used_terms / _check_value_for_terms: `for term in term_set: if ...: used.add(term)`;
     the loop body only adds to another set (commutative and idempotent), nothing else is done per element.
     (hydrator is reached only from the CLI `hydrate` command, never from the four MCP tools.) *)
Definition unordered_whitelist : list (str * str * str * str) :=
  [(lit "core/hydrator", lit "detect_used_terms", lit "for", lit "term_set");
   (lit "core/hydrator", lit "_check_value_for_terms", lit "for", lit "term_set")].

Definition quad_eqb (a b : str * str * str * str) : bool :=
  let '(a1, a2, a3, a4) := a in let '(b1, b2, b3, b4) := b in
  str_eqb a1 b1 && str_eqb a2 b2 && str_eqb a3 b3 && str_eqb a4 b4.

Definition no_unordered_iteration_b : bool :=
  forallb (fun s => existsb (quad_eqb s) unordered_whitelist) ms_unordered_iter.

Lemma no_unordered_iteration : no_unordered_iteration_b = true.
Proof. vm_compute. reflexivity. Qed.

(* the sorted(<set>) sites of the four tools and the validator -- the reporting functions modelled in section 5 --
   are exactly the ones the permutation lemmas were written for *)
Definition sorted_sites_of (mods : list str) : list (str * str * str) :=
  filter (fun s => str_in (fst (fst s)) mods) ms_sorted_sets.

Definition pinned_sorted_sites : list (str * str * str) :=
  [(lit "core/validator", lit "Validator._validate_unknown_fields", lit "sorted(unknown)");
   (lit "mcp/compile_grammar", lit "CompileGrammarTool.execute", lit "sorted(VALID_FORMATS)");
   (lit "mcp/validate", lit "ValidateTool._validate_path", lit "sorted(self.ALLOWED_EXTENSIONS)");
   (lit "mcp/validate", lit "ValidateTool.execute", lit "sorted(VALID_PROFILES)");
   (lit "mcp/write", lit "WriteTool._validate_path", lit "sorted(self.ALLOWED_EXTENSIONS)");
   (lit "mcp/write", lit "WriteTool._generate_diff", lit "sorted(lost_sections)")].

Lemma pin_sorted_sites :
  sorted_sites_of [lit "core/validator"; lit "mcp/compile_grammar"; lit "mcp/eject"; lit "mcp/validate"; lit "mcp/write";
                   lit "core/projector"; lit "core/routing"; lit "core/sealer"; lit "core/repair"; lit "core/emitter";
                   lit "core/parser"; lit "core/lexer"; lit "core/gbnf_compiler"; lit "core/constraints";
                   lit "core/schema_extractor"; lit "core/holographic"; lit "schemas/loader"]
  = pinned_sorted_sites.
Proof. vm_compute. reflexivity. Qed.

(* ------------------------------------------------------------------------------------------------------------ *)
(** * 4. No ambient inputs *)

(* (category, module, function).  Whitelist, each inspected.  The property text itself allows timestamps in
   routing entries; every other entry is either not result-producing (server configuration, CLI, hydrator) or is
   an input that the quantifier of C06 does not vary / that denotes the call's own argument. *)
Definition ambient_whitelist : list (str * str * str) :=
  [ (* -- allowed by the property text: the timestamp field of a routing entry -- *)
    (lit "datetime", lit "core/routing", lit "RoutingLog.add");
    (* -- hash("Absent") in Absent.__hash__: seed dependent VALUE, used only as bucket index when an Absent is put in a
          set/dict; no set of AST values is ever iterated (section 3) and dicts iterate in insertion order -- *)
    (lit "hash", lit "core/ast_nodes", lit "Absent.__hash__");
    (* -- schema search path: cwd IS consulted.  Modelled faithfully in section 6 (lookup); the dependence on cwd is
          the finding C06-cwd-schema-shadow, see C06_lookup_cwd_refuted -- *)
    (lit "path-cwd", lit "schemas/loader", lit "get_schema_search_paths");
    (* -- text-mode open() without encoding= : the decoder is the locale's.  Under every locale of the quantifier
          (C, C.UTF-8, en_US.UTF-8) CPython 3.12 decodes as UTF-8 (PEP 538/540); checked by the harness, partial -- *)
    (lit "locale-encoding", lit "schemas/loader", lit "load_schema");
    (* -- relative path ARGUMENTS are resolved against cwd: a relative file_path/target_path names a different file
          in a different directory; it is the call's own argument that changes meaning (the quantifier uses
          absolute paths) -- *)
    (lit "path-absolute", lit "mcp/validate", lit "ValidateTool._validate_path");
    (lit "path-resolve", lit "mcp/validate", lit "ValidateTool._validate_path");
    (lit "path-absolute", lit "mcp/write", lit "WriteTool._validate_path");
    (lit "path-resolve", lit "mcp/write", lit "WriteTool._validate_path");
    (lit "path-absolute", lit "core/file_ops", lit "validate_octave_path");
    (lit "path-resolve", lit "core/file_ops", lit "validate_octave_path");
    (* -- temp file NAME next to the target; unlinked or renamed onto the target before the call returns, the name
          never reaches the envelope -- *)
    (lit "tempfile", lit "mcp/write", lit "WriteTool.execute");
    (lit "tempfile", lit "core/file_ops", lit "atomic_write_octave");
    (* -- ~/.octave/standards: schema names `latest` / `frozen@sha256:..` of octave_write resolve under HOME;
          HOME is not varied by the quantifier and frozen@ references are content-addressed (hash checked) -- *)
    (lit "path-home", lit "core/hydrator", lit "resolve_hermetic_standard");
    (* -- server start-up configuration (which tools are registered, transport, host, port): read once in
          create_server()/run(), never by a tool's execute -- *)
    (lit "os-getenv", lit "mcp/server", lit "ensure_dependencies_synced");
    (lit "path-resolve", lit "mcp/server", lit "ensure_dependencies_synced");
    (lit "os-getenv", lit "mcp/server", lit "parse_disabled_tools");
    (lit "os-getenv", lit "mcp/server", lit "get_transport_type");
    (lit "os-getenv", lit "mcp/server", lit "get_server_host");
    (lit "os-getenv", lit "mcp/server", lit "get_server_port");
    (lit "os-getenv", lit "mcp/http_transport", lit "create_mcp_server");
    (* -- vocabulary hydration: CLI `hydrate` only (not one of the four tools); manifests carry a timestamp field -- *)
    (lit "path-resolve", lit "core/hydrator", lit "validate_source_uri");
    (lit "path-resolve", lit "core/hydrator", lit "_resolve_without_links");
    (lit "path-resolve", lit "core/hydrator", lit "hydrate");
    (lit "path-resolve", lit "core/hydrator", lit "_create_manifest_section");
    (lit "datetime", lit "core/hydrator", lit "_create_manifest_section");
    (lit "path-resolve", lit "core/hydrator", lit "_check_single_snapshot");
    (lit "path-cwd", lit "core/hydrator", lit "_check_single_snapshot");
    (* -- command line front end (separate process per invocation, not the MCP server) -- *)
    (lit "path-resolve", lit "cli/main", lit "_compute_allowed_root_for_check");
    (lit "path-resolve", lit "cli/main", lit "hydrate");
    (lit "locale-encoding", lit "cli/main", lit "eject");
    (lit "locale-encoding", lit "cli/main", lit "validate");
    (lit "sys-stdin", lit "cli/main", lit "validate");
    (lit "sys-stdin", lit "cli/main", lit "write") ].

Definition triple_eqb (a b : str * str * str) : bool :=
  let '(a1, a2, a3) := a in let '(b1, b2, b3) := b in str_eqb a1 b1 && str_eqb a2 b2 && str_eqb a3 b3.

Definition no_ambient_inputs_b : bool :=
  forallb (fun s => existsb (triple_eqb s) ambient_whitelist) ms_ambient.

Lemma no_ambient_inputs : no_ambient_inputs_b = true.
Proof. vm_compute. reflexivity. Qed.

(* in particular: id(), random, uuid, time, locale, os.environ do not occur in any module reachable from a tool *)
Definition tool_reachable_modules : list str :=
  [lit "core/ast_nodes"; lit "core/constraints"; lit "core/emitter"; lit "core/gbnf_compiler"; lit "core/grammar";
   lit "core/holographic"; lit "core/lexer"; lit "core/parser"; lit "core/projector"; lit "core/repair"; lit "core/repair_log";
   lit "core/routing"; lit "core/schema"; lit "core/schema_extractor"; lit "core/sealer"; lit "core/validator";
   lit "mcp/base_tool"; lit "mcp/compile_grammar"; lit "mcp/eject"; lit "mcp/validate"; lit "mcp/write"; lit "schemas/loader"].

Definition forbidden_categories : list str :=
  [lit "id"; lit "random"; lit "uuid"; lit "time"; lit "locale"; lit "secrets"; lit "os-environ"; lit "os-getenv"; lit "os-getcwd";
   lit "os-getpid"; lit "os-urandom"; lit "socket"; lit "platform"; lit "threading"; lit "sys-argv"; lit "sys-path"].

Lemma no_forbidden_ambient_in_tools :
  forallb (fun s => negb (str_in (snd (fst s)) tool_reachable_modules && str_in (fst (fst s)) forbidden_categories)) ms_ambient = true.
Proof. vm_compute. reflexivity. Qed.

(* ------------------------------------------------------------------------------------------------------------ *)
(** * 5. Reports built from sets are sorted: permutation invariance *)

(* Python compares str by code point, lexicographically; a proper prefix is smaller. *)
Fixpoint str_leb (a b : str) : bool :=
  match a, b with
  | [], _ => true
  | _ :: _, [] => false
  | x :: a', y :: b' => if N.ltb x y then true else if N.eqb x y then str_leb a' b' else false
  end.

Lemma str_leb_refl a : str_leb a a = true.
Proof. induction a as [|x a IH]; cbn; [reflexivity|]. rewrite N.ltb_irrefl, N.eqb_refl. exact IH. Qed.

Lemma str_leb_total a : forall b, str_leb a b = true \/ str_leb b a = true.
Proof.
  induction a as [|x a IH]; intros [|y b]; cbn; auto.
  destruct (N.ltb_spec x y) as [H|H]; [left; reflexivity|].
  destruct (N.eqb_spec x y) as [E|E].
  - subst. rewrite N.ltb_irrefl, N.eqb_refl. apply IH.
  - right. assert (y < x) by lia. apply N.ltb_lt in H0. rewrite H0. reflexivity.
Qed.

Lemma str_leb_antisym a : forall b, str_leb a b = true -> str_leb b a = true -> a = b.
Proof.
  induction a as [|x a IH]; intros [|y b]; cbn; intros H1 H2; try reflexivity; try discriminate.
  destruct (N.ltb_spec x y) as [L|L].
  - destruct (N.ltb_spec y x) as [L2|L2]; [lia|]. destruct (N.eqb_spec y x); [lia|discriminate].
  - destruct (N.eqb_spec x y) as [E|E]; [|discriminate]. subst.
    rewrite N.ltb_irrefl, N.eqb_refl in H2. f_equal. apply IH; assumption.
Qed.

Lemma str_leb_trans a : forall b c, str_leb a b = true -> str_leb b c = true -> str_leb a c = true.
Proof.
  induction a as [|x a IH]; intros [|y b] [|z c]; cbn; intros H1 H2; try reflexivity; try discriminate.
  destruct (N.ltb_spec x y) as [L1|L1].
  - destruct (N.ltb_spec y z) as [L2|L2].
    + assert (x < z) by lia. apply N.ltb_lt in H. rewrite H. reflexivity.
    + destruct (N.eqb_spec y z) as [E|E]; [|discriminate]. subst. apply N.ltb_lt in L1. rewrite L1. reflexivity.
  - destruct (N.eqb_spec x y) as [E|E]; [|discriminate]. subst.
    destruct (N.ltb_spec y z) as [L2|L2]; [reflexivity|].
    destruct (N.eqb_spec y z) as [E2|E2]; [|discriminate]. subst. eapply IH; eassumption.
Qed.

Definition sle (a b : str) : Prop := str_leb a b = true.

(* a sorted list is determined by its multiset: two sorted permutations of each other are equal *)
Lemma sorted_perm_unique : forall l1 l2 : list str,
  StronglySorted sle l1 -> StronglySorted sle l2 -> Permutation l1 l2 -> l1 = l2.
Proof.
  induction l1 as [|a l1 IH]; intros l2 S1 S2 P.
  - apply Permutation_nil in P. subst. reflexivity.
  - destruct l2 as [|b l2]; [apply Permutation_sym, Permutation_nil in P; discriminate|].
    inversion S1 as [|? ? S1' F1]; subst. inversion S2 as [|? ? S2' F2]; subst.
    assert (a = b).
    { assert (Ha : In a (b :: l2)) by (eapply Permutation_in; [exact P|left; reflexivity]).
      assert (Hb : In b (a :: l1)) by (eapply Permutation_in; [apply Permutation_sym; exact P|left; reflexivity]).
      destruct Ha as [Ha|Ha]; [congruence|]. destruct Hb as [Hb|Hb]; [congruence|].
      rewrite Forall_forall in F1, F2. apply str_leb_antisym; [apply F1, Hb|apply F2, Ha]. }
    subst b. f_equal. apply IH; try assumption. eapply Permutation_cons_inv; exact P.
Qed.

(* any sorting function: Python's sorted() (Timsort) and the insertion sort below are both instances *)
Definition is_sorter (f : list str -> list str) : Prop :=
  forall l, StronglySorted sle (f l) /\ Permutation (f l) l.

Lemma sorter_perm_invariant f : is_sorter f -> forall xs ys, Permutation xs ys -> f xs = f ys.
Proof.
  intros Hf xs ys P. destruct (Hf xs) as [S1 P1], (Hf ys) as [S2 P2].
  apply sorted_perm_unique; try assumption.
  eapply Permutation_trans; [exact P1|]. eapply Permutation_trans; [exact P|]. apply Permutation_sym; exact P2.
Qed.

Lemma sorters_agree f g : is_sorter f -> is_sorter g -> forall l, f l = g l.
Proof.
  intros Hf Hg l. destruct (Hf l) as [S1 P1], (Hg l) as [S2 P2].
  apply sorted_perm_unique; try assumption. eapply Permutation_trans; [exact P1|apply Permutation_sym; exact P2].
Qed.

Fixpoint insert_sorted (x : str) (l : list str) : list str :=
  match l with
  | [] => [x]
  | y :: l' => if str_leb x y then x :: l else y :: insert_sorted x l'
  end.
Fixpoint py_sorted (l : list str) : list str :=
  match l with [] => [] | x :: l' => insert_sorted x (py_sorted l') end.

Lemma insert_perm x l : Permutation (insert_sorted x l) (x :: l).
Proof.
  induction l as [|y l IH]; cbn; [apply Permutation_refl|].
  destruct (str_leb x y); [apply Permutation_refl|].
  eapply Permutation_trans; [apply perm_skip; exact IH|apply perm_swap].
Qed.

Lemma insert_sorted_sorted x l : StronglySorted sle l -> StronglySorted sle (insert_sorted x l).
Proof.
  induction l as [|y l IH]; intro S; cbn.
  - constructor; constructor.
  - inversion S as [|? ? S' F]; subst. destruct (str_leb x y) eqn:E.
    + constructor; [exact S|]. constructor; [exact E|].
      rewrite Forall_forall in *. intros z Hz. eapply str_leb_trans; [exact E|apply F, Hz].
    + constructor; [apply IH; exact S'|].
      assert (Hyx : sle y x) by (destruct (str_leb_total x y) as [H|H]; [congruence|exact H]).
      rewrite Forall_forall in *. intros z Hz.
      eapply Permutation_in in Hz; [|apply insert_perm]. destruct Hz as [<-|Hz]; [exact Hyx|apply F, Hz].
Qed.

Lemma py_sorted_is_sorter : is_sorter py_sorted.
Proof.
  intro l. induction l as [|x l [S P]]; cbn; [split; [constructor|apply Permutation_refl]|].
  split; [apply insert_sorted_sorted; exact S|].
  eapply Permutation_trans; [apply insert_perm|apply perm_skip; exact P].
Qed.

Lemma py_sorted_perm xs ys : Permutation xs ys -> py_sorted xs = py_sorted ys.
Proof. apply sorter_perm_invariant, py_sorted_is_sorter. Qed.

(* -- validator.py Validator._validate_unknown_fields --
     unknown = document_fields - schema_fields            (a set: iteration order = an arbitrary permutation)
     REJECT -> [E007 record for f in sorted(unknown)] ; WARN -> [W001 ...] ; IGNORE -> []
   xs is the order in which the set happens to enumerate the document's field names. *)
Inductive unknown_policy := PReject | PWarn | PIgnore.
Record verror := { ve_code : str; ve_field : str; ve_path : str; ve_severity : str }.

Definition unknown_of (schema_fields xs : list str) : list str := filter (fun f => negb (str_in f schema_fields)) xs.

Definition report_unknown (p : unknown_policy) (section_key : str) (schema_fields xs : list str) : list verror :=
  let unknown := unknown_of schema_fields xs in
  match p with
  | PReject => map (fun f => {| ve_code := lit "E007"; ve_field := f; ve_path := section_key ++ [c_dot] ++ f; ve_severity := lit "error" |})
                   (py_sorted unknown)
  | PWarn => map (fun f => {| ve_code := lit "W001"; ve_field := f; ve_path := section_key ++ [c_dot] ++ f; ve_severity := lit "warning" |})
                 (py_sorted unknown)
  | PIgnore => []
  end.

Lemma filter_perm {A} (p : A -> bool) xs ys : Permutation xs ys -> Permutation (filter p xs) (filter p ys).
Proof.
  induction 1; cbn.
  - constructor.
  - destruct (p x); [apply perm_skip|]; assumption.
  - destruct (p x), (p y); try apply Permutation_refl; apply perm_swap.
  - eapply Permutation_trans; eassumption.
Qed.

Lemma unknown_fields_perm p k sf xs ys : Permutation xs ys -> report_unknown p k sf xs = report_unknown p k sf ys.
Proof.
  intro P. unfold report_unknown.
  rewrite (py_sorted_perm (unknown_of sf xs) (unknown_of sf ys)) by (apply filter_perm; exact P). reflexivity.
Qed.

(* -- write.py WriteTool._generate_diff --
     lost = original.section_markers - canonical.section_markers
     "W_STRUCT_001: section markers removed (" + ", ".join(sorted(lost)) + ")"
   the same shape serves ", ".join(sorted(VALID_PROFILES)) etc. *)
Definition set_minus (xs ys : list str) : list str := filter (fun x => negb (str_in x ys)) xs.

Definition struct_warning (orig canon : list str) : option str :=
  match set_minus orig canon with
  | [] => None
  | lost => Some (lit "W_STRUCT_001: section markers removed (" ++ join (lit ", ") (py_sorted lost) ++ lit ")")
  end.

Lemma str_in_perm x : forall ys ys', Permutation ys ys' -> str_in x ys = str_in x ys'.
Proof.
  induction 1; cbn; try congruence.
  - destruct (str_eqb x y), (str_eqb x x0); reflexivity.
Qed.

Lemma set_minus_perm xs xs' ys ys' : Permutation xs xs' -> Permutation ys ys' -> Permutation (set_minus xs ys) (set_minus xs' ys').
Proof.
  intros P Q. unfold set_minus.
  eapply Permutation_trans; [apply filter_perm; exact P|].
  erewrite filter_ext; [apply Permutation_refl|]. intro a. cbn. f_equal. apply str_in_perm; exact Q.
Qed.

Lemma struct_warning_perm o o' c c' : Permutation o o' -> Permutation c c' -> struct_warning o c = struct_warning o' c'.
Proof.
  intros P Q. unfold struct_warning.
  pose proof (set_minus_perm o o' c c' P Q) as R.
  destruct (set_minus o c) as [|a l] eqn:E1, (set_minus o' c') as [|a' l'] eqn:E2.
  - reflexivity.
  - apply Permutation_nil in R. discriminate.
  - apply Permutation_sym, Permutation_nil in R. discriminate.
  - rewrite (py_sorted_perm _ _ R). reflexivity.
Qed.

Definition joined_sorted (xs : list str) : str := join (lit ", ") (py_sorted xs).
Lemma joined_sorted_perm xs ys : Permutation xs ys -> joined_sorted xs = joined_sorted ys.
Proof. intro P. unfold joined_sorted. rewrite (py_sorted_perm _ _ P). reflexivity. Qed.

(* non-vacuity: two different enumeration orders, one report; and an unsorted join WOULD differ *)
Example report_unknown_example :
  report_unknown PReject (lit "S") [lit "A"] [lit "Z"; lit "A"; lit "B"] =
  report_unknown PReject (lit "S") [lit "A"] [lit "B"; lit "A"; lit "Z"] /\
  join (lit ", ") [lit "Z"; lit "B"] <> join (lit ", ") [lit "B"; lit "Z"].
Proof. split; [vm_compute; reflexivity|vm_compute; discriminate]. Qed.

(* ------------------------------------------------------------------------------------------------------------ *)
(** * 6. Schema lookup is a function of (name, first hit in the fixed search order) *)

(* A directory of the search order is (base, levels up, segments); base 0 is relative to the installed package
   (Path(__file__), independent of cwd), base 1 is relative to the current working directory.  The file system is
   an abstract function from (absolute directory, file name) to the text of the file. *)
Section Lookup.
  Variable fs : str -> list str -> str -> option str.   (* root directory -> segments below it -> file name -> text *)
  Variable pkg : N -> str.                              (* package directory `levels` above schemas/ : a constant of the installation *)

  Definition to_lower_chr (c : N) : N := if is_upper c then c + 32 else c.
  Definition file_names (name : str) : list str :=
    map (fun p : N * str => (if N.eqb (fst p) 1 then map to_lower_chr name else name) ++ snd p) schema_filename_patterns.

  Definition dir_root (cwd : str) (d : N * N * list str) : str :=
    let '(base, up, _) := d in if N.eqb base 0 then pkg up else cwd.

  Definition is_cwd_dir (d : N * N * list str) : bool := negb (N.eqb (fst (fst d)) 0).

  (* SCHEMA_NAME_PATTERN ^[A-Z][A-Z0-9_]*$ *)
  Definition valid_schema_name (name : str) : bool :=
    match name with
    | [] => false
    | c :: r => is_upper c && forallb (fun x => is_upper x || is_digit x || N.eqb x c_us) r
    end.

  Fixpoint first_some {A B} (f : A -> option B) (l : list A) : option B :=
    match l with [] => None | x :: l' => match f x with Some y => Some y | None => first_some f l' end end.

  Definition lookup_in (cwd : str) (name : str) (d : N * N * list str) : option str :=
    first_some (fun fn => fs (dir_root cwd d) (snd d) fn) (file_names name).

  Definition lookup_order (order : list (N * N * list str)) (cwd name : str) : option str :=
    if valid_schema_name name then first_some (lookup_in cwd name) order else None.

  Definition lookup := lookup_order schema_search_order.

  Lemma lookup_in_pkg cwd1 cwd2 name d : is_cwd_dir d = false -> lookup_in cwd1 name d = lookup_in cwd2 name d.
  Proof.
    destruct d as [[base up] segs]. unfold is_cwd_dir, lookup_in, dir_root. cbn [fst snd].
    intro H. apply negb_false_iff in H. rewrite H. reflexivity.
  Qed.

  (* general form: if the name is found in a package directory before any cwd-relative directory is reached, the
     result does not depend on cwd *)
  Fixpoint found_before_cwd (order : list (N * N * list str)) (name : str) : bool :=
    match order with
    | [] => false
    | d :: r => if is_cwd_dir d then false
                else match lookup_in [] name d with Some _ => true | None => found_before_cwd r name end
    end.

  Lemma lookup_order_cwd order name cwd1 cwd2 :
    found_before_cwd order name = true -> lookup_order order cwd1 name = lookup_order order cwd2 name.
  Proof.
    unfold lookup_order. destruct (valid_schema_name name); [|reflexivity].
    induction order as [|d r IH]; cbn [found_before_cwd first_some]; [discriminate|].
    destruct (is_cwd_dir d) eqn:E; [discriminate|].
    rewrite (lookup_in_pkg cwd1 [] name d E), (lookup_in_pkg cwd2 [] name d E).
    destruct (lookup_in [] name d); [reflexivity|exact IH].
  Qed.

  Lemma lookup_cwd name cwd1 cwd2 :
    found_before_cwd schema_search_order name = true -> lookup cwd1 name = lookup cwd2 name.
  Proof. apply lookup_order_cwd. Qed.

  (* second restriction: if no cwd-relative directory of either cwd holds the name, the result is the same *)
  Definition cwd_clean (order : list (N * N * list str)) (cwd name : str) : bool :=
    forallb (fun d => negb (is_cwd_dir d) || match lookup_in cwd name d with None => true | Some _ => false end) order.

  Lemma lookup_order_clean order name cwd1 cwd2 :
    cwd_clean order cwd1 name = true -> cwd_clean order cwd2 name = true ->
    lookup_order order cwd1 name = lookup_order order cwd2 name.
  Proof.
    unfold lookup_order. destruct (valid_schema_name name); [|reflexivity].
    induction order as [|d r IH]; cbn [cwd_clean forallb first_some]; [reflexivity|].
    intros H1 H2. apply andb_true_iff in H1 as [A1 B1]. apply andb_true_iff in H2 as [A2 B2].
    destruct (is_cwd_dir d) eqn:E; cbn [negb orb] in A1, A2.
    - destruct (lookup_in cwd1 name d); [discriminate|]. destruct (lookup_in cwd2 name d); [discriminate|].
      apply IH; assumption.
    - rewrite (lookup_in_pkg cwd1 cwd2 name d E). destruct (lookup_in cwd2 name d); [reflexivity|apply IH; assumption].
  Qed.

  Lemma lookup_clean name cwd1 cwd2 :
    cwd_clean schema_search_order cwd1 name = true -> cwd_clean schema_search_order cwd2 name = true ->
    lookup cwd1 name = lookup cwd2 name.
  Proof. apply lookup_order_clean. Qed.
End Lookup.

(* the search order the model (and the finding) was established against: a cwd-relative directory is searched
   BEFORE schemas/builtin of the package *)
Definition pinned_schema_search_order : list (N * N * list str) :=
  [(0, 1, [lit "resources"; lit "specs"; lit "schemas"]);
   (1, 0, [lit "src"; lit "octave_mcp"; lit "resources"; lit "specs"; lit "schemas"]);
   (1, 0, [lit "specs"; lit "schemas"]);
   (0, 0, [lit "builtin"])].
Lemma pin_schema_search_order : schema_search_order = pinned_schema_search_order.
Proof. vm_compute. reflexivity. Qed.
Lemma pin_schema_filename_patterns : schema_filename_patterns = [(1, lit ".oct.md"); (0, lit ".oct.md")].
Proof. vm_compute. reflexivity. Qed.

(* The full statement -- lookup never depends on cwd -- is FALSE of the faithful model: a concrete file system in
   which schemas/builtin/meta.oct.md of the package holds text "P" and <cwd2>/specs/schemas/meta.oct.md holds "Q". *)
Definition lookup_cwd_full : Prop :=
  forall fs pkg name cwd1 cwd2, lookup fs pkg cwd1 name = lookup fs pkg cwd2 name.

Definition witness_pkg (up : N) : str := if N.eqb up 0 then lit "/pkg/schemas" else lit "/pkg".
Definition witness_fs (root : str) (segs : list str) (fname : str) : option str :=
  if str_eqb fname (lit "meta.oct.md") then
    if str_eqb root (lit "/pkg/schemas") && str_eqb (join [c_slash] segs) (lit "builtin") then Some (lit "P")
    else if str_eqb root (lit "/work") && str_eqb (join [c_slash] segs) (lit "specs/schemas") then Some (lit "Q")
    else None
  else None.

Lemma lookup_cwd_refuted :
  exists fs pkg name cwd1 cwd2, lookup fs pkg cwd1 name <> lookup fs pkg cwd2 name.
Proof.
  exists witness_fs, witness_pkg, (lit "META"), (lit "/"), (lit "/work"). vm_compute. discriminate.
Qed.

Lemma lookup_cwd_full_false : ~ lookup_cwd_full.
Proof.
  intro H. destruct lookup_cwd_refuted as (fs & pkg & name & c1 & c2 & Hne). apply Hne, H.
Qed.

(* the hypotheses of the two restricted statements are satisfiable on non-trivial values *)
Definition example_fs (root : str) (segs : list str) (fname : str) : option str :=
  if str_eqb fname (lit "debate_transcript.oct.md") && str_eqb root (lit "/pkg") &&
     str_eqb (join [c_slash] segs) (lit "resources/specs/schemas") then Some (lit "T")
  else witness_fs root segs fname.

Example found_before_cwd_example :
  found_before_cwd example_fs witness_pkg schema_search_order (lit "DEBATE_TRANSCRIPT") = true /\
  lookup example_fs witness_pkg (lit "/work") (lit "DEBATE_TRANSCRIPT") = Some (lit "T").
Proof. vm_compute. split; reflexivity. Qed.

Example cwd_clean_example :
  cwd_clean example_fs witness_pkg schema_search_order (lit "/") (lit "META") = true /\
  cwd_clean example_fs witness_pkg schema_search_order (lit "/other") (lit "META") = true /\
  cwd_clean example_fs witness_pkg schema_search_order (lit "/work") (lit "META") = false /\
  lookup example_fs witness_pkg (lit "/other") (lit "META") = Some (lit "P").
Proof. vm_compute. repeat split; reflexivity. Qed.
