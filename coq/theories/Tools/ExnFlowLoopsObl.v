(* C20 -- obligations over the GENERATED parser-loop skeletons (Gen/ParserLoopsGen.v). *)
From OV Require Import Base.Strs Tools.ExnFlowLang Tools.ExnFlowLoops Gen.ParserLoopsGen Tools.ExnFlowPinsParser.
Open Scope N_scope.

(* methods whose call is ASSUMED to consume at least one token when the current token is not EOF
   (call_contract of ExnFlowLoops.v): parse_section, parse_list_item, parse_literal_zone *)
Definition consuming_calls : list str :=
  [ [112; 97; 114; 115; 101; 95; 115; 101; 99; 116; 105; 111; 110];
    [112; 97; 114; 115; 101; 95; 108; 105; 115; 116; 95; 105; 116; 101; 109];
    [112; 97; 114; 115; 101; 95; 108; 105; 116; 101; 114; 97; 108; 95; 122; 111; 110; 101] ].
Definition consuming (f : str) : bool := str_in f consuming_calls.
Definition no_call (f : str) : bool := false.

(* the syntactic obligation of the design: every path through every loop body reaches a consumer or leaves *)
Lemma parser_loops_consume : forallb loop_consumes parser_loops = true.
Proof. vm_compute. reflexivity. Qed.

(* EOF-aware progress with the call contract for the three methods above *)
Lemma parser_loops_ok : forallb (loop_ok consuming) parser_loops = true.
Proof. vm_compute. reflexivity. Qed.

(* loops whose progress needs NO assumption about any call: all but these four, named by their STABLE id
   "<method>#<ordinal of the while within the method>" (never by source line: lines move with every edit of parser.py):
     parse_document#0        the top-level loop of parse_document          (calls parse_section)
     parse_section_marker#1  the children loop of parse_section_marker     (calls parse_section)
     parse_section#0         the children loop of a block in parse_section (calls parse_section / parse_literal_zone)
     parse_list#0            the item loop of parse_list                   (calls parse_list_item) *)
Definition loops_needing_contract : list str :=
  [ [112; 97; 114; 115; 101; 95; 100; 111; 99; 117; 109; 101; 110; 116; 35; 48];   (* parse_document#0 *)
    [112; 97; 114; 115; 101; 95; 115; 101; 99; 116; 105; 111; 110; 95; 109; 97; 114; 107; 101; 114; 35; 49];   (* parse_section_marker#1 *)
    [112; 97; 114; 115; 101; 95; 115; 101; 99; 116; 105; 111; 110; 35; 48];   (* parse_section#0 *)
    [112; 97; 114; 115; 101; 95; 108; 105; 115; 116; 35; 48] ]. (* parse_list#0 *)
Lemma parser_loops_ok_without_calls :
  forallb (fun l => loop_ok no_call l || str_in (pl_id l) loops_needing_contract) parser_loops = true.
Proof. vm_compute. reflexivity. Qed.
(* the four ids name loops that exist, each exactly once, and every id of the list is unique: the exemption cannot
   silently go stale (a renamed method / a while added before one of them in its method breaks this) *)
Lemma loops_needing_contract_exist :
  forallb (fun i => Nat.eqb (length (filter (fun l => str_eqb (pl_id l) i) parser_loops)) 1) loops_needing_contract = true.
Proof. vm_compute. reflexivity. Qed.
Lemma parser_loop_ids_unique :
  forallb (fun l => Nat.eqb (length (filter (fun l' => str_eqb (pl_id l') (pl_id l)) parser_loops)) 1) parser_loops = true.
Proof. vm_compute. reflexivity. Qed.
(* ... and they really need it: without the contract each of the four fails the EOF-aware check (the list is minimal) *)
Lemma loops_needing_contract_minimal :
  forallb (fun l => negb (str_in (pl_id l) loops_needing_contract) || negb (loop_ok no_call l)) parser_loops = true.
Proof. vm_compute. reflexivity. Qed.

(* every `while` of class Parser is in the list: count pinned against the translator's own count (it fails
   closed when the number of ast.While nodes differs from the number of translated loops) *)
Lemma parser_loops_count : length parser_loops = 29%nat.
Proof. reflexivity. Qed.

Theorem parser_loop_progress l n pos r :
  In l parser_loops -> (pos < n)%nat ->
  cond_val (is_eof n pos) (pl_guard l) true -> exec_b consuming n (pl_body l) pos r ->
  match r with RExit => True | RFall p | RCont p => (pos < p)%nat /\ (p < n)%nat end.
Proof.
  intros Hin. apply loop_ok_sound. exact (proj1 (forallb_forall _ _) parser_loops_ok l Hin).
Qed.

Theorem parser_loop_progress_no_contract l n pos r :
  In l parser_loops -> ~ In (pl_id l) loops_needing_contract -> (pos < n)%nat ->
  cond_val (is_eof n pos) (pl_guard l) true -> exec_b no_call n (pl_body l) pos r ->
  match r with RExit => True | RFall p | RCont p => (pos < p)%nat /\ (p < n)%nat end.
Proof.
  intros Hin Hnot. apply loop_ok_sound.
  pose proof (proj1 (forallb_forall _ _) parser_loops_ok_without_calls l Hin) as H. cbn beta in H.
  apply orb_true_iff in H as [H|H]; [exact H|]. exfalso. apply Hnot.
  clear - H. induction loops_needing_contract as [|x r IH]; cbn in H; [discriminate|].
  apply orb_true_iff in H as [E|E]; [left; symmetry; apply str_eqb_eq; exact E|right; auto].
Qed.

Theorem parser_loop_terminates l n pos k :
  In l parser_loops -> (pos < n)%nat -> iter_chain consuming n l pos k -> (pos + k < n)%nat.
Proof. intros Hin. apply loop_terminates. exact (proj1 (forallb_forall _ _) parser_loops_ok l Hin). Qed.

(* bracket recursion depth never exceeds MAX_NESTING_DEPTH (the pinned constant of parser.py) *)
Theorem nesting_bounded evs :
  Forall (fun d => (d <= N.to_nat parser_max_nesting_depth)%nat) (nest_depths (N.to_nat parser_max_nesting_depth) 0 evs).
Proof. apply nesting_bounded_gen. rewrite pin_parser_max_nesting_depth. vm_compute. lia. Qed.

(* the model of the cursor and of parse_list's prologue was written against these source texts *)
Theorem parser_cursor_pins :
  parser_current_src = pinned_parser_current_src /\ parser_advance_src = pinned_parser_advance_src /\
  parser_expect_src = pinned_parser_expect_src /\
  parser_parse_list_prologue = pinned_parser_parse_list_prologue /\
  parser_check_deep_nesting_head = pinned_parser_check_deep_nesting_head /\
  parser_bracket_depth_writes = pinned_parser_bracket_depth_writes.
Proof.
  exact (conj pin_parser_current_src (conj pin_parser_advance_src (conj pin_parser_expect_src
        (conj pin_parser_parse_list_prologue (conj pin_parser_check_deep_nesting_head pin_parser_bracket_depth_writes))))).
Qed.

(* report for the harness (extracted): (stable id, line [diagnostic], method, syntactic check, EOF-aware check with the
   call contract, EOF-aware check with no assumption about calls, exempted by loops_needing_contract) *)
Definition report_loops : list (str * N * str * bool * bool * bool * bool) :=
  map (fun l => (pl_id l, pl_line l, pl_fn l, loop_consumes l, loop_ok consuming l, loop_ok no_call l,
                 str_in (pl_id l) loops_needing_contract)) parser_loops.
Definition report_max_nesting : N := parser_max_nesting_depth.
