(* C20 -- why the json.dumps site of EjectTool.execute is in ExnFlow.benign_sites (repair 88905cd).

   ExnFlow.eject_json_dumps_argument : the generated provenance says json.dumps#0 is applied to
                                       `_ast_to_dict(result.filtered_doc)` and is the only json.dumps of execute();
   eject_json_argument_native        : the model of _ast_to_dict (Proj/Convert.v, which CONSUMES the generated isinstance
                                       table of _convert_value, Gen/ProjectorGen.v; every case body is checked by the
                                       translator) returns dict / list / str / number / bool / None only, for EVERY
                                       document -- so json.dumps has nothing to refuse.
   A revert of 88905cd changes Gen/ProjectorGen.v (convert_value_classes loses 4 and 5), ProjFacts.v stops compiling and
   with it this file and Properties/C20.v.
   Proj is required WITHOUT import: its names (step, path, item, ...) clash with the lexer model used by C20.v. *)
From Coq Require Import NArith List.
From OV Require Proj.Ast Proj.Convert Proj.ProjFacts.

Theorem eject_json_argument_native :
  forall d : OV.Proj.Ast.doc, OV.Proj.Convert.native_dict (OV.Proj.Convert.ast_to_dict d) = true.
Proof. exact OV.Proj.ProjFacts.dict_native. Qed.

(* the statement is not vacuous: the same predicate is FALSE of the unrepaired CLI copy on a holographic value *)
Theorem native_detects_unconverted_object : forall r,
  OV.Proj.Convert.native_dict
    (OV.Proj.Convert.cli_ast_to_dict (OV.Proj.Ast.mk_doc (cons 68%N nil) nil
       (cons (OV.Rep.Ast.NAssign OV.Proj.ProjFacts.s_K (OV.Rep.Ast.VHolo r)) nil))) = false.
Proof. intro r. exact (proj1 (proj2 (OV.Proj.ProjFacts.cli_holo_not_exported r))). Qed.
