(* C20 -- data types consumed by the GENERATED files Gen/ParserLoopsGen.v and Gen/ExnFlowGen.v
   (harness/translate/exnflow_t.py).  No proofs here. *)
From OV Require Import Base.Strs.
Open Scope N_scope.

(* ---- skeleton of a `while` loop of class Parser ------------------------------------------------- *)
(* conditions: only what they say about the END of the token stream is kept *)
Inductive pcond :=
| PCur (has_eof : bool)      (* self.current().type ==/in S ; has_eof: EOF is a member of S *)
| PNot (c : pcond)
| PAnd (a b : pcond)
| POr (a b : pcond)
| PIdx                       (* VAR < len(self.tokens)  (index loops) *)
| POpaque.                   (* anything else *)

Inductive pstmt :=
| PAdv                       (* self.advance()   /  VAR += 1 in an index loop *)
| PExpect (eof : bool)       (* self.expect(TokenType.X) ; eof: X is EOF *)
| PCall (f : str)            (* call of another cursor-moving method *)
| PExit                      (* break / return / raise *)
| PCont                      (* continue *)
| PIf (c : pcond) (t e : pblock)
| PLoop (id : str)           (* nested while (has its own entry in the list), referenced by its stable id *)
with pblock :=
| BNil
| BCons (s : pstmt) (b : pblock).

(* pl_id = "<method>#<ordinal of the while within that method>": the ONLY key of a loop.  pl_line is the source line
   at translation time, carried for diagnostics/reports; no definition, lemma or harness code may key on it (it moves
   with every edit of parser.py above the loop). *)
Record ploop := mkLoop { pl_id : str; pl_line : N; pl_fn : str; pl_index : bool; pl_guard : pcond; pl_body : pblock }.

(* ---- exception coverage of a tool's execute() ---------------------------------------------------- *)
(* a call site: source line, callee (source text of the called expression), the classes caught by each
   enclosing `try` whose BODY contains the site, innermost first; s_ord = k-th occurrence of this callee in the function *)
Record site := mkSite { s_line : N; s_callee : str; s_ord : N; s_stack : list (list str) }.
