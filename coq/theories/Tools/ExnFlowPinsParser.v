(* PINS: the text/tables of /repo the hand-written model was written against. Generated once by harness/mkpins.py
   from ParserLoopsGen.v; committed. A source change that alters one of these breaks the pin (a proof obligation). *)
From OV Require Import Gen.ParserLoopsGen.
From Coq Require Import List NArith.
Import ListNotations.
Open Scope N_scope.

Definition pinned_parser_max_nesting_depth : N :=
  100.
Lemma pin_parser_max_nesting_depth : parser_max_nesting_depth = pinned_parser_max_nesting_depth.
Proof. reflexivity. Qed.

Definition pinned_parser_current_src : list N :=
  [105; 102; 32; 115; 101; 108; 102; 46; 112; 111; 115; 32; 62; 61; 32; 108; 101; 110; 40; 115; 101; 108; 102; 46; 116; 111; 107; 101; 110; 115; 41; 58; 10; 32; 32; 32; 32; 114; 101; 116; 117; 114; 110; 32; 115; 101; 108; 102; 46; 116; 111; 107; 101; 110; 115; 91; 45; 49; 93; 10; 114; 101; 116; 117; 114; 110; 32; 115; 101; 108; 102; 46; 116; 111; 107; 101; 110; 115; 91; 115; 101; 108; 102; 46; 112; 111; 115; 93]%N.
Lemma pin_parser_current_src : parser_current_src = pinned_parser_current_src.
Proof. reflexivity. Qed.

Definition pinned_parser_advance_src : list N :=
  [116; 111; 107; 101; 110; 32; 61; 32; 115; 101; 108; 102; 46; 99; 117; 114; 114; 101; 110; 116; 40; 41; 10; 105; 102; 32; 115; 101; 108; 102; 46; 112; 111; 115; 32; 60; 32; 108; 101; 110; 40; 115; 101; 108; 102; 46; 116; 111; 107; 101; 110; 115; 41; 32; 45; 32; 49; 58; 10; 32; 32; 32; 32; 115; 101; 108; 102; 46; 112; 111; 115; 32; 43; 61; 32; 49; 10; 114; 101; 116; 117; 114; 110; 32; 116; 111; 107; 101; 110]%N.
Lemma pin_parser_advance_src : parser_advance_src = pinned_parser_advance_src.
Proof. reflexivity. Qed.

Definition pinned_parser_expect_src : list N :=
  [116; 111; 107; 101; 110; 32; 61; 32; 115; 101; 108; 102; 46; 99; 117; 114; 114; 101; 110; 116; 40; 41; 10; 105; 102; 32; 116; 111; 107; 101; 110; 46; 116; 121; 112; 101; 32; 33; 61; 32; 116; 111; 107; 101; 110; 95; 116; 121; 112; 101; 58; 10; 32; 32; 32; 32; 114; 97; 105; 115; 101; 32; 80; 97; 114; 115; 101; 114; 69; 114; 114; 111; 114; 40; 102; 39; 69; 120; 112; 101; 99; 116; 101; 100; 32; 123; 116; 111; 107; 101; 110; 95; 116; 121; 112; 101; 125; 44; 32; 103; 111; 116; 32; 123; 116; 111; 107; 101; 110; 46; 116; 121; 112; 101; 125; 39; 44; 32; 116; 111; 107; 101; 110; 41; 10; 114; 101; 116; 117; 114; 110; 32; 115; 101; 108; 102; 46; 97; 100; 118; 97; 110; 99; 101; 40; 41]%N.
Lemma pin_parser_expect_src : parser_expect_src = pinned_parser_expect_src.
Proof. reflexivity. Qed.

Definition pinned_parser_parse_list_prologue : list (list N) :=
  [[115; 101; 108; 102; 46; 101; 120; 112; 101; 99; 116; 40; 84; 111; 107; 101; 110; 84; 121; 112; 101; 46; 76; 73; 83; 84; 95; 83; 84; 65; 82; 84; 41]%N;
   [115; 101; 108; 102; 46; 98; 114; 97; 99; 107; 101; 116; 95; 100; 101; 112; 116; 104; 32; 43; 61; 32; 49]%N;
   [115; 101; 108; 102; 46; 95; 99; 104; 101; 99; 107; 95; 100; 101; 101; 112; 95; 110; 101; 115; 116; 105; 110; 103; 40; 98; 114; 97; 99; 107; 101; 116; 95; 116; 111; 107; 101; 110; 41]%N].
Lemma pin_parser_parse_list_prologue : parser_parse_list_prologue = pinned_parser_parse_list_prologue.
Proof. reflexivity. Qed.

Definition pinned_parser_check_deep_nesting_head : list (list N) :=
  [[100; 101; 112; 116; 104; 32; 61; 32; 115; 101; 108; 102; 46; 98; 114; 97; 99; 107; 101; 116; 95; 100; 101; 112; 116; 104]%N;
   [105; 102; 32; 100; 101; 112; 116; 104; 32; 62; 61; 32; 77; 65; 88; 95; 78; 69; 83; 84; 73; 78; 71; 95; 68; 69; 80; 84; 72; 58; 32; 82; 97; 105; 115; 101; 32; 80; 97; 114; 115; 101; 114; 69; 114; 114; 111; 114]%N].
Lemma pin_parser_check_deep_nesting_head : parser_check_deep_nesting_head = pinned_parser_check_deep_nesting_head.
Proof. reflexivity. Qed.

Definition pinned_parser_bracket_depth_writes : list (list N) :=
  [[95; 95; 105; 110; 105; 116; 95; 95; 58; 32; 115; 101; 108; 102; 46; 98; 114; 97; 99; 107; 101; 116; 95; 100; 101; 112; 116; 104; 32; 61; 32; 48]%N;
   [112; 97; 114; 115; 101; 95; 108; 105; 115; 116; 58; 32; 115; 101; 108; 102; 46; 98; 114; 97; 99; 107; 101; 116; 95; 100; 101; 112; 116; 104; 32; 43; 61; 32; 49]%N;
   [112; 97; 114; 115; 101; 95; 108; 105; 115; 116; 58; 32; 115; 101; 108; 102; 46; 98; 114; 97; 99; 107; 101; 116; 95; 100; 101; 112; 116; 104; 32; 45; 61; 32; 49]%N;
   [112; 97; 114; 115; 101; 95; 108; 105; 115; 116; 58; 32; 115; 101; 108; 102; 46; 98; 114; 97; 99; 107; 101; 116; 95; 100; 101; 112; 116; 104; 32; 45; 61; 32; 49]%N;
   [112; 97; 114; 115; 101; 95; 108; 105; 115; 116; 58; 32; 115; 101; 108; 102; 46; 98; 114; 97; 99; 107; 101; 116; 95; 100; 101; 112; 116; 104; 32; 45; 61; 32; 49]%N].
Lemma pin_parser_bracket_depth_writes : parser_bracket_depth_writes = pinned_parser_bracket_depth_writes.
Proof. reflexivity. Qed.
