(* Extraction of the file-system / write-protocol model -- ExtrOcamlBasic only. *)
From OV Require Import Base.Strs Fs.Fs Fs.ProtoSyntax Fs.WriteProto Fs.Cas Fs.Interleave.
Require Import ExtrOcamlBasic.

Fixpoint tbl_get (t : list (str * str)) (s : str) : option str :=
  match t with [] => None | (k, v) :: r => if str_eqb k s then Some v else tbl_get r s end.
(* SHA-256 is an oracle: the harness supplies the digests of the texts of the case; unknown text -> tagged copy *)
Definition H_of (t : list (str * str)) (s : str) : str := match tbl_get t s with Some h => h | None => 0%N :: s end.
Definition ostr_eqb (a b : option str) : bool :=
  match a, b with None, None => true | Some x, Some y => str_eqb x y | _, _ => false end.
Fixpoint pipe_of (t : list (option str * option str)) (b : option str) : option str :=
  match t with [] => None | (k, v) :: r => if ostr_eqb k b then v else pipe_of r b end.
Fixpoint faults_of (t : list (nat * fault)) (k : nat) : fault :=
  match t with [] => FOk | (i, f) :: r => if Nat.eqb i k then f else faults_of r k end.
Fixpoint orc_of (t : list (nat * nat)) (k : nat) : nat :=
  match t with [] => O | (i, n) :: r => if Nat.eqb i k then n else orc_of r k end.

Definition run_case (ht : list (str * str)) (target parent tmp : str) (chain : list str) (base : option str)
    (pt : list (option str * option str)) (dry : bool) (nval : nat) (ft : list (nat * fault)) (ot : list (nat * nat))
    (p : proto_id) (s0 : fs) : pst * outcome :=
  run (H_of ht) (Build_env target parent chain tmp base (pipe_of pt) dry nval (faults_of ft) (orc_of ot)) p s0.

Definition hist_impl (ht : list (str * str)) (target parent tmp : str) (chain : list str) (nval : nat)
    (s : fs) (h : list hop) : fs * list hres :=
  run_impl (H_of ht) target parent tmp chain nval (fun _ => O) s h.
Definition hist_spec (ht : list (str * str)) (cur : option str) (h : list hop) : option str * list hres :=
  run_spec (H_of ht) cur h.

Definition sched_case (sch : list bool) : bool * bool * str :=
  (both_succeed (run6 sch), in_window sch, s_file (run6 sch)).
Definition all_merges : list (list bool) := merges 6 6.

Extraction "../ocaml/gen/fsw.ml" extract_anchor run_case hist_impl hist_spec sched_case all_merges witness_sched
  lookup fs_read errno_code pipe_of.
