(* Extraction of the sealer model (C15) -- ExtrOcamlBasic only.  The SHA-256 oracle is a per-case table text -> digest
   computed by the harness with hashlib; a text missing from the table maps to "!" (the driver checks membership first). *)
From OV Require Import Base.Strs Syn.Ast Syn.Emitter Seal.Seal Seal.SealFacts.
Require Import ExtrOcamlBasic.

Fixpoint oracle_tbl (t : list (str * str)) (x : str) : str :=
  match t with [] => [33%N] | (k, v) :: r => if str_eqb k x then v else oracle_tbl r x end.
Definition oracle_has (t : list (str * str)) (x : str) : bool := existsb (fun p => str_eqb (fst p) x) t.

Definition body_text (sp : N -> bool) (d : doc) : str := body_text_m sp d.
Definition seal_tbl (t : list (str * str)) (sp : N -> bool) (d : doc) : doc := seal_document_m (oracle_tbl t) sp d.
Definition verify_tbl (t : list (str * str)) (sp : N -> bool) (d : doc) : seal_status := verify_seal_m (oracle_tbl t) sp d.

Extraction "../ocaml/gen/seal.ml" extract_anchor body_text seal_tbl verify_tbl oracle_has stored_hash_of seal_count
  status_code status_of_code cli_exit hexdigest_shape remove_seal.
