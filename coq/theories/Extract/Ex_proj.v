(* Extraction of the projection / conversion model (C14) -- ExtrOcamlBasic only. *)
From OV Require Import Proj.Ast Proj.Projector Proj.Convert Proj.ProjFacts.
Require Import ExtrOcamlBasic.

(* no str(HolographicValue) oracle any more (repair 88905cd): the markdown model is closed *)
Definition md_pairs_doc (d : doc) : list (str * str) := md_pairs (md_struct d).

Extraction "../ocaml/gen/proj.ml" extract_anchor project ast_to_dict cli_ast_to_dict markdown md_pairs_doc
  items_doc items_dict wf_doc native_dict read_dec Z_to_dec filter_fields.
