(* Extraction of the projection / conversion model (C14) -- ExtrOcamlBasic only. *)
From OV Require Import Proj.Ast Proj.Projector Proj.Convert Proj.ProjFacts.
Require Import ExtrOcamlBasic.

(* str(HolographicValue) oracle as a table; a missing entry falls back to the raw pattern *)
Fixpoint holo_tbl (t : list (str * str)) (raw : str) : str :=
  match t with [] => raw | (k, v) :: r => if str_eqb k raw then v else holo_tbl r raw end.
Definition markdown_tbl (t : list (str * str)) (d : doc) : str := markdown (holo_tbl t) d.
Definition md_pairs_tbl (t : list (str * str)) (d : doc) : list (str * str) := md_pairs (md_struct (holo_tbl t) d).

Extraction "../ocaml/gen/proj.ml" extract_anchor project ast_to_dict cli_ast_to_dict markdown_tbl md_pairs_tbl
  items_doc items_dict wf_doc read_dec Z_to_dec filter_fields.
