(* Extraction of the C20 flow model (exception coverage of the tools, parser-loop checks) -- ExtrOcamlBasic only. *)
From OV Require Import Base.Strs Tools.ExnFlowLang Tools.ExnFlowLoops Tools.ExnFlowLoopsObl Tools.ExnFlow.
Require Import ExtrOcamlBasic.

Extraction "../ocaml/gen/flow.ml" extract_anchor report_escapes report_sites report_total report_raising report_benign report_known
  report_loops report_max_nesting consuming_calls.
