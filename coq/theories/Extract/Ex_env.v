(* Extraction of the C10 envelope model (table-driven decision functions of the four tools and the two CLI
   commands) -- ExtrOcamlBasic only. *)
From OV Require Import Base.Strs Tools.EnvelopeSyntax Gen.StatusGen Tools.Envelope.
Require Import ExtrOcamlBasic.

Extraction "../ocaml/gen/env.ml" extract_anchor validate_env write_env eject_env grammar_env cli_validate_env cli_write_env
  mk_vfacts mk_wfacts mk_efacts mk_gfacts mk_cvfacts mk_cwfacts status_builtin_dict_schemas.
