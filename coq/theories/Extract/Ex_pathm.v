(* Extraction of the path / file-system model of C19 -- ExtrOcamlBasic only. *)
From OV Require Import Base.Strs Path.FsTree Path.Realpath Path.PyRealpath Path.PathCheck.
Require Import ExtrOcamlBasic.

(* the SHA-256 oracle is passed as a finite table (bytes, hex digest) computed by the harness *)
Definition table_H (tbl : list (str * str)) (b : str) : str :=
  match find (fun p => str_eqb (fst p) b) tbl with Some p => snd p | None => [] end.
Definition resolve_frozen_tbl (tbl : list (str * str)) := resolve_frozen (table_H tbl).

Extraction "../ocaml/gen/pathm.ml" extract_anchor mk_fs validate_write validate_validate validate_fileops resolve abs_tail
  p_exists p_is_symlink p_lstat_link p_is_dir late_recheck_write late_recheck_fileops name_ok schema_files schema_candidate parse_frozen frozen_file resolve_frozen_tbl
  validate_uri_src uri_complete_src stale_uri_src realpath rp_fuel has_nul pparse pname suffix suffixes compound_suffix ext_ok trace_write.
