(* Extraction of the GBNF model (recogniser, wf, compiler, safe_schema clauses, derivation enumerator,
   value reader and constraint verdicts) -- ExtrOcamlBasic only. *)
From OV Require Import Base.Strs Lex.Lexer Gbnf.Syntax Gbnf.Compiler Gbnf.Safe Gbnf.Derive Gbnf.Read.
Require Import ExtrOcamlBasic.

Definition cls_of (tbl : list (N * N)) (c : N) : N :=
  match find (fun p => N.eqb (fst p) c) tbl with Some p => snd p | None => 0%N end.
Definition read_value_tbl (tbl : list (N * N)) (w : str) : rval := read_value (cls_of tbl) w.

Extraction "../ocaml/gen/gbnf.ml" extract_anchor gbnf_parse_g wf_text_code_g defs grammar_refs
  sanitize_rule_name escape_literal compile_regex compile_chain compile_schema parse_contract_spec
  schema_clauses safe_schema gbnf_literal field_value_alts enum_alts read_value_tbl accepts
  one_line envelope_doc_name doc_schema_name meta_schema_name.
