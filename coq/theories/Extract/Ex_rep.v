(* Extraction of the repair model (C11) -- ExtrOcamlBasic only. *)
From OV Require Import Base.Strs Rep.Ast Rep.Repair Rep.RepairFacts.
Require Import ExtrOcamlBasic.

Extraction "../ocaml/gen/rep.ml" extract_anchor repair_tbl repair_surface_tbl surface_flag Z_to_dec read_dec enum_eval lower strip use_int
  simple_schema settled_n zero_text nonzero_mantissa mantissa dig_find tbl_float_consistent tbl_int_zero_ok ascii_str.
