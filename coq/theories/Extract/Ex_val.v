(* Extraction of the validation-pipeline model of C09 (Val/ToPy.v) -- ExtrOcamlBasic only. *)
From OV Require Import Base.Strs Cst.Lits Cst.PyVal Cst.Constraints Cst.Chain Cst.Validator Syn.Ast Syn.Emitter Val.ToPy.
Require Import ExtrOcamlBasic.

Extraction "../ocaml/gen/val.ml" extract_anchor to_py verdict validator_errors write_verdict cli_verdict builtin_lookup
  builtin_meta active_def has_schema erase_doc bt_dict target_names.
