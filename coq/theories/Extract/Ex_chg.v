(* Extraction of the changes / Absent model (C18) -- ExtrOcamlBasic only. *)
From OV Require Import Base.Strs Syn.Ast Syn.Emitter Chg.Changes.
Require Import ExtrOcamlBasic.

Extraction "../ocaml/gen/chg.ml" extract_anchor apply_changes apply_mutations execute_changes apply_seq cli_apply_changes
  drop_absent doc_absent_free meta_all_absent is_delete_sentinel norm_value top_keys untouched meta_named routes_top
  top_last request_meta_ops mop_last emit emit_value.
