(* Extraction of the syntax-layer model (lexer, escape, quoting, ...) -- ExtrOcamlBasic only. *)
From OV Require Import Base.Strs Syn.Escape Syn.Quote Syn.Ast Syn.Emitter Lex.Lexer Syn.Parser Syn.Wf Syn.StrictProfile Rt.TokRound Rt.TokRoundEx Rt.LexLink Rt.StrictEmit Rt.TokRound2 Rt.TokRound2Ex Rt.LexLink2Text.
From OV Require Rt.BareWordParse Rt.BareWord Rt.TokRound4 Rt.TokRound4Ex Rt.LexLink4 Rt.TokRoundZ Rt.TokRoundZEx Rt.LexLinkZText Rt.TokRoundT Rt.TokRoundTEx Rt.LexLinkTH4 Rt.LexLinkTH5.
Require Import ExtrOcamlBasic.

Definition cls_of (tbl : list (N * N)) (c : N) : N :=
  match find (fun p => N.eqb (fst p) c) tbl with Some p => snd p | None => 0%N end.
Definition tokenize_tbl (lenient : bool) (tbl : list (N * N)) (lines : list (str * str)) : lexres :=
  tokenize (cls_of tbl) lenient lines.

Definition numcanon_of (tbl : list (str * (bool * str))) (raw : str) : option (bool * str) :=
  match find (fun p => str_eqb (fst p) raw) tbl with Some p => Some (snd p) | None => None end.
Definition parse_tbl (strict : bool) (cls : list (N * N)) (nums : list (str * (bool * str))) (holos : list str)
           (lines : list (str * str)) : parse_result :=
  parse_model (cls_of cls) (numcanon_of nums) (fun raw => str_in raw holos) strict lines.

Definition core_shape_tbl (tbl : list (N * N)) (d : doc) (lines : list (str * str)) : N :=
  core_shape_check (cls_of tbl) d lines.

(* membership in the domains of the text-level theorems: bit0 core_doc, bit1 lex_safe_doc, bit2 strict_safe_doc,
   bit3 core2_doc, bit4 lex_safe2_doc, bit5 lex_safe3_doc (core3_doc = core2_doc) *)
Definition theorem_domains (d : doc) : N :=
  ((if core_doc d then 1 else 0) + (if lex_safe_doc d then 2 else 0) + (if strict_safe_doc d then 4 else 0) +
   (if core2_doc d then 8 else 0) + (if lex_safe2_doc d then 16 else 0) +
   (if BareWord.lex_safe3_doc d then 32 else 0))%N.

Definition core2_shape_tbl (tbl : list (N * N)) (d : doc) (lines : list (str * str)) : N :=
  core2_shape_check (cls_of tbl) d lines.

(* executable form of the conclusion of lex_emit_core3 (0 not core3, 1 shape ok, 2 mismatch / repair, 3 lexer error) *)
Definition core3_shape_tbl (tbl : list (N * N)) (d : doc) (lines : list (str * str)) : N :=
  if BareWordParse.core3_doc d then
    match tokenize (cls_of tbl) false lines with
    | LexOk toks reps =>
        if all2 tmatchb toks (BareWordParse.doc3_sh needs_multiline ex_idnum BareWord.qa_emit BareWord.qi_emit d
                              ++ [(NEWLINE, None); (EOF, None)]) && is_nil reps then 1 else 2
    | _ => 3
    end
  else 0.

(* executable hypothesis of C02_core4_shape_check_sound; bit6 of theorem_domains4 = core4_doc *)
Definition core4_shape_tbl (tbl : list (N * N)) (d : doc) (lines : list (str * str)) : N :=
  TokRound4Ex.core4_shape_check (cls_of tbl) d lines.
Definition is_core4 (d : doc) : bool := TokRound4.core4_doc d.
(* domain of C02_text_roundtrip_core4 / C02_shape_check_core4_complete *)
Definition in_core4_domain (d : doc) : bool := TokRound4.core4_doc d && LexLink4.lex_safe4_doc d.

(* executable hypothesis of C05_corez_shape_check_sound *)
Definition corez_shape_tbl (tbl : list (N * N)) (d : doc) (lines : list (str * str)) : N :=
  TokRoundZEx.corez_shape_check (cls_of tbl) d lines.
Definition is_corez (d : doc) : bool := TokRoundZ.corez_doc d.
(* domain of C05_text_roundtrip_corez / C05_shape_check_corez_complete *)
Definition in_corez_domain (tbl : list (N * N)) (d : doc) : bool := TokRoundZ.corez_doc d && LexLinkZText.lex_safez_doc (cls_of tbl) d.

(* executable hypothesis of the checked composition for coret (block targets, holographic values): 0 outside the fragment or a
   holographic site outside the proved class, 1 shape ok, 2 mismatch, 3 lexer error *)
Definition coret_shape_tbl (tbl : list (N * N)) (nums : list (str * (bool * str))) (holos : list str) (d : doc) (lines : list (str * str)) : N :=
  TokRoundTEx.coret_shape_check (cls_of tbl) (numcanon_of nums) (fun raw => str_in raw holos) d lines.
Definition is_coret (d : doc) : bool := TokRoundT.coret_doc d.
(* domain of C02_text_roundtrip_holographic_element_chains (coreth5 includes coreth4; text level, lexer half closed): the union class of holographic frames with the
   textual shape oracle hsh_cls4 and the boolean clauses on the character-class table *)
Definition in_coreth4_domain (tbl : list (N * N)) (d : doc) : bool :=
  LexLinkTH5.coreth5_doc d && LexLinkTH5.lex_safeth5_doc (cls_of tbl) LexLinkTH5.hsh_cls5 d.

Extraction "../ocaml/gen/syn.ml" extract_anchor tokenize_tbl tkind_code escape unescape escape_opt unescape_opt escape_safe
  needs_quotes emit_str always_quote_key match_identifier match_annotation match_expression match_variable reserved_prefix scalar_class
  emit emit_value parse_tbl doc_clauses strict_profile core_shape_tbl theorem_domains core2_shape_tbl core3_shape_tbl core4_shape_tbl is_core4 in_core4_domain corez_shape_tbl is_corez in_corez_domain coret_shape_tbl is_coret in_coreth4_domain.
