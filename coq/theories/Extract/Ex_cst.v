(* Extraction of the constraint / chain / validator model -- ExtrOcamlBasic only. *)
From OV Require Import Base.Strs Cst.Lits Cst.PyVal Cst.Constraints Cst.Chain Cst.Spec Cst.Validator Cst.ChainParse.
Require Import ExtrOcamlBasic.

Extraction "../ocaml/gen/cst.ml" extract_anchor eval chain_eval conflicts has_conflict validate_section
  tool_invalid atom_str py_str date_shape real_date classify_part split_parts_and atom_eqb num_value fl_leb.
