(* Faithful model of octave_mcp.core.sealer over the neutral document AST (Syn.Ast).

   Oracles (never axioms):  H : str -> str   hashlib.sha256(text.encode("utf-8")).hexdigest()
                            E : doc -> str   octave_mcp.core.emitter.emit (instantiated with Syn.Emitter.emit sp below;
                                             the facts are proved for EVERY E, so they do not depend on emitter internals)
   The literal field names, section id/key, strip characters and the SealStatus returned by each branch are CONSUMED
   from Gen/SealGen.v (regenerated from sealer.py on every run); what the hand-written part relies on is re-established
   from those constants in SealFacts.v (`seal_children_shape`, `keys_agree`, `status_codes`).

   Faithful points (all reproduced, see docs/design_C15.md):
   - a SEAL section is ANY top-level Section node whose *key* is "SEAL" (the section id is not looked at; a Block named
     SEAL is not a seal); _remove_seal_section drops ALL of them, extract_seal reads the FIRST one;
   - extract_seal collects only the Assignment children, dict semantics (a later duplicate key wins; nested blocks and
     comments are ignored); an empty dict is reported as "no seal" (even if a later SEAL section exists);
   - verify_seal: missing HASH -> "" ; a str is stripped of leading/trailing double-quote characters; a non-str never equals the digest;
   - both Document(...) constructions omit trailing_comments: the hashed text and the sealed document carry none;
   - the new section is appended after all remaining sections; GRAMMAR is added when grammar_version is not None
     (an empty string counts). *)
From OV Require Import Base.Strs Syn.Ast Syn.Emitter Gen.SealGen.
Open Scope N_scope.

Inductive seal_status := VERIFIED | INVALID | NO_SEAL.

Definition status_of_code (c : N) : seal_status :=
  match c with 1 => VERIFIED | 2 => INVALID | _ => NO_SEAL end.
Definition status_code (s : seal_status) : N :=
  match s with VERIFIED => 1 | INVALID => 2 | NO_SEAL => 3 end.

(* Python str.strip(chars): remove leading and trailing characters that belong to `chars` *)
Definition lstrip_set (chars : str) (s : str) : str := dropb (fun c => memb c chars) s.
Definition rstrip_set (chars : str) (s : str) : str := rev (dropb (fun c => memb c chars) (rev s)).
Definition strip_set (chars : str) (s : str) : str := rstrip_set chars (lstrip_set chars s).

Fixpoint dict_get {A} (d : list (str * A)) (k : str) : option A :=
  match d with
  | [] => None
  | (k', v) :: d' => if str_eqb k' k then Some v else dict_get d' k
  end.

(* `isinstance(s, Section) and s.key == <key>` *)
Definition is_section_keyed (key : str) (n : node) : bool :=
  match n with NSection _ k _ _ _ => str_eqb k key | _ => false end.

(* _remove_seal_section: the keyword set of Document(...) has no trailing_comments -> default [] *)
Definition remove_seal (d : doc) : doc :=
  mkDoc (dname d) (dgrammar d) (dfront d) (dsep d) (dmeta d)
        (filter (fun n => negb (is_section_keyed seal_remove_key n)) (dsections d)) [].

(* len(content.split("\n")) *)
Definition line_count (content : str) : N := N.of_nat (length (split_on c_nl content)).

Definition field_text (content hash : str) (spec : N * str * str) : str :=
  let '(kind, pre, suf) := spec in
  match kind with
  | 0 => pre
  | 1 => pre ++ N_to_dec (line_count content) ++ suf
  | _ => pre ++ hash ++ suf
  end.

Section Sealer.
  Variable H : str -> str.
  Variable E : doc -> str.

  (* compute_seal(content, grammar_version) -> insertion-ordered dict of strings *)
  Definition compute_seal (content : str) (grammar : option str) : list (str * str) :=
    let base := fold_left (fun acc f => dict_set acc (fst f) (field_text content (H content) (snd f))) seal_compute_fields [] in
    match grammar with
    | Some g => dict_set base seal_compute_optional g
    | None => base
    end.

  (* seal_data[k] (a KeyError cannot happen on the generated tables: SealFacts.seal_lookups_total) *)
  Definition sd_get (sd : list (str * str)) (k : str) : str :=
    match dict_get sd k with Some v => v | None => [] end.

  Definition seal_children (sd : list (str * str)) : list node :=
    map (fun f => NAssign (fst f) (VStr (strip_set (snd (snd f)) (sd_get sd (fst (snd f))))) [] None) seal_child_fields ++
    (match dict_get sd (fst seal_child_optional) with
     | Some _ => [NAssign (fst (snd seal_child_optional)) (VStr (sd_get sd (snd (snd seal_child_optional)))) [] None]
     | None => []
     end).

  Definition seal_section_of (d : doc) : node :=
    let body := remove_seal d in
    NSection seal_new_id seal_new_key None (seal_children (compute_seal (E body) (dgrammar d))) [].

  Definition seal_document (d : doc) : doc :=
    mkDoc (dname d) (dgrammar d) (dfront d) (dsep d) (dmeta d)
          (dsections (remove_seal d) ++ [seal_section_of d]) [].

  (* the inner loop of extract_seal: seal_data[child.key] = child.value for Assignment children *)
  Fixpoint seal_fields (children : list node) (acc : list (str * value)) : list (str * value) :=
    match children with
    | [] => acc
    | NAssign k v _ _ :: r => seal_fields r (dict_set acc k v)
    | _ :: r => seal_fields r acc
    end.

  Definition extract_seal (d : doc) : option (list (str * value)) :=
    match find (is_section_keyed seal_extract_key) (dsections d) with
    | Some (NSection _ _ _ ch _) => match seal_fields ch [] with [] => None | sd => Some sd end
    | _ => None
    end.

  (* stored_hash = seal_data.get("HASH", ""); stripped when it is a str.  None = not a str (never equal to a digest) *)
  Definition stored_hash (sd : list (str * value)) : option str :=
    match dict_get sd seal_verify_key with
    | None => Some (strip_set seal_verify_strip seal_verify_default)
    | Some (VStr s) => Some (strip_set seal_verify_strip s)
    | Some _ => None
    end.

  Definition verify_seal (d : doc) : seal_status :=
    match extract_seal d with
    | None => status_of_code seal_status_missing
    | Some sd =>
        let computed := H (E (remove_seal d)) in
        match stored_hash sd with
        | Some s => if str_eqb computed s then status_of_code seal_status_equal else status_of_code seal_status_differs
        | None => status_of_code seal_status_differs
        end
    end.

  (* what verify_seal reports as actual_hash (for the correspondence check): the normalised stored hash *)
  Definition stored_hash_of (d : doc) : option (option str) :=
    match extract_seal d with None => None | Some sd => Some (stored_hash sd) end.
End Sealer.

(* number of top-level sections that the sealer treats as a seal *)
Definition seal_count (d : doc) : nat := length (filter (is_section_keyed seal_remove_key) (dsections d)).

(* `octave validate --verify-seal [--require-seal]`: exit status contributed by the seal check *)
Definition cli_exit (status : seal_status) (require : bool) : N :=
  if existsb (fun r => N.eqb (fst r) (status_code status) && (negb (snd r) || require)) seal_cli_exit_rules then 1 else 0.

(* instances with the emitter model *)
Definition seal_document_m (H : str -> str) (sp : N -> bool) : doc -> doc := seal_document H (emit sp).
Definition verify_seal_m (H : str -> str) (sp : N -> bool) : doc -> seal_status := verify_seal H (emit sp).
Definition body_text_m (sp : N -> bool) (d : doc) : str := emit sp (remove_seal d).
