(* Proofs about the sealer model (Seal/Seal.v).  Everything is proved for an ARBITRARY emitter E and hash oracle H
   (section variables), by structural reasoning on documents; the instances for Syn.Emitter.emit are at the end. *)
From OV Require Import Base.Strs Syn.Ast Syn.Emitter Gen.SealGen Seal.Seal.
Require Coq.Strings.String.
Import Coq.Strings.String.StringSyntax.
Open Scope N_scope.

(* ---------------------------------------------------------------------------------------------------------- *)
(* what the hand-written proofs need from the generated tables (re-checked on every run)                         *)
Lemma keys_agree : seal_extract_key = seal_remove_key /\ str_eqb seal_new_key seal_remove_key = true.
Proof. split; reflexivity. Qed.

Lemma status_codes :
  status_of_code seal_status_missing = NO_SEAL /\ status_of_code seal_status_equal = VERIFIED /\
  status_of_code seal_status_differs = INVALID.
Proof. repeat split; reflexivity. Qed.

(* every seal_data[...] lookup of seal_document hits a key that compute_seal always sets *)
Lemma seal_lookups_total :
  forallb (fun f => existsb (fun c => str_eqb (fst c) (fst (snd f))) seal_compute_fields) seal_child_fields = true /\
  str_eqb (fst seal_child_optional) seal_compute_optional = true /\
  str_eqb (snd (snd seal_child_optional)) seal_compute_optional = true.
Proof. repeat split; reflexivity. Qed.

(* ---------------------------------------------------------------------------------------------------------- *)
(* str.strip                                                                                                     *)
Lemma dropb_all p s : forallb p s = true -> dropb p s = [].
Proof. induction s as [|x s IH]; cbn; [reflexivity|]. destruct (p x); cbn; [exact IH|discriminate]. Qed.

Lemma dropb_app p a b : dropb p (a ++ b) = if forallb p a then dropb p b else dropb p a ++ b.
Proof.
  induction a as [|x a IH]; cbn; [reflexivity|].
  destruct (p x); cbn; [exact IH|reflexivity].
Qed.

Lemma rstrip_snoc chars x q : memb q chars = true -> rstrip_set chars (x ++ [q]) = rstrip_set chars x.
Proof. intro Hq. unfold rstrip_set. rewrite rev_app_distr. cbn. rewrite Hq. reflexivity. Qed.

Lemma strip_wrap chars q h : memb q chars = true -> strip_set chars (q :: h ++ [q]) = strip_set chars h.
Proof.
  intro Hq. unfold strip_set, lstrip_set. cbn [dropb]. rewrite Hq. rewrite dropb_app.
  destruct (forallb (fun c => memb c chars) h) eqn:Hall.
  - cbn [dropb]. rewrite Hq. rewrite (dropb_all _ _ Hall). reflexivity.
  - apply rstrip_snoc; exact Hq.
Qed.

Lemma dropb_none p s : forallb (fun c => negb (p c)) s = true -> dropb p s = s.
Proof. destruct s as [|x s]; cbn; [reflexivity|]. destruct (p x); cbn; [discriminate|reflexivity]. Qed.

Lemma forallb_rev {A} (p : A -> bool) l : forallb p (rev l) = forallb p l.
Proof.
  induction l as [|x l IH]; cbn; [reflexivity|].
  rewrite forallb_app, IH. cbn. rewrite andb_true_r. apply andb_comm.
Qed.

(* a string none of whose characters is stripped is a fixed point (true of every hexdigest) *)
Lemma strip_clean chars h : forallb (fun c => negb (memb c chars)) h = true -> strip_set chars h = h.
Proof.
  intro Hc. unfold strip_set, lstrip_set, rstrip_set.
  rewrite (dropb_none (fun c => memb c chars) h Hc).
  rewrite dropb_none by (rewrite forallb_rev; exact Hc).
  apply rev_involutive.
Qed.

Lemma strip_nil_chars s : strip_set [] s = s.
Proof. apply strip_clean. induction s; cbn; auto. Qed.

Definition is_hex (c : N) : bool := is_digit c || ((97 <=? c) && (c <=? 102)).
Definition hexdigest_shape (h : str) : bool := forallb is_hex h && Nat.eqb (length h) 64.

Lemma hex_not_stripped c : is_hex c = true -> memb c seal_verify_strip = false.
Proof.
  unfold is_hex, is_digit. intro Hc. cbn. rewrite orb_false_r.
  apply N.eqb_neq. intro; subst c. vm_compute in Hc. discriminate.
Qed.

Lemma hexdigest_strip_fixed h : hexdigest_shape h = true -> strip_set seal_verify_strip h = h.
Proof.
  unfold hexdigest_shape. intro Hh. apply andb_true_iff in Hh as [Hh _]. apply strip_clean.
  rewrite forallb_forall in *. intros c Hc. rewrite (hex_not_stripped c (Hh c Hc)). reflexivity.
Qed.

(* ---------------------------------------------------------------------------------------------------------- *)
(* list lemmas                                                                                                   *)
Lemma find_filter_neg {A} (p : A -> bool) l x :
  find p (filter (fun n => negb (p n)) l ++ [x]) = if p x then Some x else None.
Proof.
  induction l as [|y l IH]; cbn; [destruct (p x); reflexivity|].
  destruct (p y) eqn:Hy; cbn; [exact IH|]. rewrite Hy. exact IH.
Qed.

Lemma filter_filter_neg {A} (p : A -> bool) l x : p x = true ->
  filter (fun n => negb (p n)) (filter (fun n => negb (p n)) l ++ [x]) = filter (fun n => negb (p n)) l.
Proof.
  intro Hx. rewrite filter_app. cbn. rewrite Hx. cbn. rewrite app_nil_r.
  induction l as [|y l IH]; cbn; [reflexivity|].
  destruct (p y) eqn:Hy; cbn; [exact IH|]. rewrite Hy. cbn. f_equal. exact IH.
Qed.

Lemma filter_none {A} (p : A -> bool) l : (forall n, In n l -> p n = false) -> filter (fun n => negb (p n)) l = l.
Proof.
  induction l as [|y l IH]; cbn; intro Hn; [reflexivity|].
  rewrite (Hn y (or_introl eq_refl)). cbn. f_equal. apply IH. intros n Hin. apply Hn. right; exact Hin.
Qed.

Lemma find_none {A} (p : A -> bool) l : (forall n, In n l -> p n = false) -> find p l = None.
Proof.
  induction l as [|y l IH]; cbn; intro Hn; [reflexivity|].
  rewrite (Hn y (or_introl eq_refl)). apply IH. intros n Hin. apply Hn. right; exact Hin.
Qed.

(* ---------------------------------------------------------------------------------------------------------- *)
Section Facts.
  Variable H : str -> str.
  Variable E : doc -> str.

  Notation seal := (seal_document H E).
  Notation verify := (verify_seal H E).
  Notation body := remove_seal.

  (* ---- the shape of the section built by seal_document, from the generated tables ------------------------- *)
  Definition hash_child_value (content : str) : str :=
    strip_set seal_verify_strip (seal_verify_strip ++ H content ++ seal_verify_strip).

  Lemma sealed_fields_hash content g :
    stored_hash (seal_fields (seal_children (compute_seal H content g)) []) =
    Some (strip_set seal_verify_strip (hash_child_value content)).
  Proof. destruct g; reflexivity. Qed.

  Lemma sealed_fields_nonempty content g :
    seal_fields (seal_children (compute_seal H content g)) [] <> [].
  Proof. destruct g; discriminate. Qed.

  Lemma hash_child_value_eq content : hash_child_value content = strip_set seal_verify_strip (H content).
  Proof. unfold hash_child_value. change seal_verify_strip with [34]. cbn [app]. apply strip_wrap. reflexivity. Qed.

  Lemma new_section_is_seal d : is_section_keyed seal_remove_key (seal_section_of H E d) = true.
  Proof. exact (proj2 keys_agree). Qed.

  (* ---- structural lemmas ------------------------------------------------------------------------------------ *)
  Lemma body_sealed d : body (seal d) = body d.
  Proof.
    unfold remove_seal at 1. unfold seal_document. cbn [dname dgrammar dfront dsep dmeta dsections].
    unfold remove_seal at 1. cbn [dsections].
    rewrite (filter_filter_neg (is_section_keyed seal_remove_key) (dsections d) _ (new_section_is_seal d)).
    reflexivity.
  Qed.

  Lemma extract_sealed d :
    extract_seal (seal d) = Some (seal_fields (seal_children (compute_seal H (E (body d)) (dgrammar d))) []).
  Proof.
    unfold extract_seal, seal_document. cbn [dsections]. unfold remove_seal at 1. cbn [dsections].
    rewrite (proj1 keys_agree).
    rewrite (find_filter_neg (is_section_keyed seal_remove_key) (dsections d) (seal_section_of H E d)).
    rewrite new_section_is_seal. unfold seal_section_of.
    destruct (seal_fields (seal_children (compute_seal H (E (body d)) (dgrammar d))) []) eqn:Hf; [|reflexivity].
    exfalso. exact (sealed_fields_nonempty _ _ Hf).
  Qed.

  (* ---- full characterisation of verify_seal ------------------------------------------------------------------ *)
  Theorem verify_spec d :
    verify d = match extract_seal d with
               | None => NO_SEAL
               | Some sd => match stored_hash sd with
                            | Some s => if str_eqb (H (E (body d))) s then VERIFIED else INVALID
                            | None => INVALID
                            end
               end.
  Proof. reflexivity. Qed.

  Theorem verified_iff d :
    verify d = VERIFIED <-> exists sd, extract_seal d = Some sd /\ stored_hash sd = Some (H (E (body d))).
  Proof.
    rewrite verify_spec. split.
    - destruct (extract_seal d) as [sd|]; [|discriminate]. destruct (stored_hash sd) as [s|] eqn:Hs; [|discriminate].
      destruct (str_eqb (H (E (body d))) s) eqn:He; [|discriminate]. intros _. apply str_eqb_eq in He. subst s.
      exists sd. split; [reflexivity|exact Hs].
    - intros [sd [Hx Hs]]. rewrite Hx, Hs, str_eqb_refl. reflexivity.
  Qed.

  (* ---- T1  verify (seal d) = VERIFIED, in memory ---------------------------------------------------------------- *)
  (* premise: the digest of the sealed text is not altered by the quote strip -- true of every hexdigest
     (hexdigest_strip_fixed); without it the statement is false for an arbitrary oracle (verify_sealed_anyhash_refuted) *)
  Theorem verify_sealed d :
    strip_set seal_verify_strip (H (E (body d))) = H (E (body d)) -> verify (seal d) = VERIFIED.
  Proof.
    intro Hfix. apply verified_iff. eexists. split; [apply extract_sealed|].
    rewrite sealed_fields_hash, hash_child_value_eq, body_sealed, Hfix, Hfix. reflexivity.
  Qed.

  Corollary verify_sealed_hex d : hexdigest_shape (H (E (body d))) = true -> verify (seal d) = VERIFIED.
  Proof. intro Hh. apply verify_sealed. apply hexdigest_strip_fixed; exact Hh. Qed.

  (* ---- T2  sealing again gives the same document (hence the same seal) ------------------------------------------ *)
  Theorem seal_idempotent d : seal (seal d) = seal d.
  Proof.
    unfold seal_document at 1. unfold seal_section_of. rewrite body_sealed.
    reflexivity.
  Qed.

  Theorem seal_section_stable d : seal_section_of H E (seal d) = seal_section_of H E d.
  Proof. unfold seal_section_of. rewrite body_sealed. reflexivity. Qed.

  (* sealing discards every previous SEAL-keyed section and appends exactly one *)
  Theorem sealed_has_one_seal d : seal_count (seal d) = 1%nat.
  Proof.
    unfold seal_count, seal_document. cbn [dsections]. unfold remove_seal. cbn [dsections].
    rewrite filter_app. cbn [filter]. rewrite new_section_is_seal.
    rewrite app_length. cbn [length].
    assert (Hn : filter (is_section_keyed seal_remove_key)
                   (filter (fun n => negb (is_section_keyed seal_remove_key n)) (dsections d)) = []).
    { induction (dsections d) as [|y l IH]; cbn; [reflexivity|].
      destruct (is_section_keyed seal_remove_key y) eqn:Hy; cbn; [exact IH|]. rewrite Hy. exact IH. }
    rewrite Hn. reflexivity.
  Qed.

  (* ---- T3  no SEAL-keyed section => NO_SEAL --------------------------------------------------------------------- *)
  Theorem no_seal d :
    (forall n, In n (dsections d) -> is_section_keyed seal_extract_key n = false) -> verify d = NO_SEAL.
  Proof. intro Hn. rewrite verify_spec. unfold extract_seal. rewrite (find_none _ _ Hn). reflexivity. Qed.

  Theorem no_seal_iff d : verify d = NO_SEAL <-> extract_seal d = None.
  Proof.
    rewrite verify_spec. destruct (extract_seal d) as [sd|]; [|tauto].
    split; [|discriminate]. destruct (stored_hash sd) as [s|]; [destruct (str_eqb _ s)|]; discriminate.
  Qed.

  (* what the hash covers: with no SEAL-keyed section the hashed text is the emission of the WHOLE document
     (name, grammar version, frontmatter, separator, META, every section in order) minus trailing comments *)
  Theorem body_covers_everything d :
    (forall n, In n (dsections d) -> is_section_keyed seal_remove_key n = false) ->
    body d = mkDoc (dname d) (dgrammar d) (dfront d) (dsep d) (dmeta d) (dsections d) [].
  Proof. intro Hn. unfold remove_seal. rewrite (filter_none _ _ Hn). reflexivity. Qed.

  Theorem body_header d :
    dname (body d) = dname d /\ dgrammar (body d) = dgrammar d /\ dfront (body d) = dfront d /\
    dsep (body d) = dsep d /\ dmeta (body d) = dmeta d.
  Proof. repeat split. Qed.

  (* ---- T4  stored hash differs from the digest of the body => INVALID ------------------------------------------- *)
  Theorem hash_tamper_detected d sd :
    extract_seal d = Some sd -> stored_hash sd <> Some (H (E (body d))) -> verify d = INVALID.
  Proof.
    intros Hx Hne. rewrite verify_spec, Hx. destruct (stored_hash sd) as [s|]; [|reflexivity].
    destruct (str_eqb (H (E (body d))) s) eqn:He; [|reflexivity].
    apply str_eqb_eq in He. subst s. congruence.
  Qed.

  (* a stored HASH value that is not a string (number, list, null, ...) is never accepted *)
  Theorem hash_not_string_invalid d sd : extract_seal d = Some sd -> stored_hash sd = None -> verify d = INVALID.
  Proof. intros Hx Hs. apply (hash_tamper_detected d sd Hx). rewrite Hs. discriminate. Qed.

  (* changing one or more characters of a quote-free stored hash to other non-quote characters is detected *)
  Theorem hash_value_change_detected d sd s :
    extract_seal d = Some sd -> dict_get sd seal_verify_key = Some (VStr s) ->
    forallb (fun c => negb (memb c seal_verify_strip)) s = true -> s <> H (E (body d)) -> verify d = INVALID.
  Proof.
    intros Hx Hg Hc Hne. apply (hash_tamper_detected d sd Hx). unfold stored_hash. rewrite Hg, (strip_clean _ _ Hc).
    congruence.
  Qed.

  (* ---- T5  tampering with the body is detected ---------------------------------------------------------------- *)
  (* d : the document as sealed; d' : the tampered document, still carrying the hash of d's body.
     Collision-freeness of the oracle FOR THIS PAIR OF TEXTS is an explicit premise. *)
  Theorem tamper_detected d d' sd' :
    extract_seal d' = Some sd' -> stored_hash sd' = Some (H (E (body d))) ->
    E (body d') <> E (body d) ->
    (H (E (body d')) = H (E (body d)) -> E (body d') = E (body d)) ->
    verify d' = INVALID.
  Proof.
    intros Hx Hs Hne Hcf. apply (hash_tamper_detected d' sd' Hx). rewrite Hs. intro Heq. inversion Heq as [Hh].
    apply Hne, Hcf. symmetry; exact Hh.
  Qed.

  (* with a reader P that inverts E on both bodies (the C01/C02 round trip, taken as a premise), ANY difference of
     the bodies (key, value, type, order, nesting, META, name, frontmatter, grammar version, separator) is detected *)
  Theorem tamper_detected_content (P : str -> option doc) d d' sd' :
    extract_seal d' = Some sd' -> stored_hash sd' = Some (H (E (body d))) ->
    P (E (body d)) = Some (body d) -> P (E (body d')) = Some (body d') ->
    body d' <> body d ->
    (H (E (body d')) = H (E (body d)) -> E (body d') = E (body d)) ->
    verify d' = INVALID.
  Proof.
    intros Hx Hs Hp Hp' Hne Hcf. apply (tamper_detected d d' sd' Hx Hs); [|exact Hcf].
    intro Heq. rewrite Heq in Hp'. rewrite Hp in Hp'. inversion Hp'. congruence.
  Qed.

  (* ---- T6/T7  verification after a text round trip / of a respelled text ----------------------------------------- *)
  (* same sealed content: same body text and same seal fields.  (d' = seal d is the special case.) *)
  Definition same_sealed (a b : doc) : Prop := E (body a) = E (body b) /\ extract_seal a = extract_seal b.

  Lemma same_sealed_refl a : same_sealed a a.
  Proof. split; reflexivity. Qed.

  Lemma verify_same_sealed a b : same_sealed a b -> verify a = verify b.
  Proof. intros [Hb Hx]. rewrite !verify_spec, Hb, Hx. reflexivity. Qed.

  (* P : any reader (the parser); premise = the reader returns the sealed content (C01/C02 for this document) *)
  Theorem verify_after_text (P : str -> option doc) d d' :
    strip_set seal_verify_strip (H (E (body d))) = H (E (body d)) ->
    P (E (seal d)) = Some d' -> same_sealed d' (seal d) -> verify d' = VERIFIED.
  Proof. intros Hfix _ Hs. rewrite (verify_same_sealed _ _ Hs). apply verify_sealed; exact Hfix. Qed.

  (* any text t (a respelling) that reads to the same sealed content verifies *)
  Theorem verify_respelled (P : str -> option doc) d d' (t : str) :
    strip_set seal_verify_strip (H (E (body d))) = H (E (body d)) ->
    P t = Some d' -> same_sealed d' (seal d) -> verify d' = VERIFIED.
  Proof. intros Hfix _ Hs. rewrite (verify_same_sealed _ _ Hs). apply verify_sealed; exact Hfix. Qed.

  (* and re-sealing what was read back reproduces the same seal section *)
  Theorem reseal_after_text d d' :
    E (body d') = E (body (seal d)) -> dgrammar d' = dgrammar d ->
    seal_section_of H E d' = seal_section_of H E d.
  Proof. intros Hb Hg. unfold seal_section_of. rewrite Hb, Hg, body_sealed. reflexivity. Qed.
End Facts.

Theorem body_keeps_non_seal d n :
  In n (dsections (remove_seal d)) <-> In n (dsections d) /\ is_section_keyed seal_remove_key n = false.
Proof.
  unfold remove_seal. cbn [dsections]. rewrite filter_In. rewrite negb_true_iff. tauto.
Qed.

(* ---------------------------------------------------------------------------------------------------------- *)
(* CLI exit status of `octave validate --verify-seal --require-seal`                                            *)
Theorem cli_exit_required status : cli_exit status true = 0 <-> status = VERIFIED.
Proof. destruct status; vm_compute; split; intro Hx; try reflexivity; discriminate. Qed.

Theorem cli_exit_optional status : cli_exit status false = 0 <-> status <> INVALID.
Proof. destruct status; vm_compute; split; intro Hx; try reflexivity; try discriminate; congruence. Qed.

(* ---------------------------------------------------------------------------------------------------------- *)
(* non-vacuity and refutations, on the emitter model with a toy oracle                                          *)
Definition toyH (s : str) : str :=
  let n := fold_left (fun a c => (a * 31 + c) mod 1000003) s 7 in
  repeat 97 57 ++ N_to_dec (1000000 + n).      (* 64 hex characters (toy digest) *)

Definition sp0 (c : N) : bool := (c =? 32) || ((9 <=? c) && (c <=? 13)).

Definition ex_doc : doc :=
  mkDoc (lit "DOC") (Some (lit "5.1.0")) None false
        [(lit "TYPE", MV (VStr (lit "X")))]
        [NAssign (lit "A") (VNum false (lit "1")) [] None;
         NBlock (lit "B") None [NAssign (lit "C") (VStr (lit "two words")) [] None] [];
         NSection (lit "1") (lit "SEAL") None [NAssign (lit "HASH") (VStr (lit "stale")) [] None] []]
        [lit "trailing"].

(* the tampered copies of seal ex_doc *)
Definition set_sections (d : doc) (s : list node) : doc :=
  mkDoc (dname d) (dgrammar d) (dfront d) (dsep d) (dmeta d) s (dtrailing d).
Definition ex_sealed : doc := seal_document_m toyH sp0 ex_doc.
Definition ex_value_changed : doc :=
  set_sections ex_sealed (NAssign (lit "A") (VStr (lit "1")) [] None :: tl (dsections ex_sealed)).
Definition ex_payload : node := NSection (lit "9") (lit "SEAL") None [NAssign (lit "EVIL") (VStr (lit "payload")) [] None] [].
Definition ex_second_seal : doc := set_sections ex_sealed (dsections ex_sealed ++ [ex_payload]).

Example ex_hash_shape : hexdigest_shape (toyH (body_text_m sp0 ex_doc)) = true.
Proof. vm_compute. reflexivity. Qed.
Example ex_verify_sealed : verify_seal_m toyH sp0 ex_sealed = VERIFIED.
Proof. vm_compute. reflexivity. Qed.
Example ex_seal_count : seal_count ex_doc = 1%nat /\ seal_count ex_sealed = 1%nat /\ length (dsections ex_sealed) = 3%nat.
Proof. vm_compute. repeat split. Qed.
Example ex_seal_idempotent : seal_document_m toyH sp0 ex_sealed = ex_sealed.
Proof. vm_compute. reflexivity. Qed.
Example ex_stale_seal_invalid : verify_seal_m toyH sp0 ex_doc = INVALID.
Proof. vm_compute. reflexivity. Qed.
Example ex_no_seal : verify_seal_m toyH sp0 (remove_seal ex_doc) = NO_SEAL.
Proof. vm_compute. reflexivity. Qed.
Example ex_value_type_change_invalid :
  emit sp0 (remove_seal ex_value_changed) <> emit sp0 (remove_seal ex_sealed) /\
  verify_seal_m toyH sp0 ex_value_changed = INVALID.
Proof. split; [vm_compute; discriminate|vm_compute; reflexivity]. Qed.

(* the premises of tamper_detected are satisfiable together *)
Example ex_tamper_premises :
  exists sd', extract_seal ex_value_changed = Some sd' /\
              stored_hash sd' = Some (toyH (emit sp0 (remove_seal ex_sealed))) /\
              emit sp0 (remove_seal ex_value_changed) <> emit sp0 (remove_seal ex_sealed) /\
              toyH (emit sp0 (remove_seal ex_value_changed)) <> toyH (emit sp0 (remove_seal ex_sealed)).
Proof. eexists. split; [vm_compute; reflexivity|]. split; [vm_compute; reflexivity|]. split; vm_compute; discriminate. Qed.

(* ---- refutations of the stronger statements (kept visible in Properties/C15.v) ---------------------------- *)
(* (a) for an ARBITRARY oracle verify (seal d) = VERIFIED is false: an oracle whose digest is a quote character *)
Definition verify_sealed_anyhash_full : Prop :=
  forall (H : str -> str) (E : doc -> str) d, verify_seal H E (seal_document H E d) = VERIFIED.
Lemma verify_sealed_anyhash_refuted : ~ verify_sealed_anyhash_full.
Proof. intro Hf. specialize (Hf (fun _ => [c_dq]) (emit sp0) ex_doc). vm_compute in Hf. discriminate. Qed.

(* (b) content outside the FIRST SEAL-keyed section is not all covered: every further section keyed SEAL is dropped
   from the hashed text.  body1 removes only the section extract_seal reads. *)
Fixpoint remove_first {A} (p : A -> bool) (l : list A) : list A :=
  match l with [] => [] | x :: r => if p x then r else x :: remove_first p r end.
Definition body1 (d : doc) : doc :=
  mkDoc (dname d) (dgrammar d) (dfront d) (dsep d) (dmeta d)
        (remove_first (is_section_keyed seal_extract_key) (dsections d)) [].

Definition tamper_detected_full : Prop :=
  forall (H : str -> str) (E : doc -> str) d d' sd',
    extract_seal d' = Some sd' -> stored_hash sd' = Some (H (E (remove_seal d))) ->
    E (body1 d') <> E (body1 d) ->
    (forall a b, H (E a) = H (E b) -> E a = E b) ->
    verify_seal H E d' = INVALID.

Lemma second_seal_section_verifies :
  emit sp0 (body1 ex_second_seal) <> emit sp0 (body1 ex_sealed) /\
  seal_count ex_second_seal = 2%nat /\
  verify_seal_m toyH sp0 ex_second_seal = VERIFIED.
Proof. split; [vm_compute; discriminate|]. split; vm_compute; reflexivity. Qed.

(* the oracle `fun s => s` is collision free, so the refutation does not lean on a weak hash *)
Lemma tamper_detected_full_refuted : ~ tamper_detected_full.
Proof.
  intro Hf.
  pose (d := seal_document (fun s => s) (emit sp0) ex_doc).
  pose (d' := set_sections d (dsections d ++ [ex_payload])).
  assert (Hv : verify_seal (fun s => s) (emit sp0) d' = VERIFIED) by (vm_compute; reflexivity).
  destruct (extract_seal d') as [sd'|] eqn:Hx; [|vm_compute in Hx; discriminate].
  rewrite (Hf (fun s => s) (emit sp0) d d' sd' Hx) in Hv; [discriminate| | |].
  - vm_compute in Hx. inversion Hx. vm_compute. reflexivity.
  - vm_compute. discriminate.
  - intros a b Hab. exact Hab.
Qed.

(* with at most one SEAL-keyed section the two notions of body coincide: the partial statement covers the rest *)
Lemma remove_first_filter {A} (p : A -> bool) l : (length (filter p l) <= 1)%nat ->
  remove_first p l = filter (fun n => negb (p n)) l.
Proof.
  induction l as [|x l IH]; cbn; intro Hl; [reflexivity|].
  destruct (p x) eqn:Hx; cbn in *.
  - assert (Hz : filter p l = []) by (destruct (filter p l); [reflexivity|cbn in Hl; lia]).
    clear IH Hl. induction l as [|y l IH]; cbn in *; [reflexivity|].
    destruct (p y) eqn:Hy; [discriminate|]. cbn. f_equal. apply IH. exact Hz.
  - f_equal. apply IH. exact Hl.
Qed.

Lemma body1_single d : (seal_count d <= 1)%nat -> body1 d = remove_seal d.
Proof.
  intro Hc. unfold body1, remove_seal. rewrite (proj1 keys_agree). f_equal. apply remove_first_filter. exact Hc.
Qed.

Theorem tamper_detected_partial (H : str -> str) (E : doc -> str) d d' sd' :
  (seal_count d <= 1)%nat -> (seal_count d' <= 1)%nat ->
  extract_seal d' = Some sd' -> stored_hash sd' = Some (H (E (remove_seal d))) ->
  E (body1 d') <> E (body1 d) ->
  (H (E (remove_seal d')) = H (E (remove_seal d)) -> E (remove_seal d') = E (remove_seal d)) ->
  verify_seal H E d' = INVALID.
Proof.
  intros Hc Hc' Hx Hs Hne Hcf. rewrite (body1_single d Hc), (body1_single d' Hc') in Hne.
  exact (tamper_detected H E d d' sd' Hx Hs Hne Hcf).
Qed.

(* (c) "any change of the stored hash": a quote character added around the stored digest is stripped again *)
Definition hash_any_change_full : Prop :=
  forall (H : str -> str) (E : doc -> str) d s, extract_seal d = Some [(seal_verify_key, VStr s)] ->
    s <> H (E (remove_seal d)) -> verify_seal H E d = INVALID.
Lemma hash_any_change_refuted : ~ hash_any_change_full.
Proof.
  intro Hf.
  pose (d := mkDoc (lit "D") None None false [] [NSection (lit "S") (lit "SEAL") None [NAssign (lit "HASH") (VStr (c_dq :: lit "abc")) [] None] []] []).
  specialize (Hf (fun _ => lit "abc") (emit sp0) d (c_dq :: lit "abc")).
  assert (Hv : verify_seal (fun _ => lit "abc") (emit sp0) d = VERIFIED) by (vm_compute; reflexivity).
  rewrite Hf in Hv; [discriminate|vm_compute; reflexivity|discriminate].
Qed.

(* (d) without the reader premises of tamper_detected_content a difference of the bodies is NOT always detected: the
   emitter is not injective -- a META dictionary and a top-level block keyed META emit the same lines, so a document
   whose META fields were turned into an ordinary block (doc.meta empty) still verifies *)
Definition tamper_content_noreader_full : Prop :=
  forall (H : str -> str) sp d d' sd',
    extract_seal d' = Some sd' -> stored_hash sd' = Some (H (emit sp (remove_seal d))) ->
    remove_seal d' <> remove_seal d -> (forall a b, H a = H b -> a = b) ->
    verify_seal_m H sp d' = INVALID.

Definition ex_meta_doc : doc :=
  mkDoc (lit "DOC") None None false [(lit "TYPE", MV (VStr (lit "X")))] [NAssign (lit "A") (VNum false (lit "1")) [] None] [].
Definition ex_meta_sealed : doc := seal_document_m (fun s => s) sp0 ex_meta_doc.
Definition ex_meta_as_block : doc :=
  mkDoc (lit "DOC") None None false []
        (NBlock (lit "META") None [NAssign (lit "TYPE") (VStr (lit "X")) [] None] [] :: dsections ex_meta_sealed) [].

Lemma meta_as_block_verifies :
  remove_seal ex_meta_as_block <> remove_seal ex_meta_sealed /\
  emit sp0 (remove_seal ex_meta_as_block) = emit sp0 (remove_seal ex_meta_sealed) /\
  verify_seal_m (fun s => s) sp0 ex_meta_as_block = VERIFIED.
Proof. split; [vm_compute; discriminate|]. split; vm_compute; reflexivity. Qed.

Lemma tamper_content_noreader_refuted : ~ tamper_content_noreader_full.
Proof.
  intro Hf.
  destruct (extract_seal ex_meta_as_block) as [sd'|] eqn:Hx; [|vm_compute in Hx; discriminate].
  pose proof (proj2 (proj2 meta_as_block_verifies)) as Hv.
  rewrite (Hf (fun s => s) sp0 ex_meta_sealed ex_meta_as_block sd' Hx) in Hv; [discriminate| | |].
  - vm_compute in Hx. inversion Hx. vm_compute. reflexivity.
  - exact (proj1 meta_as_block_verifies).
  - intros a b Hab. exact Hab.
Qed.

(* ---------------------------------------------------------------------------------------------------------- *)
(* instances for the emitter model + the parser model as the reader                                             *)
Theorem verify_sealed_m H sp d :
  hexdigest_shape (H (body_text_m sp d)) = true -> verify_seal_m H sp (seal_document_m H sp d) = VERIFIED.
Proof. exact (verify_sealed_hex H (emit sp) d). Qed.

Theorem seal_idempotent_m H sp d : seal_document_m H sp (seal_document_m H sp d) = seal_document_m H sp d.
Proof. exact (seal_idempotent H (emit sp) d). Qed.

(* the reader = frontmatter strip + lexer model + parser model on the lines of the text; `nfc` (unicodedata.normalize per
   line), the character classes, the number canonicaliser and the holographic verdicts are the parser's oracles *)
From OV Require Import Lex.Lexer Syn.Parser.
Definition read_m (cls : N -> N) (numcanon : str -> option (bool * str)) (holo_ok : str -> bool) (strict : bool)
           (nfc : str -> str) (t : str) : option doc :=
  match parse_model cls numcanon holo_ok strict (map (fun l => (l, nfc l)) (split_on c_nl t)) with
  | PRDoc d _ _ => Some d
  | _ => None
  end.

Theorem verify_after_text_m H sp cls numcanon holo_ok strict nfc d d' :
  hexdigest_shape (H (body_text_m sp d)) = true ->
  read_m cls numcanon holo_ok strict nfc (emit sp (seal_document_m H sp d)) = Some d' ->
  same_sealed (emit sp) d' (seal_document_m H sp d) ->
  verify_seal_m H sp d' = VERIFIED.
Proof.
  intros Hh Hr Hs.
  exact (verify_after_text H (emit sp) (read_m cls numcanon holo_ok strict nfc) d d'
           (hexdigest_strip_fixed _ Hh) Hr Hs).
Qed.

Theorem verify_respelled_m H sp cls numcanon holo_ok strict nfc d d' t :
  hexdigest_shape (H (body_text_m sp d)) = true ->
  read_m cls numcanon holo_ok strict nfc t = Some d' ->
  same_sealed (emit sp) d' (seal_document_m H sp d) ->
  verify_seal_m H sp d' = VERIFIED.
Proof.
  intros Hh Hr Hs.
  exact (verify_respelled H (emit sp) (read_m cls numcanon holo_ok strict nfc) d d' t
           (hexdigest_strip_fixed _ Hh) Hr Hs).
Qed.

(* the round-trip premise is satisfiable: reading back exactly the sealed document is one instance *)
Example ex_same_sealed : same_sealed (emit sp0) ex_sealed (seal_document_m toyH sp0 ex_doc).
Proof. apply same_sealed_refl. Qed.

(* ... and so is the other: the parser MODEL reads the emitted sealed example back to the same sealed content *)
Definition ex_reader : str -> option doc :=
  read_m (fun _ => 0) (fun raw => Some (false, raw)) (fun _ => false) true (fun l => l).
Example ex_text_round_trip :
  exists d', ex_reader (emit sp0 ex_sealed) = Some d' /\ same_sealed (emit sp0) d' ex_sealed /\
             verify_seal_m toyH sp0 d' = VERIFIED.
Proof.
  destruct (ex_reader (emit sp0 ex_sealed)) as [d'|] eqn:Hr; [|vm_compute in Hr; discriminate].
  exists d'. split; [reflexivity|]. vm_compute in Hr. inversion Hr; subst d'.
  split; [split; vm_compute; reflexivity|vm_compute; reflexivity].
Qed.

(* ... and a RESPELLED text (spaces around ::, deeper indentation, quoted plain word, `#` for the section marker, blank
   line, trailing spaces, no END marker) is read by the parser model to the same sealed content and verifies *)
Definition ex_respelled_text : str :=
  join [c_nl]
    [lit "OCTAVE::5.1.0"; lit "===DOC==="; lit "META:"; lit "   TYPE :: ""X"""; lit ""; lit "A :: 1"; lit "B:   ";
     lit "    C::""two words"""; lit "#SEAL::SEAL"; lit "   SCOPE::""LINES[1,9]"""; lit "   ALGORITHM :: SHA256";
     lit "   HASH::""" ++ toyH (body_text_m sp0 ex_doc) ++ lit """"; lit "   GRAMMAR::""5.1.0"""; lit ""].
Example ex_respelled :
  ex_respelled_text <> emit sp0 ex_sealed /\
  exists d', ex_reader ex_respelled_text = Some d' /\ same_sealed (emit sp0) d' ex_sealed /\
             verify_seal_m toyH sp0 d' = VERIFIED.
Proof.
  split; [vm_compute; discriminate|].
  destruct (ex_reader ex_respelled_text) as [d'|] eqn:Hr; [|vm_compute in Hr; discriminate].
  exists d'. split; [reflexivity|]. vm_compute in Hr. inversion Hr; subst d'.
  split; [split; vm_compute; reflexivity|vm_compute; reflexivity].
Qed.
