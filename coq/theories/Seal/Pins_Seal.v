(* PINS: the tables of sealer.py / cli/main.py the hand-written model and its proofs were written against.
   Seal.v CONSUMES these constants; the pins record the values on the pinned tree, so that a source change which alters
   a field name, the field order, a literal, the status of a branch or a CLI exit rule is a broken proof obligation
   (in addition to flowing into the model).  Structure (which emit is called, the sha256/utf-8/hexdigest call, the full
   `==` comparison, the keyword set of Document(...), the filter/loop shapes, the CLI flow) is enforced by the exact
   statement templates of harness/translate/sealer_t.py: any deviation makes the translator fail closed. *)
From OV Require Import Base.Strs Gen.SealGen Seal.Seal Seal.SealFacts.
Require Coq.Strings.String.
Import Coq.Strings.String.StringSyntax.
Open Scope N_scope.

Lemma pin_seal_compute_fields :
  seal_compute_fields = [(lit "SCOPE", (1, lit "LINES[1,", lit "]")); (lit "ALGORITHM", (0, lit "SHA256", [])); (lit "HASH", (2, [c_dq], [c_dq]))].
Proof. reflexivity. Qed.
Lemma pin_seal_split_sep : seal_split_sep = [c_nl].
Proof. reflexivity. Qed.
Lemma pin_seal_compute_optional : seal_compute_optional = lit "GRAMMAR".
Proof. reflexivity. Qed.
Lemma pin_seal_child_fields :
  seal_child_fields = [(lit "SCOPE", (lit "SCOPE", [])); (lit "ALGORITHM", (lit "ALGORITHM", [])); (lit "HASH", (lit "HASH", [c_dq]))].
Proof. reflexivity. Qed.
Lemma pin_seal_child_optional : seal_child_optional = (lit "GRAMMAR", (lit "GRAMMAR", lit "GRAMMAR")).
Proof. reflexivity. Qed.
Lemma pin_seal_section_names :
  seal_new_id = lit "SEAL" /\ seal_new_key = lit "SEAL" /\ seal_extract_key = lit "SEAL" /\ seal_remove_key = lit "SEAL".
Proof. repeat split; reflexivity. Qed.
Lemma pin_seal_verify : seal_verify_key = lit "HASH" /\ seal_verify_default = [] /\ seal_verify_strip = [c_dq].
Proof. repeat split; reflexivity. Qed.
Lemma pin_seal_statuses : seal_status_missing = 3 /\ seal_status_equal = 1 /\ seal_status_differs = 2.
Proof. repeat split; reflexivity. Qed.
Lemma pin_seal_cli_exit_rules : seal_cli_exit_rules = [(2, false); (3, true)].
Proof. reflexivity. Qed.
Lemma pin_seal_structure :
  seal_emit_callee = lit "octave_mcp.core.emitter.emit(doc_without_seal)" /\
  seal_hash_callee = lit "hashlib.sha256(<text>.encode(utf-8)).hexdigest()" /\
  seal_compare_op = lit "computed_hash == stored_hash" /\
  seal_doc_copied_fields = [lit "name"; lit "meta"; lit "sections"; lit "has_separator"; lit "raw_frontmatter"; lit "grammar_version"] /\
  seal_cli_flow = [lit "parse"; lit "seal_document"; lit "emit"].
Proof. repeat split; reflexivity. Qed.

(* the section written by seal_document, spelled out (what the pinned tables mean for the model) *)
Lemma pin_seal_section_shape (H : str -> str) (E : Syn.Ast.doc -> str) d :
  seal_section_of H E d =
  Syn.Ast.NSection (lit "SEAL") (lit "SEAL") None
    ([Syn.Ast.NAssign (lit "SCOPE") (Syn.Ast.VStr (lit "LINES[1," ++ N_to_dec (line_count (E (remove_seal d))) ++ lit "]")) [] None;
      Syn.Ast.NAssign (lit "ALGORITHM") (Syn.Ast.VStr (lit "SHA256")) [] None;
      Syn.Ast.NAssign (lit "HASH") (Syn.Ast.VStr (strip_set [c_dq] ([c_dq] ++ H (E (remove_seal d)) ++ [c_dq]))) [] None] ++
     match Syn.Ast.dgrammar d with
     | Some g => [Syn.Ast.NAssign (lit "GRAMMAR") (Syn.Ast.VStr g) [] None]
     | None => []
     end) [].
Proof.
  rewrite <- (strip_nil_chars (lit "LINES[1," ++ N_to_dec (line_count (E (remove_seal d))) ++ lit "]")).
  rewrite <- (strip_nil_chars (lit "SHA256")).
  unfold seal_section_of. destruct (Syn.Ast.dgrammar d); reflexivity.
Qed.
