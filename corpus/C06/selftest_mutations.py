"""Translator mutation self-test for C06 (run by hand:  /venv/bin/python corpus/C06/selftest_mutations.py).
Mutates a COPY of the package in a temp dir, regenerates ModStateGen.v from the copy, recompiles the four C06 files in
a temp tree with its own -Q mapping and reports which obligation breaks.  Never touches /repo or /verif/coq."""
import re
import shutil
import subprocess
import sys
import tempfile
from pathlib import Path

sys.path.insert(0, "/verif/harness")
from translate import modstate_t  # noqa: E402

SRC = Path("/repo/src/octave_mcp")
TH = Path("/verif/coq/theories")


def sub(path, old, new):
    def f(root):
        p = root / path
        s = p.read_text()
        assert old in s, (path, old)
        p.write_text(s.replace(old, new, 1))
    return f


EXEC = "        params = self.validate_parameters(kwargs)\n"
MUTS = {
    "M00 control (no mutation)": [],
    "M01 module-level cache dict + store": [
        sub("core/emitter.py", "IDENTIFIER_PATTERN = re.compile", "_CACHE = {}\nIDENTIFIER_PATTERN = re.compile"),
        sub("core/emitter.py", "def needs_quotes(value: Any) -> bool:\n", "def needs_quotes(value: Any) -> bool:\n    _CACHE[str(value)] = 1\n")],
    "M02 for x in set(xs): out.append(x)": [
        sub("core/validator.py", "        errors: list[ValidationError] = []\n\n        if policy == UnknownFieldPolicy.REJECT:",
            "        errors: list[ValidationError] = []\n        tmp = []\n        for x in set(document_fields):\n            tmp.append(x)\n\n        if policy == UnknownFieldPolicy.REJECT:")],
    "M03 self.last = ... in ValidateTool.execute": [
        sub("mcp/validate.py", EXEC + "        content = params.get(\"content\")", EXEC + "        self.last = params\n        content = params.get(\"content\")")],
    "M04 os.getcwd() in EjectTool.execute": [
        sub("mcp/eject.py", "import json\n", "import json\nimport os\n"), sub("mcp/eject.py", EXEC, EXEC + "        here = os.getcwd()\n")],
    "M05 global counter": [
        sub("core/routing.py", "def compute_value_hash(value) -> str:\n", "_COUNT = 0\n\n\ndef compute_value_hash(value) -> str:\n    global _COUNT\n    _COUNT += 1\n")],
    "M06 await inside EjectTool.execute": [
        sub("mcp/eject.py", "import json\n", "import asyncio\nimport json\n"), sub("mcp/eject.py", EXEC, EXEC + "        await asyncio.sleep(0)\n")],
    "M07 search order changed (builtin before cwd)": [
        sub("schemas/loader.py", "    # 2. New consolidated location in resources (development)",
            "    builtin_first = Path(__file__).parent / \"builtin\"\n    if builtin_first.exists():\n        paths.append(builtin_first)\n\n    # 2. New consolidated location")],
    "M08 join(unknown) without sorted": [
        sub("core/validator.py", "        if not unknown:\n            return []\n", "        if not unknown:\n            return []\n        label = \", \".join(unknown)\n")],
    "M09 id() in routing hash": [
        sub("core/routing.py", "    return hashlib.sha256(str(value).encode()).hexdigest()", "    return hashlib.sha256((str(value) + str(id(value))).encode()).hexdigest()")],
    "M10 store into USAGE_HINTS": [sub("mcp/compile_grammar.py", EXEC, EXEC + "        USAGE_HINTS[\"last\"] = str(params)\n")],
    "M11 random in emitter": [
        sub("core/emitter.py", "import re\n", "import random\nimport re\n"),
        sub("core/emitter.py", "def needs_quotes(value: Any) -> bool:\n", "def needs_quotes(value: Any) -> bool:\n    _r = random.random()\n")],
    "M12 time.time() in write": [
        sub("mcp/write.py", "import tempfile\n", "import tempfile\nimport time\n"),
        sub("mcp/write.py", EXEC + "        target_path = params[\"target_path\"]", EXEC + "        _t = time.time()\n        target_path = params[\"target_path\"]")],
    "M13 module-level for loop (not understood)": [
        sub("core/routing.py", "def compute_value_hash(value) -> str:\n", "_T = {}\nfor _i in range(3):\n    _T[_i] = _i\n\n\ndef compute_value_hash(value) -> str:\n")],
    "M14 lru_cache decorator": [
        sub("core/routing.py", "def compute_value_hash(value) -> str:\n", "import functools\n\n\n@functools.lru_cache(maxsize=None)\ndef compute_value_hash(value) -> str:\n")],
    "M15 reset of Absent._instance elsewhere": [
        sub("core/ast_nodes.py", "# Module-level singleton for convenience\n", "def _reset():\n    Absent._instance = None\n\n\n# Module-level singleton for convenience\n")],
    "M16 os.environ read in validator": [
        sub("core/validator.py", "from dataclasses import dataclass, field\n", "import os\nfrom dataclasses import dataclass, field\n"),
        sub("core/validator.py", "        self.errors = []\n        self.routing_log = RoutingLog()", "        self.errors = []\n        _strict = os.environ.get(\"OCTAVE_STRICT\")\n        self.routing_log = RoutingLog()")],
    "M17 class-level mutable list appended through self": [
        sub("core/routing.py", "    def __init__(self) -> None:\n        \"\"\"Initialize registry with empty custom targets.\"\"\"",
            "    SEEN: list = []\n\n    def __init__(self) -> None:\n        \"\"\"Initialize registry with empty custom targets.\"\"\"\n        self.SEEN.append(1)")],
    "M18 list(set) feeding output": [sub("core/projector.py", "    keep_set = set(keep)\n", "    keep_set = set(keep)\n    order = list(keep_set)\n")],
}


def chain(gen_text, wd):
    th = wd / "theories"
    for d in ("Base", "Gen", "Tools", "Properties"):
        (th / d).mkdir(parents=True, exist_ok=True)
    for f in ("Base/Strs.v", "Base/Strs.vo", "Tools/ModuleState.v", "Tools/Server.v", "Properties/C06.v"):
        shutil.copy(TH / f, th / f)
    (th / "Gen/ModStateGen.v").write_text(gen_text)
    for f in ("Gen/ModStateGen.v", "Tools/ModuleState.v", "Tools/Server.v", "Properties/C06.v"):
        p = subprocess.run(["timeout", "300", "coqc", "-Q", "theories", "OV", "-w", "none", f"theories/{f}"], cwd=wd,
                           stdout=subprocess.PIPE, stderr=subprocess.STDOUT, text=True)
        if p.returncode != 0:
            m = re.search(r"line (\d+)", p.stdout)
            line = int(m.group(1)) if m else 0
            src = (th / f).read_text().splitlines()
            name = "?"
            for i in range(min(line, len(src)) - 1, -1, -1):
                mm = re.match(r"\s*(Lemma|Theorem|Example|Definition)\s+(\w+)", src[i])
                if mm:
                    name = mm.group(2)
                    break
            return f"BREAKS {f}:{line} ({name})"
    return "all four files compile"


def main():
    base = modstate_t.generate(SRC)["ModStateGen.v"]
    bad = 0
    for name, fs in MUTS.items():
        wd = Path(tempfile.mkdtemp(prefix="c06mut_"))
        try:
            root = wd / "octave_mcp"
            shutil.copytree(SRC, root, ignore=shutil.ignore_patterns("__pycache__"))
            for f in fs:
                f(root)
            try:
                txt = modstate_t.generate(root)["ModStateGen.v"]
                tr = "translator ok, output " + ("CHANGED" if txt != base else "unchanged")
            except Exception as e:  # fail closed
                tr = f"translator FAILS CLOSED: {type(e).__name__}: {str(e)[:80]}"
                txt = "(* TRANSLATOR FAILED *)\nDefinition translator_failed : False := I.\n"
            res = chain(txt, wd)
            ok = (res == "all four files compile") == (not fs)
            bad += 0 if ok else 1
            print(f"{'ok ' if ok else 'BAD'} {name:52s} | {tr} | {res}", flush=True)
        finally:
            shutil.rmtree(wd, ignore_errors=True)
    sys.exit(1 if bad else 0)


if __name__ == "__main__":
    main()
