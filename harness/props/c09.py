"""C09 -- validity is invariant under respelling; validating never alters content.

For every generated (schema, instance document):
  TEXTS     canonical emit(d); k lenient respellings render(d', rng) (d' = d with number lexemes respelled: 1.0 / 1.00 / 1e0 / 05);
            canon(x) and canon(canon(x)) of the first respelling.  A text is used only if parse_with_warnings(text) yields
            exactly the content of d (C01-C03 round trip): what C02/C03 own is not attributed to C09.
  SURFACES  Validator API on the parsed document (strict off/on); ValidateTool.execute per profile (4); WriteTool.execute
            (schema=.., corrections_only, lenient off/on); CLI `validate` (in-process runner; real subprocess sample in thorough)
  OBSERVED  (status, validation_status, {(code, field)} of validation_errors, {(code, field)} of warnings) -- never message texts
  REQUIRED  equal across all texts of the same document, per surface and profile;
            octave_validate(content=x, fix=False)["canonical"] == emit(parse_with_warnings(x)[0]);
            a second identical call returns the identical envelope (timestamps masked); Validator.validate leaves the AST as it was
  MODEL     the extracted verdict (driver `val`) on the parsed canonical document, with the schema read from the real loaded
            SchemaDefinition and the oracles computed here, must give the same status / pairs on every surface (correspondence).
"""
from __future__ import annotations

import asyncio
import copy
import hashlib
import json
import math
import multiprocessing
import os
import random
import re
import shutil
import subprocess
import sys
import tempfile

from lib import astcodec, doccases, docgen, docprops, render
from lib.core import VERIF
from lib.model import dec_str, enc_str, run_driver
from props import c08

LEVEL = "proof"
DRIVERS = ["val", "syn"]
COQ_TARGETS = []
ALLOWED_AXIOMS = ()
PFX = "C09-"
PROFILES = ["STRICT", "STANDARD", "LENIENT", "ULTRA"]
F_NONFINITE = "C09-nonfinite-float-kind"
F_BLANKFM = "C09-blank-frontmatter-unloadable"


def blank_unloadable_front(text):
    """clause of C09-blank-frontmatter-unloadable: the document carries a frontmatter block that is whitespace only (so that the
    canonical text drops it) and that yaml.safe_load rejects (TAB, VT, FF ...)"""
    import yaml
    from octave_mcp.core.parser import parse_with_warnings
    try:
        raw = parse_with_warnings(text)[0].raw_frontmatter
    except Exception:  # noqa
        return False
    if raw is None or raw.strip() != "":
        return False
    try:
        yaml.safe_load(raw)
        return False
    except yaml.YAMLError:
        return True


def only_fm_pairs_differ(a, b):
    """the two observations agree once the E_FM_* pairs (and the status they imply) are set aside"""
    def strip(o):
        return [[list(p) for p in x if not str(p[0]).startswith("E_FM_")] for x in o if isinstance(x, list)]
    return strip(a) == strip(b)


# =====================================================================================================
# generator: schemas
# =====================================================================================================
def gen_schema(rng, si):
    name = "VERIFC09_%d" % si
    by_kind = {}
    for a in c08.DOC_ATOMS:
        by_kind.setdefault(c08.kind_of(a), []).append(a)
    policy = c08.POLICIES[si % len(c08.POLICIES)]
    nf = rng.randint(1, 4)
    fields = []
    coherent = si % 2 == 0          # half the schemas are satisfiable by construction (so that many documents validate)
    if si % 4 == 1:                 # a quarter: fields for which schema repair has something to do (ENUM case, TYPE[NUMBER] strings)
        picks = rng.sample(REPAIR_FIELDS, rng.randint(2, 4))
        return {"name": name, "policy": policy, "fields": [(f, ch, rng.choice(["SELF", "SELF", None])) for f, ch, _ in picks],
                "ptargets": [], "default": None, "fm": []}
    for fi in range(nf):
        ln = rng.choice([1, 2, 2, 3, 4])
        ch = [rng.choice(by_kind[rng.choice(c08.KINDS13)]) for _ in range(ln)]
        if fi == 0 and "REQ" not in [c08.kind_of(c) for c in ch]:
            ch = [("REQ",)] + [c for c in ch if c08.kind_of(c) != "OPT"][:3]
        if coherent:
            for _ in range(8):
                theme = rng.choice(THEMES)
                kinds = rng.sample(theme, min(len(theme), rng.choice([0, 1, 1, 2, 3])))
                ch = [("REQ",) if (fi == 0 or rng.random() < 0.4) else ("OPT",)]
                for k in kinds:
                    ch.append(("TYPE", k[5:]) if k.startswith("TYPE:") else rng.choice(by_kind[k]))
                if any(c08.ref_chain(ch, x)[0] is True for x in c08.DOC_VALUES):
                    break
        r = rng.random()
        target = "SELF" if r < 0.6 else (None if r < 0.85 else rng.choice(["NOWHERE", "ARCHIVE", "INDEXER"]))
        fields.append(("F%d" % fi, ch, target))
    ptargets = ["ARCHIVE"] if rng.random() < 0.3 else []
    default = rng.choice([None, None, None, "RISK_LOG", "CUSTOMX"])
    fm = []
    if rng.random() < 0.3:           # FRONTMATTER block: required + optional fields, or all-optional
        fm = rng.choice([[("name", True, "STRING")], [("name", True, "STRING"), ("tags", False, "LIST")], [("tags", False, "LIST")],
                         [("version", False, "STRING"), ("tags", False, "LIST")], [("name", True, "STRING"), ("flag", True, "BOOLEAN")]])
    return {"name": name, "policy": policy, "fields": fields, "ptargets": ptargets, "default": default, "fm": fm}


def schema_text(s):
    pol = "" if s["policy"] is None else "  UNKNOWN_FIELDS::%s\n" % s["policy"]
    if s["ptargets"]:
        pol += "  TARGETS::[%s]\n" % ",".join(s["ptargets"])
    if s["default"]:
        pol += "  DEFAULT_TARGET::§%s\n" % s["default"]
    body = ""
    for f, ch, tgt in s["fields"]:
        body += '  %s::["ex"∧%s%s]\n' % (f, "∧".join(c08.text_of(c) for c in ch), "" if tgt is None else "→§" + tgt)
    fm = ""
    if s["fm"]:
        fm = "FRONTMATTER:\n" + "".join("  %s:\n    REQUIRED::%s\n    TYPE::%s\n" % (n, "true" if r else "false", t) for n, r, t in s["fm"])
    return ('===%s===\nMETA:\n  TYPE::PROTOCOL_DEFINITION\n  VERSION::"1.0"\n\nPOLICY:\n  VERSION::"1.0"\n%s\nFIELDS:\n%s%s===END===\n'
            % (s["name"], pol, body, fm))


# =====================================================================================================
# generator: instance documents (content model)
# =====================================================================================================
def neutral_of(v):
    if v is None:
        return ("null",)
    if isinstance(v, bool):
        return ("bool", v)
    if isinstance(v, int):
        return ("int", str(v))
    if isinstance(v, float):
        return ("float", repr(v))
    if isinstance(v, str):
        return ("str", v)
    if isinstance(v, list):
        return ("list", [neutral_of(x) for x in v])
    raise ValueError(type(v).__name__)


THEMES = [["TYPE:STRING", "ENUM", "REGEX", "MAX_LENGTH", "MIN_LENGTH", "CONST", "DIR"], ["TYPE:NUMBER", "RANGE", "CONST", "ENUM"],
          ["APPEND_ONLY", "TYPE:LIST", "MIN_LENGTH", "MAX_LENGTH"], ["DATE", "ISO8601", "MIN_LENGTH", "TYPE:STRING"],
          ["TYPE:BOOLEAN", "CONST", "ENUM"]]
EXTRA_VALUES = [("list", [("map", [("k", ("int", "1"))]), ("str", "a")]), ("zone", "x = 1", "python", "```"), ("zone", "", None, "````"),
                ("list", [("list", [("int", "1")]), ("str", "x")]), ("float", "1e+16"), ("float", "-0.0"), ("int", "9007199254740993"),
                ("str", "1.0"), ("str", "true"), ("str", "null"), ("str", "A→B"), ("holo", '["x"∧REQ]')]
STATUS_POOL = ["ACTIVE", "DRAFT", "DEPRECATED", "ACT", "D", "bogus", "", "active"]


def gen_meta_builtin(rng, g):
    """a META block exercising the builtin dict schema META (required TYPE, VERSION; STATUS enum)"""
    out = []
    if rng.random() < 0.8:
        out.append(("TYPE", ("v", rng.choice([("str", "TEST"), ("str", "SPEC"), ("int", "3"), ("list", [("str", "a")])]))))
    if rng.random() < 0.75:
        out.append(("VERSION", ("v", rng.choice([("str", "1.0"), ("str", "2.0.1"), ("float", "1.0"), ("int", "2"), ("null",)]))))
    if rng.random() < 0.6:
        sv = rng.choice(STATUS_POOL)
        out.append(("STATUS", ("v", rng.choice([("str", sv), ("str", sv), ("str", sv), ("bool", True), ("list", [("str", sv)]), ("int", "1")]))))
    if rng.random() < 0.4:
        out.append((rng.choice(["OWNER", "NAME", "ID"]), ("v", g.scalar())))
    if rng.random() < 0.15:
        out.append(("NESTED", ("d", [("A", ("int", "1")), ("B", ("str", "x"))])))
    rng.shuffle(out)
    return out


def gen_block(rng, g, s, name=None):
    children = []
    if rng.random() < 0.45:          # a block meant to validate: required fields present with a documented-good value
        for fname, ch, _ in s["fields"]:
            good = [x for x in c08.DOC_VALUES if c08.ref_chain(ch, x)[0] is True]
            req = "REQ" in [c08.kind_of(c) for c in ch]
            if not good or (not req and rng.random() < 0.5):
                continue
            children.append(("a", fname, neutral_of(rng.choice(good)), g.comments(), g.trailing()))
        if s["policy"] == "IGNORE" and rng.random() < 0.5:
            children.append(("a", "X0", neutral_of(rng.choice(c08.DOC_VALUES)), [], None))
        rng.shuffle(children)
        children = g._declutter(children)
        if not children:
            children = [("a", "X9", ("str", "x"), [], None)]
        return ("b", name or s["name"], rng.choice([None, None, "TARGET", "SELF"]), children, g.comments())
    for fname, ch, _ in s["fields"]:
        r = rng.random()
        if r < 0.25:
            continue
        good = [x for x in c08.DOC_VALUES if c08.ref_chain(ch, x)[0] is True]
        if good and r < 0.7:
            v = neutral_of(rng.choice(good))
        elif r < 0.93:
            v = neutral_of(rng.choice(c08.DOC_VALUES))
        else:
            v = rng.choice(EXTRA_VALUES)
        children.append(("a", fname, v, g.comments(), None if v[0] == "zone" else g.trailing()))
        if r > 0.9:
            children.append(("a", fname, neutral_of(rng.choice(c08.DOC_VALUES)), [], None))
    for x in range(rng.choice([0, 0, 1, 2])):
        children.append(("a", "X%d" % x, neutral_of(rng.choice(c08.DOC_VALUES)), g.comments(), g.trailing()))
    if rng.random() < 0.2 and children:
        children.append(children[0])
    rng.shuffle(children)
    if rng.random() < 0.25:
        children.insert(rng.randint(0, len(children)), ("b", rng.choice(["INNER", "F0", "NOTES"]), rng.choice([None, "TARGET"]),
                                                        [("a", "F0", g.scalar(), [], None)], []))
    if rng.random() < 0.1:
        children.append(("c", g.comment_text()))
    children = g._declutter(children)
    if not children:
        children = [("a", "X9", ("str", "x"), [], None)]
    return ("b", name or s["name"], rng.choice([None, None, None, "TARGET", "SELF", "ARCHIVE"]), children, g.comments())


def repairable_value(rng, ch):
    """a value that schema repair WOULD rewrite if it stood in the validated block: enum member in another case, numeral as a
    (possibly padded) string"""
    for c in ch:
        if c[0] == "ENUM":
            ms = [c08.pv(x) for x in c[1] if isinstance(c08.pv(x), str) and c08.pv(x).lower() != c08.pv(x).upper()]
            if ms:
                m = rng.choice(ms)
                return ("str", rng.choice([m.lower(), m.swapcase(), m.capitalize()]) if m.lower() != m else m.upper())
    if any(c[0] in ("RANGE",) or (c[0] == "TYPE" and c[1] == "NUMBER") for c in ch):
        return ("str", rng.choice(["5", "42", " 7 ", "3.5", "007"]))
    return ("str", rng.choice(["active", "draft", "5", "Done"]))


def field_echoes(rng, s, d):
    """schema field names REPEATED outside the validated block's direct children, holding repairable values: top-level assignment,
    sibling block, nested blocks at depth 2-3, section, list item / inline map, META.  Validation must neither judge nor touch them."""
    fields = [(f, ch) for f, ch, _ in s["fields"]]
    out = []

    def fa():
        f, ch = rng.choice(fields)
        return ("a", f, repairable_value(rng, ch), [], None)
    kinds = rng.sample(["top", "sibling", "deep2", "deep3", "section", "listmap", "meta", "section-block"], rng.randint(1, 4))
    for k in kinds:
        if k == "top":
            out.append(fa())
        elif k == "sibling":
            out.append(("b", rng.choice(["ARCHIVE", "HISTORY", "OTHER"]), rng.choice([None, None, "TARGET"]), [fa() for _ in range(rng.randint(1, 3))], []))
        elif k == "deep2":
            out.append(("b", "OUTER", None, [("b", "MID", None, [fa(), fa()], [])], []))
        elif k == "deep3":
            out.append(("b", "OUTER3", None, [("a", "K", ("int", "1"), [], None), ("b", "MID", None, [("b", "DEEP", None, [fa()], [])], [])], []))
        elif k == "section":
            out.append(("s", str(rng.randint(3, 8)), "HISTORY", None, [fa(), fa()], []))
        elif k == "section-block":
            out.append(("s", "9", "WRAPS", None, [("b", "INNERB", None, [fa()], [])], []))
        elif k == "listmap":
            f, ch = rng.choice(fields)
            v = repairable_value(rng, ch)
            out.append(("a", rng.choice(["LOG", "ITEMS"]), ("list", [("map", [(f, v)]), v, ("str", "x")]), [], None))
        elif k == "meta":
            f, ch = rng.choice(fields)
            if f not in [k2 for k2, _ in d["meta"]]:
                d["meta"] = list(d["meta"]) + [(f, ("v", repairable_value(rng, ch)))]
    return out, kinds


def gen_doc(rng, g, s):
    d = g.doc()
    secs = [n for n in d["sections"]]
    block = gen_block(rng, g, s)
    secs.insert(rng.randint(0, len(secs)), block)
    if rng.random() < 0.6:
        echoes, kinds = field_echoes(rng, s, d)
        d["_echo_kinds"] = kinds
        for e in echoes:
            secs.insert(rng.randint(0, len(secs)), e)
    r = rng.random()
    if r < 0.08:        # a second block of the same name (both are validated)
        secs.insert(rng.randint(0, len(secs)), gen_block(rng, g, s))
    elif r < 0.16:      # the same name below a section marker / inside another block: not validated
        inner = gen_block(rng, g, s)
        secs.append(("s", "9", "WRAP", None, [inner], []) if rng.random() < 0.5 else ("b", "WRAPB", "TARGET", [inner], []))
    elif r < 0.2:       # an ASSIGNMENT carrying the schema name (has a key, is not a Block)
        secs.append(("a", s["name"], ("str", "x"), [], None))
    d["sections"] = g._declutter(secs)
    if not (d["sections"] and d["sections"][-1][0] == "a" and d["sections"][-1][2][0] != "list"):
        d["trailing"] = []
    if rng.random() < 0.5:
        keep = [(k, v) for k, v in d["meta"] if k in {f for f, _, _ in s["fields"]}]
        newm = gen_meta_builtin(rng, g)
        d["meta"] = newm + [(k, v) for k, v in keep if k not in {k2 for k2, _ in newm}]
    # frontmatter variants: mapping (good / wrong types / other keys), scalar, list, comment only, broken YAML; absent otherwise.
    # (a BLANK frontmatter block is a lenient spelling of "absent": the canonical text drops it -- added per respelling in build_texts)
    if d["grammar"] is None and rng.random() < (0.7 if s["fm"] else 0.2):
        d["front"] = rng.choice(FRONT_VARIANTS) if rng.random() < 0.35 else rng.choice(list(FRONT_WS_SHAPES.values()))
    elif d["grammar"] is None and rng.random() < 0.5:
        d["front"] = None
    return d


FRONT_VARIANTS = ["name: Agent (x)", "name: [1]\ntags: x", "tags: [a, b]", "a: 1\nb: [2]", "name: x\ntags: [q]", "name: x\nflag: true\nversion: \"1\"",
                  "name: skill\ndescription: d\nallowed-tools: [Read]", "just text", "- a\n- b", "# only a comment", "name: [x", "42", "flag: yes\nname: 1"]
# whitespace shapes YAML cares about and a text-level strip / dedent / rstrip / newline normalisation would change.  One mapping that is
# valid for the shipped SKILL schema and for the generated FRONTMATTER schemas (name, description, allowed-tools, tags, flag, version).
_FM_BASE = ["name: skill", "description: d", "allowed-tools: [Read]", "tags: [a]", "flag: true", 'version: "1"']
FRONT_WS_SHAPES = {
    "plain": "\n".join(_FM_BASE),
    "indented-2 (first line indented)": "\n".join("  " + l for l in _FM_BASE),
    "indented-4": "\n".join("    " + l for l in _FM_BASE),
    "indented-1": "\n".join(" " + l for l in _FM_BASE),
    "leading blank line": "\n" + "\n".join(_FM_BASE),
    "trailing blank line": "\n".join(_FM_BASE) + "\n",
    "blank lines both ends": "\n\n" + "\n".join(_FM_BASE) + "\n\n",
    "leading blank + indented": "\n" + "\n".join("  " + l for l in _FM_BASE),
    "indented + trailing blank": "\n".join("   " + l for l in _FM_BASE) + "\n   ",
    "trailing spaces": "\n".join(l + "  " for l in _FM_BASE),
    "trailing space on last line": "\n".join(_FM_BASE) + " ",
    "tabs after values": "\n".join(l + "\t" for l in _FM_BASE),
    "tab after last value": "name: skill\ndescription: d\nallowed-tools: [Read]\nversion: v1\t",
    "CRLF inside": "\r\n".join(_FM_BASE),
    "CRLF + indented": "\r\n".join("  " + l for l in _FM_BASE),
    "block scalar (YAML-looking lines)": "description: |\n  a: b\n    more\n  c\n" + "\n".join(_FM_BASE[:1] + _FM_BASE[2:]),
    "block scalar last, trailing spaces": "\n".join(_FM_BASE[:1] + _FM_BASE[2:]) + "\ndescription: |\n  text  \n  last  ",
    "block scalar keep (+)": "\n".join(_FM_BASE[:1] + _FM_BASE[2:]) + "\ndescription: |+\n  keep\n",
    "block scalar strip (-) indented block": "\n".join("  " + l for l in _FM_BASE[:1] + _FM_BASE[2:]) + "\n  description: >-\n    folded\n    text",
    "nested mapping": "meta:\n  a: 1\n  b:\n    - x\n" + "\n".join(_FM_BASE),
    "nested mapping as name": "name:\n  first: x\n" + "\n".join(_FM_BASE[1:]),
    "block sequences": "name: skill\ndescription: d\nallowed-tools:\n  - Read\n  - Write\ntags:\n- a\n- b",
    "value-less last line": "\n".join(_FM_BASE) + "\nextra:",
    "leading comment": "# c\n" + "\n".join(_FM_BASE),
    "indented, name missing": "\n".join("  " + l for l in _FM_BASE[1:]),
    "indented, wrong types": "  name: [x]\n  description: d\n  allowed-tools: Read\n  tags: t\n  flag: 3",
}
BLANK_FRONTS = ["---\n---\n", "---\n\n---\n", "---\n  \n---\n\n", "---\n---\n\n\n", "--- \n\t\n---\n"]


# ---- number lexemes -----------------------------------------------------------------------------
_LEX_OK = {}


def lexeme_ok(kind, canon, cand):
    """the candidate matches the lexer's documented NUMBER shape and denotes (Python semantics, independent of the code under
    test) the same value of the same kind; whether the implementation reads it back so is checked per text (round trip)"""
    key = (kind, canon, cand)
    if key not in _LEX_OK:
        ok = re.fullmatch(r"-?\d+\.?\d*(?:[eE][+-]?\d+)?", cand) is not None
        if ok and kind == "int":
            ok = re.fullmatch(r"-?\d+", cand) is not None and int(cand) == int(canon)
        elif ok:
            ok = re.fullmatch(r"-?\d+", cand) is None and repr(float(cand)) == repr(float(canon))
        _LEX_OK[key] = bool(ok)
    return _LEX_OK[key]


def number_spellings(kind, canon):
    out = []
    if kind == "int":
        neg = canon.startswith("-")
        body = canon[1:] if neg else canon
        out = [("-" if neg else "") + "0" + body, ("-" if neg else "") + "00" + body]
    else:
        if "e" not in canon and "inf" not in canon and "nan" not in canon:
            out = [canon + "0", canon + "00", canon + "e0", canon + "E+0", canon.replace(".", "") + "e-%d" % len(canon.split(".")[1])]
        elif "e" in canon:
            out = [canon.replace("e", "E"), canon.replace("e+", "e"), canon.replace("e", ".0e") if "." not in canon else canon]
    return [c for c in out if c != canon and lexeme_ok(kind, canon, c)]


def respell_numbers(d, rng):
    """copy of d in which every number value carries, with probability 1/2, another lexeme of the same value"""
    n_sites = [0]

    def val(v):
        k = v[0]
        if k in ("int", "float"):
            alts = number_spellings(k, v[1])
            if alts and rng.random() < 0.5:
                n_sites[0] += 1
                return (k, rng.choice(alts))
            return v
        if k == "list":
            return ("list", [val(x) for x in v[1]])
        if k == "map":
            return ("map", [(kk, val(x)) for kk, x in v[1]])
        return v

    def node(n):
        if n[0] == "a":
            return ("a", n[1], val(n[2]), n[3], n[4])
        if n[0] == "b":
            return ("b", n[1], n[2], [node(c) for c in n[3]], n[4])
        if n[0] == "s":
            return ("s", n[1], n[2], n[3], [node(c) for c in n[4]], n[5])
        return n
    e = dict(d)
    e["meta"] = [(k, ("d", [(k2, val(v2)) for k2, v2 in mv[1]]) if mv[0] == "d" else ("v", val(mv[1]))) for k, mv in d["meta"]]
    e["sections"] = [node(n) for n in d["sections"]]
    return e, n_sites[0]


# =====================================================================================================
# implementation side (runs in worker processes; cwd = the temp root that holds specs/schemas)
# =====================================================================================================
def _pairs(lst):
    return sorted({(str(e.get("code")), str(e.get("field"))) for e in (lst or []) if isinstance(e, dict)})


def _mask(x, holo=False):
    """what two identical calls must agree on: everything except timestamps and message texts; when the document holds a
    holographic value also except routing value_hash (sha256 of a repr with a memory address: findings C06-routing-hash-object-repr,
    C06-message-object-repr -- owned by C06)"""
    if isinstance(x, dict):
        return {k: ("<masked>" if (k in ("timestamp", "message") or (holo and k == "value_hash")) else _mask(v, holo)) for k, v in x.items()}
    if isinstance(x, list):
        return [_mask(v, holo) for v in x]
    return x


def _run(coro):
    return asyncio.run(coro)


def cli_observe(text, name, tmpdir, real_subprocess=False):
    fp = os.path.join(tmpdir, "cli_%d.oct.md" % os.getpid())
    with open(fp, "w", encoding="utf-8") as f:
        f.write(text)
    if real_subprocess:
        p = subprocess.run([sys.executable, "-m", "octave_mcp.cli.main", "validate", "--schema", name, fp],
                           stdout=subprocess.PIPE, stderr=subprocess.PIPE, text=True, timeout=120)
        out, err, rc = p.stdout, p.stderr, p.returncode
    else:
        from click.testing import CliRunner
        from octave_mcp.cli.main import cli
        res = CliRunner().invoke(cli, ["validate", "--schema", name, fp])
        try:
            out, err = res.stdout, res.stderr
        except Exception:  # noqa
            out, err = res.output, ""
        rc = res.exit_code
    ms = list(re.finditer(r"^validation_status: (\w+)$", out, re.M))
    m = ms[-1] if ms else None
    codes = sorted(re.findall(r"^  ([A-Z][A-Z0-9_]*): ", err, re.M)) if err else sorted(re.findall(r"^  ([A-Z][A-Z0-9_]*): ", out[m.end():] if m else out, re.M))
    # click.echo(canonical) then click.echo("\nvalidation_status: ..."): everything before the status line is canonical + "\n\n"
    pre = out[: m.start()] if m else None
    with open(fp) as f:          # exactly as cli/main.py reads it (text mode: a lone CR inside a string arrives as LF)
        content_read = f.read()
    return {"status": m.group(1) if m else None, "rc": rc, "codes": codes, "content_read": content_read,
            "canonical": pre[:-2] if pre is not None and pre.endswith("\n\n") else pre}


def observe_text(text, name, want_cli, tmpdir, second_profiles, write_modes=(False, True), profiles=tuple(PROFILES)):
    """All observations of one text; problems = property violations visible on this text alone.
    second_profiles: the profiles for which the call is repeated (same tool instance and a fresh one)."""
    from octave_mcp.core.emitter import emit
    from octave_mcp.core.parser import parse, parse_with_warnings
    from octave_mcp.core.validator import Validator
    from octave_mcp.mcp.validate import ValidateTool
    from octave_mcp.mcp.write import WriteTool
    from octave_mcp.schemas.loader import get_builtin_schema, load_schema_by_name
    obs, problems = {}, []
    doc, _ = parse_with_warnings(text)
    emitted = emit(doc)
    builtin = get_builtin_schema(name)
    try:
        sd = load_schema_by_name(name)
    except Exception:  # noqa
        sd = None
    ss = {sd.name: sd} if sd is not None and sd.fields else None
    before = astcodec.doc_to_neutral(doc)
    for strict in (False, True):
        v = Validator(schema=builtin)
        errs = v.validate(doc, strict=strict, section_schemas=ss)
        obs["api:strict=%d" % strict] = sorted({(e.code, e.field_path) for e in errs})
        again = v.validate(doc, strict=strict, section_schemas=ss)          # same instance, second call
        if sorted((e.code, e.field_path) for e in again) != sorted((e.code, e.field_path) for e in errs):
            problems.append(("api", "a second Validator.validate on the same instance answers differently"))
    if astcodec.doc_to_neutral(doc) != before or emit(doc) != emitted:
        problems.append(("api", "Validator.validate altered the document"))
    tool = ValidateTool()
    holo = any(v[0] == "holo" for _, v in docprops.values_of(before))
    for p in profiles:
        r1 = _run(tool.execute(content=text, schema=name, profile=p, fix=False))
        obs["tool:" + p] = [r1.get("status"), r1.get("validation_status"), _pairs(r1.get("validation_errors")), _pairs(r1.get("warnings"))]
        if r1.get("status") == "success" and r1.get("canonical") != emitted:
            problems.append(("tool:" + p, "fix off: returned canonical differs from emit(parse_with_warnings(x)[0])"))
        if p in second_profiles:
            r2 = _run(tool.execute(content=text, schema=name, profile=p, fix=False))
            if _mask(r1, holo) != _mask(r2, holo):
                problems.append(("tool:" + p, "a second identical call returns a different envelope"))
            r3 = _run(ValidateTool().execute(content=text, schema=name, profile=p, fix=False))
            if _mask(r1, holo) != _mask(r3, holo):
                problems.append(("tool:" + p, "a fresh tool instance returns a different envelope"))
    target = os.path.join(tmpdir, "w_%d.oct.md" % os.getpid())
    for len_ in write_modes:
        w = _run(WriteTool().execute(target_path=target, content=text, schema=name, corrections_only=True, lenient=len_))
        obs["write:lenient=%d" % len_] = [w.get("status"), w.get("validation_status"), _pairs(w.get("validation_errors"))]
        if w.get("status") == "success" and not any(isinstance(c_, dict) and (c_.get("tier") == "REPAIR" or "before" in c_) for c_ in w.get("corrections", [])):
            # no repair / rewrite reported: what would be written is the plain canonical text of the input
            try:
                plain = emit(parse(text)) if not len_ else emitted
            except Exception:  # noqa
                plain = None
            if plain is not None and w.get("canonical_hash") != hashlib.sha256(plain.encode("utf-8")).hexdigest():
                problems.append(("write:lenient=%d" % len_, "no repair reported, yet canonical_hash is not the hash of the plain canonical text of the input"))
        if os.path.exists(target):
            problems.append(("write", "corrections_only wrote the target file"))
            os.unlink(target)
    if want_cli:
        c = cli_observe(text, name, tmpdir, real_subprocess=(want_cli == 2))
        obs["cli"] = [c["status"], c["rc"], c["codes"]]
        try:
            strict_canon = emit(parse(c["content_read"]))
        except Exception:  # noqa
            strict_canon = None
        if c["status"] is not None and strict_canon is not None and c["canonical"] != strict_canon:
            problems.append(("cli", "`octave validate` (no --fix) printed a canonical text that differs from emit(parse(x))"))
    return obs, problems, doc, sd, builtin


# ---- model line ----------------------------------------------------------------------------------
def enc_cst9(c):
    if type(c).__name__ == "RegexConstraint":
        return "REGEX " + enc_str(c.pattern)
    return c08.enc_cst(c, None)


def enc_def(sd):
    if sd is None:
        return "~"
    parts = ["D", enc_str(sd.name), enc_str(sd.policy.unknown_fields if sd.policy else "REJECT"), str(len(sd.fields))]
    routes = []
    for fname, fd in sd.fields.items():
        cons = fd.pattern.constraints.constraints if fd.pattern and fd.pattern.constraints else None
        if cons is None:
            parts += [enc_str(fname), "0"]
        else:
            parts += [enc_str(fname), "1", str(len(cons))] + [enc_cst9(c) for c in cons]
        if fd.pattern:
            routes.append((fname, fd.pattern.target))
    parts.append(str(len(routes)))
    for f, t in routes:
        parts += [enc_str(f), "~" if t is None else enc_str(t)]
    dt = getattr(sd, "default_target", None)
    parts.append("~" if dt is None else enc_str(dt))
    pts = list(sd.policy.targets) if sd.policy else []
    parts.append(str(len(pts)))
    parts += [enc_str(t) for t in pts]
    parts.append("1" if sd.frontmatter else "0")
    req = [n for n, fd in sd.frontmatter.items() if fd.required]
    parts.append(str(len(req)))
    parts += [enc_str(n) for n in req]
    return " ".join(parts)


def model_line(doc, sd, builtin, name):
    """`all` command of the val driver for the REAL parsed document; raises c08.OutOfModel"""
    from octave_mcp.core.ast_nodes import Assignment, Block
    from octave_mcp.core.validator import Validator, validate_frontmatter
    nd = astcodec.doc_to_neutral(doc)
    floats = sorted({v[1] for _, v in docprops.values_of(nd) if v[0] == "float"})
    fltab = [str(len(floats))]
    for t in floats:
        fltab += [enc_str(t), c08.enc_fl(float(t))]
    active = sd if (sd is not None and sd.fields) else None
    blocks = []
    if active is not None:
        conv = Validator(schema=None)
        for sec in doc.sections:
            if isinstance(sec, Block) and sec.key == active.name:
                present = {}
                for ch in sec.children:
                    if isinstance(ch, Assignment):
                        present[ch.key] = conv._to_python_value(ch.value)
                flds = []
                for fname, fd in active.fields.items():
                    if fname not in present or present[fname] is None:
                        continue
                    v = present[fname]
                    cons = fd.pattern.constraints.constraints if fd.pattern and fd.pattern.constraints else []
                    res = [(c.pattern, re.compile(c.pattern).match(str(v)) is not None) for c in cons if type(c).__name__ == "RegexConstraint"]
                    try:
                        o4 = c08.oracle_of(v)
                    except OverflowError:
                        raise c08.OutOfModel("float overflow")
                    flds.append(" ".join([enc_str(fname), o4, str(len(res))] + ["%s %d" % (enc_str(p), ok) for p, ok in res]))
                blocks.append(" ".join([str(len(flds))] + flds))
    orcs = " ".join([str(len(blocks))] + blocks)
    tstrs = [t for t in ([getattr(active, "default_target", None)] if active else []) if t]
    extra = "".join(sorted({c for t in tstrs for c in t if ord(c) >= 128 and c.isspace()}))
    fm = []
    raw = doc.raw_frontmatter
    if active is not None and active.frontmatter and raw is not None and raw.strip():
        # oracle only for frontmatter that is neither absent nor blank: the absent branch and its test are part of the model
        fm = [(e.code, e.field_path) for e in validate_frontmatter(raw, active)]
    extra += "".join(sorted({c for c in (raw or "") if ord(c) >= 128 and c.isspace()} - set(extra)))
    fmtoks = [str(len(fm))] + [x for c, p in fm for x in (enc_str(c), enc_str(p))]
    bname = enc_str(name) if builtin is not None else "~"
    return " ".join(["all", bname, enc_def(sd), " ".join(fltab), orcs, enc_str(extra), " ".join(fmtoks), astcodec.enc_doc(nd)])


def enc_py(v):
    """python value -> the val driver's printing of a pyval"""
    k = c08.vkind(v)
    if k == "zone":
        return "Z%s %s" % ("~" if v.info_tag is None else enc_str(v.info_tag), enc_str(v.content))
    if k == "list":
        return " ".join(["L%d" % len(v)] + [enc_py(x) for x in v])
    if k == "dict":
        return " ".join(["D%d" % len(v)] + ["%s %s" % (enc_str(kk), enc_py(x)) for kk, x in v.items()])
    if k == "other":
        raise c08.OutOfModel("object")
    return c08.enc_val(v)


_WORK = {}


def _init_worker(root):
    os.chdir(root)
    _WORK["root"] = root


class Tally:
    """what a worker reports back: histogram increments, evaluation count, non-trivial keys, failures"""

    def __init__(self):
        self.hists, self.count, self.keys, self.failures = {}, 0, [], []

    def hist(self, name, bucket, n=1):
        d = self.hists.setdefault(name, {})
        d[str(bucket)] = d.get(str(bucket), 0) + n

    def fail(self, case, what, finding=None):
        if len(self.failures) < 6:
            self.failures.append((case, what, finding))
        else:
            self.hist("failures_not_reported_in_detail", what.split(":")[0])


def build_texts(d, seed, reps, tally):
    """canonical text, `reps` respellings (render freedoms + number lexemes; one all-freedoms corner), canon(x), canon(canon(x))"""
    import hashlib
    exp = docprops.expected(d)
    canon = doccases.impl_emit(exp)
    texts = [("canon", canon)]
    first = None
    srng = random.Random(seed)
    for k in range(reps):
        rng = random.Random(srng.random())
        if k == 1:
            rng.random = lambda: 0.0           # the corner where every freedom is taken
        d2, nsites = respell_numbers(d, rng)
        t, _, sites = render.render(d2, rng)
        if d["front"] is not None and d["front"].strip() and rng.random() < 0.3:
            head = "---\n" + d["front"] + "\n---\n\n"
            if t.startswith(head):       # layout after the closing fence: no blank line / trailing space / more blank lines
                t = "---\n" + d["front"] + rng.choice(["\n---\n", "\n--- \n\n", "\n---\n\n\n"]) + t[len(head):]
                sites += 1
                tally.hist("frontmatter_fence_layout_respellings", "yes")
        if d["front"] is None and d["grammar"] is None and rng.random() < 0.35:
            t = rng.choice(BLANK_FRONTS) + t          # a blank YAML frontmatter block: dropped by canonicalisation
            sites += 1
            tally.hist("blank_frontmatter_respellings", "yes")
        texts.append(("spell%d" % k, t))
        tally.hist("lenient_sites", min((sites + nsites) // 20 * 20, 300))
        tally.hist("number_respellings", min(nsites, 5))
        if sites + nsites >= 5:
            tally.keys.append(hashlib.blake2b(t.encode("utf-8", "surrogatepass"), digest_size=10).hexdigest())
        if first is None:
            first = t
    if first is not None:
        c1, _, err = doccases.canon_impl(first)
        if not err:
            texts.append(("canon(x)", c1))
            c2, _, err2 = doccases.canon_impl(c1)
            if not err2:
                texts.append(("canon(canon(x))", c2))
    seen, out = {}, []
    for label, t in texts:          # identical texts are observed once
        if t in seen:
            tally.hist("texts_identical_to", seen[t] + " <- " + re.sub(r"\d+$", "", label))
            continue
        seen[t] = label
        out.append((label, t))
    return exp, out


def work(case):
    """one (schema, document): build the texts, observe every text, judge; returns plain data"""
    from octave_mcp.core.parser import parse_with_warnings
    name = case["schema"]
    tally = Tally()
    out = {"id": case["id"], "model": None, "topy": [], "canon_obs": None, "sample": None}
    d = case["doc"]
    exp, texts = build_texts(d, case["seed"], case["reps"], tally)
    tally.hist("texts_per_document", len(texts))
    exp = json.loads(json.dumps(exp))
    tdict = dict(texts)
    base_case = {"schema": case["schema_text"], "schema_name": name}
    obs_all = {}
    rt_notes = {}
    for ti, (label, text) in enumerate(texts):
        try:
            got = astcodec.doc_to_neutral(parse_with_warnings(text)[0])
        except Exception as e:  # noqa
            tally.hist("text_skipped", "rejected:" + type(e).__name__)
            continue
        got = json.loads(json.dumps(got))          # plain JSON types on both sides (content, not Python classes)
        if isinstance(got.get("front"), str) and got["front"].strip() == "" and exp.get("front") is None:
            got["front"] = None                        # blank frontmatter block = lenient spelling of "no frontmatter"
        rt = docprops.first_diff(exp, got) or docprops.first_diff(got, exp)
        if rt:
            # the document falsifies no wf clause, so this is no KNOWN C01-C03 class: the text is still observed (a verdict difference is
            # a C09 violation whatever its cause); the round-trip miss itself is C02's to report and is only counted here
            tally.hist("text_roundtrip_miss", "content differs at " + re.sub(r"\d+", "#", str(rt[0])))
            rt_notes[label] = {"path": rt[0], "expected": repr(rt[1])[:200], "read": repr(rt[2])[:200]}
        full = (label == "canon") or case["full"]
        rot = PROFILES[(case["id"] + ti) % 4]
        seconds = {"STANDARD", case["second"]} if full else ({rot} if ti % 2 == 0 else set())
        wmodes = (False, True) if full else ((ti % 2 == 1),)
        profs = tuple(PROFILES) if full else tuple(dict.fromkeys(["STANDARD", rot]))
        try:
            obs, problems, doc, sd, builtin = observe_text(text, name, case["cli"], _WORK["root"], seconds, wmodes, profs)
        except Exception as e:  # noqa
            import traceback
            tally.fail(dict(base_case, text=text, label=label, surface="surface"),
                       "surface: raised %s: %s | %s" % (type(e).__name__, e, traceback.format_exc(limit=3)[-300:]))
            continue
        obs_all[label] = obs
        tally.count += len(obs)
        for surface, what in problems:
            tally.fail(dict(base_case, text=text, label=label, surface=surface), "%s: %s" % (surface, what))
        if label == "canon":
            out["canon_obs"] = obs
            try:
                out["model"] = model_line(doc, sd, builtin, name)
            except c08.OutOfModel as e:
                out["model"] = "OOM:" + str(e)
            if case.get("topy"):
                from octave_mcp.core.validator import Validator
                conv = Validator(schema=None)
                nd = astcodec.doc_to_neutral(doc)
                for _, v in docprops.values_of(nd)[:6]:
                    if v[0] in ("holo", "absent"):
                        continue
                    try:
                        want = enc_py(conv._to_python_value(astcodec.value_from_neutral(v)))
                    except (c08.OutOfModel, OverflowError):
                        continue
                    floats = sorted({x[1] for _, x in docprops.values_of({"meta": [], "sections": [("a", "K", v, [], None)]}) if x[0] == "float"})
                    tab = " ".join([str(len(floats))] + ["%s %s" % (enc_str(t), c08.enc_fl(float(t))) for t in floats])
                    toks = []
                    astcodec.enc_value(v, toks)
                    out["topy"].append(("topy %s %s" % (tab, " ".join(toks)), want, v))
    # ---- the property: equal observations across the texts of one document
    base = obs_all.get("canon")
    if base is None:
        tally.hist("doc_outcome", "canonical-text-not-usable")
    else:
        for p_ in PROFILES:
            tally.hist("status:" + p_, "%s errors=%s warnings=%s" % (base["tool:" + p_][1], "yes" if base["tool:" + p_][2] else "no",
                                                                  "yes" if base["tool:" + p_][3] else "no"))
        if "cli" in base:
            tally.hist("status:cli", str(base["cli"][0]))
        for wk in ("write:lenient=0", "write:lenient=1"):
            if wk in base:
                tally.hist("status:" + wk, "%s/%s" % (base[wk][0], base[wk][1]))
        for code, _ in base["api:strict=0"]:
            tally.hist("error_code", code)
        if not base["api:strict=0"]:
            tally.hist("error_code", "none")
        for label, o in obs_all.items():
            if label == "canon":
                continue
            for k, v in o.items():
                b = base.get(k)
                if b is None:
                    continue
                silent = (lambda x: x[0] != "success") if k.startswith("write") else ((lambda x: x[0] is None) if k == "cli" else (lambda x: False))
                if silent(v) or silent(b):
                    tally.hist("surface_reports_no_validation", k)
                    continue
                if v != b:
                    fid = F_BLANKFM if (blank_unloadable_front(tdict[label]) and only_fm_pairs_differ(b, v)) else None
                    tally.fail(dict(base_case, surface=k, text_a=tdict["canon"], label_b=label, text_b=tdict[label], observed_a=b, observed_b=v, doc=d,
                                    content_read_back_differs=rt_notes or None),
                               "%s: a respelling / the canonical text is validated differently" % k.split(":")[0], finding=fid)
    if case["id"] == 0:
        out["sample"] = {"schema": case["schema_text"], "texts": texts[:3], "observed_on_canonical": base}
    out["canon_text"] = tdict.get("canon")
    out["tally"] = {"hists": tally.hists, "count": tally.count, "keys": tally.keys, "failures": tally.failures}
    return out


# =====================================================================================================
# schema object reuse (Validator API): one SchemaDefinition / section_schemas dict for a whole sequence of documents
# =====================================================================================================
CUSTOM_TARGETS = ["AUDIT_TRAIL", "NOWHERE", "CUSTOMX", "LEDGER"]


def gen_reuse_schema(rng, si):
    """like gen_schema, but most fields route to a custom target that POLICY.TARGETS does not declare"""
    s = gen_schema(rng, si)
    s["name"] = "VERIFC09_R%d" % si
    fields = []
    for f, ch, _ in s["fields"]:
        r = rng.random()
        tgt = rng.choice(CUSTOM_TARGETS) if r < 0.55 else ("SELF" if r < 0.75 else (None if r < 0.9 else "ARCHIVE"))
        fields.append((f, ch, tgt))
    if si % 3 == 0:          # the shape of the seed: a satisfiable required field routed to an undeclared custom target
        fields[0] = (fields[0][0], [("REQ",)], rng.choice(CUSTOM_TARGETS))
    s["fields"] = fields
    s["fm"] = []
    return s


def gen_reuse_docs(rng, g, s, n):
    """n documents for one schema: the validated block (often satisfiable) + blocks annotated `KEY[->TARGET]:` naming the custom
    targets the schema routes to / other custom names / nothing"""
    used = sorted({t for _, _, t in s["fields"] if t in CUSTOM_TARGETS}) or CUSTOM_TARGETS[:1]
    docs = []
    for k in range(n):
        d = g.doc()
        b = gen_block(rng, g, s)
        r = rng.random()
        btarget = b[2]
        if r < 0.25:
            btarget = rng.choice(used)
        elif r < 0.5:
            btarget = None
        b = ("b", b[1], btarget, b[3], [])
        secs = [x for x in d["sections"] if x[0] != "c"][:2] + [b]
        r2 = rng.random()
        if r2 < 0.35:
            secs.append(("b", "NOTES", rng.choice(used), [("a", "TEXT", ("str", "x"), [], None)], []))
        elif r2 < 0.5:
            secs.append(("s", "7", "LOG", None, [("b", "INNER", rng.choice(CUSTOM_TARGETS + ["OTHER"]), [("a", "K", ("int", "1"), [], None)], [])], []))
        rng.shuffle(secs)
        d["sections"] = g._declutter(secs)
        d["trailing"] = []
        d["front"] = None
        docs.append(d)
    return docs


def schema_fingerprint(sd):
    """every attribute of a SchemaDefinition by value: attribute path -> repr"""
    out = {"name": repr(sd.name), "version": repr(sd.version), "default_target": repr(getattr(sd, "default_target", None))}
    pol = sd.policy
    if pol is None:
        out["policy"] = "None"
    else:
        for k, v in sorted(vars(pol).items()):
            out["policy." + k] = repr(list(v)) if isinstance(v, list) else repr(v)
    out["fields.keys"] = repr(list(sd.fields))
    for fname, fd in sd.fields.items():
        out["fields[%s].raw_value" % fname] = repr(fd.raw_value)
        pat = fd.pattern
        if pat is None:
            out["fields[%s].pattern" % fname] = "None"
            continue
        out["fields[%s].pattern.target" % fname] = repr(pat.target)
        out["fields[%s].pattern.example" % fname] = repr(pat.example) if not hasattr(pat.example, "tokens") else type(pat.example).__name__
        cons = pat.constraints
        if cons is None:
            out["fields[%s].pattern.constraints" % fname] = "None"
        else:
            out["fields[%s].pattern.constraints" % fname] = repr([(type(c).__name__, sorted((k, repr(v)) for k, v in vars(c).items())) for c in cons.constraints])
    out["frontmatter"] = repr(sorted((k, repr(vars(v))) for k, v in sd.frontmatter.items()))
    out["warnings"] = repr(len(sd.warnings))
    extra = sorted(set(vars(sd)) - {"name", "version", "policy", "fields", "frontmatter", "default_target", "warnings"})
    for k in extra:
        out["<new attribute> " + k] = repr(vars(sd)[k])[:200]
    return out


def reuse_sequence(name, texts, order, same_validator):
    """validate texts[order[0]], texts[order[1]], ... against ONE loaded SchemaDefinition (and one section_schemas dict);
    -> list of step records {step, doc, reused, fresh, changed}"""
    from octave_mcp.core.parser import parse_with_warnings
    from octave_mcp.core.validator import Validator
    from octave_mcp.schemas.loader import get_builtin_schema, load_schema_by_name
    builtin = get_builtin_schema(name)
    sd = load_schema_by_name(name)
    ss = {sd.name: sd}
    docs = [parse_with_warnings(t)[0] for t in texts]
    val = Validator(schema=builtin)
    steps = []
    for k, di in enumerate(order):
        before = schema_fingerprint(copy.deepcopy(sd))
        keys_before = list(ss)
        v = val if same_validator else Validator(schema=builtin)
        reused = sorted({(e.code, e.field_path) for e in v.validate(docs[di], strict=False, section_schemas=ss)})
        after = schema_fingerprint(sd)
        changed = {k2: [before.get(k2), after.get(k2)] for k2 in sorted(set(before) | set(after)) if before.get(k2) != after.get(k2)}
        if list(ss) != keys_before or ss.get(sd.name) is not sd:
            changed["section_schemas dict"] = [repr(keys_before), repr(list(ss))]
        fresh_sd = load_schema_by_name(name)
        fresh = sorted({(e.code, e.field_path) for e in Validator(schema=builtin).validate(parse_with_warnings(texts[di])[0], strict=False,
                                                                                             section_schemas={fresh_sd.name: fresh_sd})})
        steps.append({"step": k, "doc": di, "reused": reused, "fresh": fresh, "changed": changed})
    return steps


def verdict_of(pairs):
    return ["INVALID" if pairs else "VALIDATED", [list(p) for p in pairs]]


def judge_reuse(case, steps, fail, hist):
    """each verdict with the reused object must equal the verdict with a freshly loaded one; the object must stay as it was"""
    base = {"schema": case["schema_text"], "schema_name": case["schema"], "texts": case["texts"], "order": case["order"],
            "same_validator": case["same_validator"], "kind": "schema-reuse"}
    reported_change = False
    for st in steps:
        hist("reuse_step_verdict", "INVALID" if st["fresh"] else "VALIDATED")
        for code, _ in st["fresh"]:
            if code == "E009":
                hist("reuse_step_E009", "yes")
                break
        if st["reused"] != st["fresh"]:
            fail(dict(base, step=st["step"], text=case["texts"][st["doc"]], history=[case["texts"][i] for i in case["order"][:st["step"]]],
                      verdict_reused=verdict_of(st["reused"]), verdict_fresh=verdict_of(st["fresh"])),
                 "api-reuse: with a SchemaDefinition object reused across validations the verdict of a document depends on the documents "
                 "validated before it (differs from the verdict with a freshly loaded schema)")
        if st["changed"] and not reported_change:
            reported_change = True
            fail(dict(base, step=st["step"], text=case["texts"][st["doc"]], changed=st["changed"]),
                 "api-reuse: Validator.validate changed the caller's SchemaDefinition: " + ", ".join(sorted(st["changed"])))


def work_reuse(case):
    tally = Tally()
    try:
        steps = reuse_sequence(case["schema"], case["texts"], case["order"], case["same_validator"])
    except Exception as e:  # noqa
        import traceback
        tally.fail({"schema": case["schema_text"], "schema_name": case["schema"], "texts": case["texts"], "kind": "schema-reuse"},
                   "api-reuse: raised %s: %s | %s" % (type(e).__name__, e, traceback.format_exc(limit=3)[-300:]))
        steps = []
    judge_reuse(case, steps, tally.fail, tally.hist)
    tally.count = 2 * len(steps)
    return {"hists": tally.hists, "count": tally.count, "failures": tally.failures, "steps": len(steps),
            "sample": ({"schema": case["schema_text"], "order": case["order"], "steps": steps[:4]} if case["id"] == 0 else None)}


# =====================================================================================================
# tool instance reuse: ONE ValidateTool / ONE WriteTool serve a whole sequence of calls (as the MCP server keeps them)
# =====================================================================================================
REPAIR_FIELDS = [
    ("STATUS", [("REQ",), ("ENUM", ["ACTIVE", "ACTIVATING", "DONE"])], ["active", "done", "Active", "ACTIVE", "bogus"]),
    ("KIND", [("OPT",), ("ENUM", ["A", "B"])], ["a", "b", "A", "c"]),
    ("COUNT", [("REQ",), ("TYPE", "NUMBER")], ["5", "42", 7, "x", "3.5"]),
    ("RATIO", [("OPT",), ("TYPE", "NUMBER"), ("RANGE", 1, 10)], ["5", 5, "11", 2.5]),
    ("NAME", [("OPT",), ("TYPE", "STRING")], ["bob", 3, "x y"]),
    ("MODE", [("OPT",), ("ENUM", ["X"]), ("TYPE", "STRING")], ["x", "X", "y"]),
]


def gen_repair_schema(rng, si):
    k = rng.randint(2, 4)
    picks = rng.sample(REPAIR_FIELDS, k)
    return {"name": "VERIFC09_T%d" % si, "policy": rng.choice(["REJECT", "IGNORE", None]), "fields": [(f, ch, "SELF") for f, ch, _ in picks],
            "ptargets": [], "default": None, "fm": [], "pools": {f: pool for f, _, pool in picks}}


def gen_repair_doc(rng, g, s):
    """a small document whose validated block (mostly) HAS a schema repair available: an enum member in another case, a numeral
    written as a string"""
    children = []
    for f, ch, _ in s["fields"]:
        if "REQ" not in [c[0] for c in ch] and rng.random() < 0.25:
            continue
        pool = s["pools"][f]
        v = pool[0] if rng.random() < 0.55 else rng.choice(pool)
        children.append(("a", f, neutral_of(v), [], g.trailing()))
    rng.shuffle(children)
    if not children:
        children = [("a", s["fields"][0][0], neutral_of(s["pools"][s["fields"][0][0]][0]), [], None)]
    d = g.doc()
    secs = [x for x in d["sections"] if x[0] == "a" and x[2][0] not in ("zone", "holo", "list")][:2] + [("b", s["name"], None, children, [])]
    d["meta"] = [("TYPE", ("v", ("str", "TEST")))]
    echoes, _ = field_echoes(rng, s, d)
    secs += echoes
    rng.shuffle(secs)
    d["sections"] = secs
    d["trailing"], d["front"], d["grammar"] = [], None, None
    return d


def _env(r):
    """the observable part of a tool envelope (status, validation status, pairs, canonical / hash, repair rule ids)"""
    if not isinstance(r, dict):
        return repr(r)
    return {"status": r.get("status"), "validation_status": r.get("validation_status"), "valid": r.get("valid"),
            "validation_errors": _pairs(r.get("validation_errors")), "warnings": _pairs(r.get("warnings")),
            "canonical": r.get("canonical"), "canonical_hash": r.get("canonical_hash"),
            "repairs": sorted(str(x.get("rule_id") or x.get("code") or x.get("type")) for x in (r.get("repairs") or r.get("corrections") or []) if isinstance(x, dict))}


def tool_sequence(name, calls, tmpdir):
    """calls: [{tool: validate|write, text, fix|lenient, profile}] on ONE ValidateTool and ONE WriteTool; every response is compared
    with what a FRESH instance returns for the same call; fix=False validate calls must return emit(parse_with_warnings(text)[0])"""
    from octave_mcp.core.emitter import emit
    from octave_mcp.core.parser import parse_with_warnings
    from octave_mcp.mcp.validate import ValidateTool
    from octave_mcp.mcp.write import WriteTool
    vt, wt = ValidateTool(), WriteTool()
    target = os.path.join(tmpdir, "ts_%d.oct.md" % os.getpid())
    steps = []
    for k, c in enumerate(calls):
        if c["tool"] == "validate":
            kw = dict(content=c["text"], schema=name, profile=c["profile"], fix=c["fix"])
            got = _run(vt.execute(**kw))
            fresh = _run(ValidateTool().execute(**kw))
        else:
            kw = dict(target_path=target, content=c["text"], schema=name, corrections_only=True, lenient=c["lenient"])
            got = _run(wt.execute(**kw))
            fresh = _run(WriteTool().execute(**kw))
        a, b = _mask(got), _mask(fresh)
        diff = sorted(k2 for k2 in set(a) | set(b) if a.get(k2) != b.get(k2)) if isinstance(a, dict) and isinstance(b, dict) else ["<envelope>"]
        readonly_broken = False
        repaired = False
        if c["tool"] == "validate" and got.get("status") == "success":
            plain = emit(parse_with_warnings(c["text"])[0])
            if not c["fix"]:
                readonly_broken = got.get("canonical") != plain
            else:
                repaired = fresh.get("canonical") != plain
        steps.append({"step": k, "diff": diff, "readonly_broken": readonly_broken, "repaired": repaired, "got": _env(got), "fresh": _env(fresh)})
    return steps


def judge_toolseq(case, steps, fail, hist):
    base = {"schema": case["schema_text"], "schema_name": case["schema"], "calls": case["calls"], "kind": "tool-reuse"}
    for st in steps:
        c = case["calls"][st["step"]]
        hist("toolseq_call", "%s %s" % (c["tool"], ("fix=%s" % c["fix"]) if c["tool"] == "validate" else ("lenient=%s" % c["lenient"])))
        if st["repaired"]:
            hist("toolseq_fix_call_repaired_something", "yes")
        hist("toolseq_status", str(st["fresh"]["validation_status"]) if isinstance(st["fresh"], dict) else "?")
        if st["readonly_broken"]:
            fail(dict(base, step=st["step"], text=c["text"], returned_canonical=st["got"]["canonical"]),
                 "tool-reuse: fix off, yet the canonical text returned differs from emit(parse_with_warnings(x)[0]) (after earlier calls on the same tool instance)")
        if st["diff"]:
            fail(dict(base, step=st["step"], text=c["text"], differing_keys=st["diff"], response=st["got"], response_of_fresh_instance=st["fresh"]),
                 "tool-reuse: the response of a long-lived tool instance differs from the response of a fresh instance for the same call: " + ", ".join(st["diff"]))


def work_toolseq(case):
    tally = Tally()
    try:
        steps = tool_sequence(case["schema"], case["calls"], _WORK["root"])
    except Exception as e:  # noqa
        import traceback
        tally.fail({"schema": case["schema_text"], "schema_name": case["schema"], "calls": case["calls"], "kind": "tool-reuse"},
                   "tool-reuse: raised %s: %s | %s" % (type(e).__name__, e, traceback.format_exc(limit=3)[-300:]))
        steps = []
    judge_toolseq(case, steps, tally.fail, tally.hist)
    return {"hists": tally.hists, "count": 2 * len(steps), "failures": tally.failures, "steps": len(steps),
            "sample": ({"schema": case["schema_text"], "calls": case["calls"][:4], "steps": steps[:4]} if case["id"] == 0 else None)}


def gen_tool_calls(rng, texts_by_doc):
    """texts_by_doc: [[canonical, respelling, ...], ...] -> an interleaving of fix on/off, identical / respelled texts, both tools"""
    calls = []
    for texts in texts_by_doc:
        t0 = texts[0]
        prof = rng.choice(PROFILES)
        calls += [{"tool": "validate", "text": t0, "fix": False, "profile": prof},
                  {"tool": "validate", "text": t0, "fix": True, "profile": rng.choice(PROFILES)},
                  {"tool": "validate", "text": t0, "fix": False, "profile": prof}]
        for t in texts[1:]:
            calls.append({"tool": "validate", "text": t, "fix": rng.random() < 0.3, "profile": prof})
        calls.append({"tool": "write", "text": t0, "lenient": True})
        calls.append({"tool": "write", "text": rng.choice(texts), "lenient": False})
        calls.append({"tool": "validate", "text": t0, "fix": False, "profile": prof})
    # a second pass in another order: identical texts again, long after the fix=True calls
    extra = []
    for texts in texts_by_doc:
        extra.append({"tool": "validate", "text": texts[0], "fix": False, "profile": rng.choice(PROFILES)})
        extra.append({"tool": "write", "text": texts[0], "lenient": False})
        extra.append({"tool": "validate", "text": rng.choice(texts), "fix": rng.random() < 0.5, "profile": "STANDARD"})
    rng.shuffle(extra)
    return calls + extra


# =====================================================================================================
# main process
# =====================================================================================================
def dec_pairs(t):
    return [] if t == "-" else sorted({tuple(dec_str(x) for x in e.split(":")) for e in t.split(",")})


def compare_model(ctx, case, res, line_out):
    """model (val driver) vs the observations on the canonical text"""
    obs = res["canon_obs"]
    if obs is None:
        return
    if line_out.startswith("!"):
        ctx.correspondence_failure({"schema": case["schema_text"], "text": res["canon_text"], "model": line_out}, "val driver error")
        return
    parts = [p.strip() for p in line_out.split(" | ")]
    ctx.count(len(parts))
    base = {"schema": case["schema_text"], "text": res["canon_text"]}
    for i, p in enumerate(PROFILES):
        body = parts[i][2:]
        if body == "OUT":
            ctx.hist("model", "out-of-model")
            return
        st, errs, warns = body.split(" ")
        want = [dec_str(st), [list(x) for x in dec_pairs(errs)], [list(x) for x in dec_pairs(warns)]]
        got = [obs["tool:" + p][1], [list(x) for x in obs["tool:" + p][2]], [list(x) for x in obs["tool:" + p][3]]]
        if obs["tool:" + p][0] != "success":
            continue
        if want != got:
            ctx.correspondence_failure(dict(base, profile=p, model=want, impl=got), "octave_validate verdict differs from the model")
    ctx.hist("model", "in-model")
    a = parts[4][2:]
    if a != "OUT" and [list(x) for x in dec_pairs(a)] != [list(x) for x in obs["api:strict=0"]]:
        ctx.correspondence_failure(dict(base, model=dec_pairs(a), impl=obs["api:strict=0"]), "Validator.validate differs from the model")
    w = parts[5][2:]
    if w != "OUT" and obs["write:lenient=0"][0] == "success":
        st, errs = w.split(" ")
        if [dec_str(st), [list(x) for x in dec_pairs(errs)]] != [obs["write:lenient=0"][1], [list(x) for x in obs["write:lenient=0"][2]]]:
            ctx.correspondence_failure(dict(base, model=[dec_str(st), dec_pairs(errs)], impl=obs["write:lenient=0"]),
                                       "octave_write(schema=..) verdict differs from the model")
    c = parts[6][2:]
    if c != "OUT" and "cli" in obs and obs["cli"][0] is not None:
        st, errs = c.split(" ")
        mcodes = sorted(dec_str(e.split(":")[0]) for e in errs.split(",")) if errs != "-" else []
        if dec_str(st) != obs["cli"][0] or (dec_str(st) == "INVALID" and mcodes != obs["cli"][2]):
            ctx.correspondence_failure(dict(base, model=[dec_str(st), mcodes], impl=obs["cli"]), "`octave validate` verdict differs from the model")
    e = parts[7][2:]
    if e != parts[1][2:]:
        ctx.correspondence_failure(dict(base, erased=e, plain=parts[1][2:]), "model: verdict of the erased document differs (theorem verdict_erase)")


def write_schema(root, name, text):
    with open(os.path.join(root, "specs", "schemas", name.lower() + ".oct.md"), "w", encoding="utf-8") as f:
        f.write(text)


# ---- corpus / findings --------------------------------------------------------------------------
NONFINITE_SCHEMA = {"name": "VERIFC09_NF", "policy": "IGNORE", "fields": [("F0", [("REQ",), ("TYPE", "NUMBER")], "SELF"), ("F1", [("OPT",), ("RANGE", 0, 10)], "SELF")],
                    "ptargets": [], "default": None, "fm": []}


def has_nonfinite(text):
    """classifier of C09-nonfinite-float-kind: the parsed document holds a float whose canonical text is inf/-inf/nan (wf clause 15)"""
    from octave_mcp.core.parser import parse_with_warnings
    try:
        nd = astcodec.doc_to_neutral(parse_with_warnings(text)[0])
    except Exception:  # noqa
        return False
    return any(v[0] == "float" and v[1] in ("inf", "-inf", "nan") for _, v in docprops.values_of(nd))


def tool_obs(text, name, profile="STANDARD"):
    from octave_mcp.mcp.validate import ValidateTool
    r = _run(ValidateTool().execute(content=text, schema=name, profile=profile, fix=False))
    return [r.get("status"), r.get("validation_status"), _pairs(r.get("validation_errors")), _pairs(r.get("warnings"))], r.get("canonical")


def run_corpus(ctx, root):
    """finding witnesses and fixed regression pairs: (schema text, texts that must be validated alike)"""
    cdir = VERIF / "corpus" / "C09"
    recs = []
    if cdir.exists():
        for p in sorted(cdir.glob("*.json")):
            recs.append((p.name, json.loads(p.read_text())))
    for fid, f in ctx.known.items():
        recs.append(("finding:" + fid, dict(f["witness"], finding=fid)))
    for fname, rec in recs:
        name = rec["schema_name"]
        if rec.get("schema_text"):
            write_schema(root, name, rec["schema_text"])
        if rec.get("kind") == "tool-reuse":
            case = {"schema": name, "schema_text": rec.get("schema_text"), "calls": rec["calls"]}
            steps = tool_sequence(name, rec["calls"], root)
            ctx.count(2 * len(steps))
            judge_toolseq(case, steps, lambda c, w, f=None: ctx.property_failure(dict(c, corpus=fname), w), lambda *a: None)
            for st, want in zip(steps, rec.get("expect_status", [])):
                if want is not None and st["fresh"]["validation_status"] != want:
                    ctx.property_failure({"corpus": fname, "step": st["step"], "observed": st["fresh"], "expected": want},
                                         "corpus case: validation status (fresh instance) differs from the recorded one")
            continue
        if rec.get("kind") == "schema-reuse":
            case = {"schema": name, "schema_text": rec.get("schema_text"), "texts": rec["texts"], "order": rec["order"],
                    "same_validator": rec.get("same_validator", False)}
            steps = reuse_sequence(name, rec["texts"], rec["order"], case["same_validator"])
            ctx.count(2 * len(steps))
            judge_reuse(case, steps, lambda c, w, f=None: ctx.property_failure(dict(c, corpus=fname), w), lambda *a: None)
            for st, want in zip(steps, rec.get("expect", [])):
                if [list(p) for p in st["fresh"]] != want:
                    ctx.property_failure({"corpus": fname, "step": st["step"], "observed": st["fresh"], "expected": want},
                                         "corpus case: verdict (fresh schema) differs from the recorded one")
            continue
        texts = list(rec["texts"])
        if rec.get("add_canonical"):
            texts.append(tool_obs(texts[0], name)[1])
            if rec.get("all_surfaces") and isinstance(texts[-1], str):
                texts.append(tool_obs(texts[-1], name)[1])          # canonical of the canonical text
        if rec.get("all_surfaces"):          # every profile, Validator API, octave_validate, octave_write on every text
            all_obs = []
            for t in texts:
                o, problems, *_ = observe_text(t, name, 0, root, set(PROFILES))
                all_obs.append(o)
                ctx.count(len(o))
                for surface, what in problems:
                    ctx.property_failure({"corpus": fname, "schema": rec.get("schema_text"), "schema_name": name, "text": t, "surface": surface},
                                         "corpus case: %s: %s" % (surface, what))
            for t, o in zip(texts[1:], all_obs[1:]):
                for k in o:
                    if k.startswith("write") and (o[k][0] != "success" or all_obs[0][k][0] != "success"):
                        continue
                    if o[k] != all_obs[0][k]:
                        ctx.property_failure({"corpus": fname, "schema": rec.get("schema_text"), "schema_name": name, "surface": k,
                                              "text_a": texts[0], "text_b": t, "observed_a": all_obs[0][k], "observed_b": o[k]},
                                             "corpus case: %s: the texts of one document are validated differently" % k.split(":")[0])
        observed = [tool_obs(t, name, rec.get("profile", "STANDARD"))[0] for t in texts]
        ctx.count(len(texts))
        differs = any(o != observed[0] for o in observed[1:])
        if rec.get("finding"):
            if fname.startswith("finding:"):
                clause = has_nonfinite(texts[0]) if rec["finding"] == F_NONFINITE else blank_unloadable_front(texts[0])
                ctx.finding_witness(rec["finding"], differs and clause)
            continue
        if differs:
            ctx.property_failure({"corpus": fname, "schema": rec.get("schema_text"), "schema_name": name, "texts": texts, "observed": observed},
                                 "corpus case: the texts of one document are validated differently")
        if rec.get("expect_status") and observed[0][1] != rec["expect_status"]:
            ctx.property_failure({"corpus": fname, "observed": observed[0], "expected": rec["expect_status"]},
                                 "corpus case: validation status differs from the recorded one")


CANONEQ_SCHEMA = {"name": "VERIFC09_CE", "policy": "REJECT",
                  "fields": [("UNIT", [("REQ",), ("ENUM", ["\u03a9", "k\u03a9"])], "SELF"), ("SYL", [("OPT",), ("MAX_LENGTH", 1)], "SELF"),
                             ("NAME", [("OPT",), ("CONST", "\u00c5se")], "SELF"), ("IDEO", [("OPT",), ("MIN_LENGTH", 1)], None)],
                  "ptargets": [], "default": None, "fm": []}
# (NFC spelling, canonically equivalent spellings): singleton decompositions (no combining mark at all), conjoining jamo, NFD
CANONEQ_SPELLINGS = {"UNIT": [("\u03a9", ["\u2126"]), ("k\u03a9", ["k\u2126"]), ("m\u03a9", ["m\u2126"])],
                     "SYL": [("\ud55c", ["\u1112\u1161\u11ab"]), ("\ud55c\uae00", ["\u1112\u1161\u11ab\uae00"])],
                     "NAME": [("\u00c5se", ["\u212bse", "A\u030ase"]), ("\u00e5se", ["a\u030ase"])],
                     "IDEO": [("\u8c48", ["\uf900"])]}


def run_canonical_equivalence_stream(ctx, root):
    """a document and a canonically equivalent (non-NFC) spelling of it outside literal zones: the reader normalises ordinary text to
    NFC, so both are the same document -- same status, same (code, field) pairs, same canonical text, under every profile (seed r7-C09-a:
    a reader that normalises only lines carrying a combining mark)"""
    write_schema(root, CANONEQ_SCHEMA["name"], schema_text(CANONEQ_SCHEMA))
    rng = ctx.rng
    name = CANONEQ_SCHEMA["name"]
    for i in range(ctx.scale(16, 80)):
        rows = []
        for f in ("UNIT", "SYL", "NAME", "IDEO"):
            if f == "UNIT" or rng.random() < 0.6:
                nfc, alts = rng.choice(CANONEQ_SPELLINGS[f])
                rows.append((f, nfc, rng.choice(alts)))
        quote = rng.random() < 0.7
        def text(k):
            body = "".join('  %s::%s\n' % (r[0], ('"%s"' % r[k]) if quote or r[0] == "NAME" else r[k]) for r in rows)
            return "===D===\n%s:\n%s===END===\n" % (name, body)
        x, y = text(1), text(2)
        for profile in PROFILES:
            a, ca = tool_obs(x, name, profile)
            b, cb = tool_obs(y, name, profile)
            ctx.count(2)
            same = a == b and ca == cb
            ctx.hist("canonical_equivalence_stream", "same" if same else "differs")
            if not same:
                ctx.property_failure({"schema": schema_text(CANONEQ_SCHEMA), "schema_name": name, "text_a": x, "text_b": y, "profile": profile,
                                      "observed_a": a, "observed_b": b, "canonical_a": ca, "canonical_b": cb},
                                     "tool: a canonically equivalent (non-NFC) spelling of a document outside literal zones is validated "
                                     "differently from the document, or has a different canonical text")
                break


def run_nonfinite_stream(ctx, root):
    """documents OUTSIDE the round-trip domain (wf clause 15): reported only through the finding's classifier"""
    write_schema(root, NONFINITE_SCHEMA["name"], schema_text(NONFINITE_SCHEMA))
    rng = ctx.rng
    for i in range(12):
        lex = rng.choice(["1e400", "-1e400", "1e999", "2E+308"])
        other = rng.choice(["", "  F1::5\n", "  F1::11\n"])
        x = "===D===\n%s:\n  F0::%s\n%s===END===\n" % (NONFINITE_SCHEMA["name"], lex, other)
        a, canon = tool_obs(x, NONFINITE_SCHEMA["name"])
        b, _ = tool_obs(canon, NONFINITE_SCHEMA["name"])
        ctx.count(2)
        ctx.hist("nonfinite_stream", "differs" if a != b else "same")
        if a != b:
            ctx.property_failure({"schema": schema_text(NONFINITE_SCHEMA), "schema_name": NONFINITE_SCHEMA["name"], "text_a": x, "text_b": canon,
                                  "observed_a": a, "observed_b": b},
                                 "tool: the canonical text is validated differently from the document",
                                 finding=F_NONFINITE if has_nonfinite(x) else None)


def replay(ctx, case):
    """./check C09 --replay <file>: re-observe the recorded pair of texts; 1 = still validated differently / still violating"""
    c = case.get("case", case)
    root = tempfile.mkdtemp(prefix="c09replay")
    old = os.getcwd()
    try:
        os.makedirs(os.path.join(root, "specs", "schemas"))
        os.chdir(root)
        _init_worker(root)
        if not c.get("schema_name"):
            print("replay: no schema recorded (%s)" % case.get("what"))
            return 2
        if c.get("schema"):
            write_schema(root, c["schema_name"], c["schema"])
        name = c["schema_name"]
        if c.get("kind") == "tool-reuse":
            steps = tool_sequence(name, c["calls"], root)
            for st in steps:
                print("step %d diff=%s readonly_broken=%s status=%s fresh=%s" % (st["step"], st["diff"], st["readonly_broken"],
                                                                                   st["got"]["validation_status"], st["fresh"]["validation_status"]))
            return 1 if any(st["diff"] or st["readonly_broken"] for st in steps) else 0
        if c.get("kind") == "schema-reuse":
            steps = reuse_sequence(name, c["texts"], c["order"], c.get("same_validator", False))
            bad = [st for st in steps if st["reused"] != st["fresh"] or st["changed"]]
            for st in steps:
                print("step %d doc %d reused=%s fresh=%s changed=%s" % (st["step"], st["doc"], st["reused"], st["fresh"], sorted(st["changed"])))
            return 1 if bad else 0
        if "text_b" in c:
            oa, pa, *_ = observe_text(c["text_a"], name, 1, root, set(PROFILES))
            ob, pb, *_ = observe_text(c["text_b"], name, 1, root, set(PROFILES))
            k = c.get("surface")
            print("surface %s\n a: %s\n b: %s" % (k, oa.get(k), ob.get(k)))
            return 1 if oa.get(k) != ob.get(k) else 0
        if "text" in c:
            o, p, *_ = observe_text(c["text"], name, 1, root, set(PROFILES))
            print("problems:", p)
            return 1 if p else 0
        print("replay: case shape not understood")
        return 2
    finally:
        os.chdir(old)
        shutil.rmtree(root, ignore_errors=True)


def run(ctx):
    from octave_mcp.schemas.loader import load_schema_by_name
    have_val = bool(ctx.build_status["drivers"].get("val", False))
    have_syn = bool(ctx.build_status["drivers"].get("syn", False))
    n_docs = ctx.scale(1500, 30000)
    reps = ctx.scale(4, 16)
    ctx.extra["rule"] = (
        "schemas from C08's generator (1-4 fields, chains <=4 over the 13 kinds, 5 UNKNOWN_FIELDS spellings) + explicit/absent/"
        "unknown field targets, POLICY.TARGETS, DEFAULT_TARGET, FRONTMATTER defs; plus the builtin dict schema META. instance = a "
        "content-model document (docgen, clean stream: comments, sections, blocks with targets, META, frontmatter, lists, zones) "
        "into which a block named like the schema is inserted: each field omitted / documented-good value / random value / "
        "duplicated, unknown fields, nested block, orphan comment; sometimes a second block of the name, the name below a "
        "section/inside a block, or as an assignment; META block with good/bad TYPE, VERSION, STATUS. Only documents that falsify "
        "no wf clause (extracted Syn.Wf) are used (known C01-C03 classes stay with their owners); a text that does not read back to the "
        "document's content is counted (text_roundtrip_miss) and still observed. texts per document: "
        "canonical, %d respellings (every render freedom toggled per site + number lexemes 1.0/1.00/1e0/05; one all-freedoms corner), "
        "canon(x), canon(canon(x)). quick: every surface and all four profiles on every text; thorough: all of them on the canonical "
        "text and on every text of each tenth document, on the other texts STANDARD + one rotating profile, one write mode, repeat-call "
        "check on every second text. non-trivial = distinct respelling with >= 5 lenient sites. "
        "schema-reuse stream (Validator API): per generated schema (most fields routed to a custom target NOT declared in POLICY.TARGETS) "
        "ONE loaded SchemaDefinition and ONE section_schemas dict serve a shuffled sequence of 3-6 documents (validated block + blocks "
        "annotated KEY[->TARGET] naming those custom targets), every document validated at least twice; each verdict must equal the one "
        "with a freshly loaded schema, and the object must be unchanged (attribute-wise) after every call. "
        "tool-instance-reuse stream: per schema of repairable fields (ENUM members, TYPE[NUMBER]) 1-3 small documents that mostly HAVE a "
        "schema repair available (enum member in another case, numeral written as a string), each in canonical text + 2 respellings; ONE "
        "ValidateTool and ONE WriteTool serve an interleaving of fix=False / fix=True / fix=False on the identical text, respellings, "
        "octave_write lenient on/off, and a shuffled second pass; every response must equal the response of a FRESH instance for the same "
        "call (timestamps and message texts masked) and every fix=False response must carry emit(parse_with_warnings(x)[0]). "
        "frontmatter: 30%% of the schemas declare FRONTMATTER fields (required/optional/all-optional), 1 in 10 documents goes against the "
        "shipped SKILL schema; documents carry mapping / scalar / list / comment-only / broken-YAML / no frontmatter, and respellings of "
        "documents without frontmatter get, with p=0.35, a BLANK frontmatter block (5 spellings) that canonicalisation drops. "
        "frontmatter whitespace shapes (%d): uniformly indented mappings (first line indented, 1/2/4 columns), leading / trailing blank lines "
        "inside the block, trailing spaces, tabs after values, CRLF, block scalars (| |+ >-, YAML-looking lines, trailing spaces on the last "
        "line), nested mappings, block sequences, value-less last line; 1 document in 10 goes against SKILL with such a frontmatter; the "
        "layout after the closing fence is a respelling freedom." % (reps, len(FRONT_WS_SHAPES)))
    root = tempfile.mkdtemp(prefix="c09_")
    old = os.getcwd()
    rng = ctx.rng
    try:
        os.makedirs(os.path.join(root, "specs", "schemas"))
        os.chdir(root)
        _init_worker(root)
        # ---- corpus first, then the finding-class stream
        import time
        t0 = time.time()
        phases = {}
        run_corpus(ctx, root)
        run_nonfinite_stream(ctx, root)
        run_canonical_equivalence_stream(ctx, root)
        phases["corpus"] = round(time.time() - t0, 1)
        # ---- schemas
        n_schemas = max(8, n_docs // 12)
        schemas = []
        for si in range(n_schemas):
            s = gen_schema(rng, si)
            txt = schema_text(s)
            write_schema(root, s["name"], txt)
            try:
                sd = load_schema_by_name(s["name"])
            except Exception as e:  # noqa
                ctx.hist("schema_load", "raised:" + type(e).__name__)
                continue
            if sd is None or set(sd.fields) != {f for f, _, _ in s["fields"]}:
                ctx.hist("schema_load", "fields-differ")
                continue
            ctx.hist("schema_load", "ok")
            ctx.hist("policy", str(s["policy"]))
            for _, ch, tgt in s["fields"]:
                ctx.hist("field_target", str(tgt))
                for c in ch:
                    ctx.hist("constraint_kind", c08.kind_of(c))
            s["text"] = txt
            schemas.append(s)
        phases["schemas"] = round(time.time() - t0, 1)
        # ---- documents
        ok_strings = doccases.ok_string_set(ctx)
        g = docgen.Gen(rng, wild=False, max_depth=3, max_sibs=3, clean=True, ok_strings=ok_strings)
        cases = []
        tries = 0
        while len(cases) < n_docs and tries < 12:
            tries += 1
            batch = []
            for _ in range(int((n_docs - len(cases)) * 1.3) + 8):
                s = rng.choice(schemas)
                d = gen_doc(rng, g, s)
                if docprops.in_content_model(d):
                    batch.append((s, d))
                else:
                    ctx.hist("doc_filter", "outside-content-model")
            cls = doccases.model_clauses([d for _, d in batch]) if have_syn else [[] for _ in batch]
            for (s, d), cl in zip(batch, cls):
                if cl or doccases.nfc_escape_clause_doc(d):
                    ctx.hist("doc_filter", "falsifies-wf-clause")
                    continue
                ctx.hist("doc_filter", "used")
                if len(cases) < n_docs:
                    cases.append((s, d))
        work_items = []
        for i, (s, d) in enumerate(cases):
            use_meta = (i % 5 == 4)            # every fifth document is validated against the builtin dict schema META
            sname = "META" if use_meta else s["name"]
            if i % 10 == 7:
                use_meta, sname = True, "SKILL"   # the shipped schema file that declares a FRONTMATTER block
                if d["grammar"] is None and rng.random() < 0.85:
                    d["front"] = rng.choice(list(FRONT_WS_SHAPES.values())) if rng.random() < 0.8 else rng.choice(FRONT_VARIANTS)
            cli = 1 if (use_meta or i % 7 == 0) else 0
            if not ctx.quick() and i % 400 == 0:
                cli = 2                          # real subprocess
            # full = every surface on every text; otherwise every surface on the canonical text and a rotating subset on the others
            work_items.append({"id": i, "schema": sname, "schema_text": None if use_meta else s["text"], "doc": d, "seed": rng.random(),
                               "reps": reps, "cli": cli, "second": PROFILES[i % 4], "topy": i % 3 == 0, "full": ctx.quick() or i % 10 == 0})
            for ek in d.pop("_echo_kinds", []):
                ctx.hist("field_name_repeated_outside_block", ek)
            ctx.hist("schema_kind", ("shipped " + sname) if use_meta else ("generated+FRONTMATTER" if s["fm"] else "generated"))
            _shape = next((k for k, v in FRONT_WS_SHAPES.items() if v == d["front"]), None)
            if _shape:
                ctx.hist("frontmatter_whitespace_shape", _shape)
            ctx.hist("frontmatter_of_document", "absent" if d["front"] is None else ("mapping" if ":" in d["front"] and not d["front"].startswith(("#", "-")) and "[x" not in d["front"] else "scalar/list/comment/broken"))
        # ---- schema-object-reuse stream (Validator API): one loaded SchemaDefinition per sequence
        from octave_mcp.core.parser import parse_with_warnings as _pww
        reuse_items = []
        n_reuse = ctx.scale(160, 2500)
        g2 = docgen.Gen(rng, wild=False, max_depth=2, max_sibs=2, clean=True, ok_strings=ok_strings)
        for ri in range(n_reuse):
            rs = gen_reuse_schema(rng, ri)
            rtxt = schema_text(rs)
            write_schema(root, rs["name"], rtxt)
            try:
                if load_schema_by_name(rs["name"]) is None:
                    raise ValueError("not found")
            except Exception:  # noqa
                ctx.hist("reuse_schema_load", "failed")
                continue
            texts = []
            for d in gen_reuse_docs(rng, g2, rs, rng.randint(3, 6)):
                try:
                    t = doccases.impl_emit(docprops.expected(d))
                    _pww(t)
                    texts.append(t)
                except Exception:  # noqa
                    ctx.hist("reuse_doc", "not-readable")
            if len(texts) < 2:
                continue
            order = list(range(len(texts))) * 2
            rng.shuffle(order)
            order += [order[0], rng.randrange(len(texts))]          # every document at least twice, at different points
            for tg in {t for _, _, t in rs["fields"]}:
                ctx.hist("reuse_field_target", "undeclared custom" if tg in CUSTOM_TARGETS else str(tg))
            ctx.hist("reuse_sequence_length", len(order))
            reuse_items.append({"id": len(reuse_items), "schema": rs["name"], "schema_text": rtxt, "texts": texts, "order": order,
                                "same_validator": ri % 2 == 1})
        # ---- tool-instance-reuse stream: documents that HAVE a schema repair available, one ValidateTool + one WriteTool per sequence
        tool_items = []
        for ti_ in range(ctx.scale(120, 2000)):
            ts = gen_repair_schema(rng, ti_)
            ttxt = schema_text(ts)
            write_schema(root, ts["name"], ttxt)
            by_doc = []
            for _ in range(rng.randint(1, 3)):
                d = gen_repair_doc(rng, g2, ts)
                try:
                    canon_t = doccases.impl_emit(docprops.expected(d))
                    _pww(canon_t)
                except Exception:  # noqa
                    continue
                texts = [canon_t]
                for _k in range(2):
                    r2 = random.Random(rng.random())
                    d2, _n = respell_numbers(d, r2)
                    t2 = render.render(d2, r2)[0]
                    try:
                        if json.loads(json.dumps(astcodec.doc_to_neutral(_pww(t2)[0]))) == json.loads(json.dumps(docprops.expected(d))):
                            texts.append(t2)
                    except Exception:  # noqa
                        pass
                by_doc.append(texts)
            if not by_doc:
                continue
            calls = gen_tool_calls(rng, by_doc)
            ctx.hist("toolseq_length", len(calls))
            tool_items.append({"id": len(tool_items), "schema": ts["name"], "schema_text": ttxt, "calls": calls})
        phases["documents"] = round(time.time() - t0, 1)
        # ---- implementation side, in parallel (texts are built, observed and judged in the workers)
        nproc = min(16, os.cpu_count() or 4)
        mp = multiprocessing.get_context("fork")
        with mp.Pool(nproc, initializer=_init_worker, initargs=(root,)) as pool:
            reuse_results = pool.map(work_reuse, reuse_items, chunksize=max(1, min(20, len(reuse_items) // (nproc * 4) or 1)))
            reuse_results += pool.map(work_toolseq, tool_items, chunksize=max(1, min(10, len(tool_items) // (nproc * 4) or 1)))
            results = pool.map(work, work_items, chunksize=max(1, min(50, len(work_items) // (nproc * 8))))
        for rr in reuse_results:
            ctx.count(rr["count"])
            for name_, buckets in rr["hists"].items():
                for bk, n in buckets.items():
                    ctx.hist(name_, bk, n)
            for case_, what, fid_ in rr["failures"]:
                ctx.property_failure(case_, what, finding=fid_)
            if rr["sample"]:
                ctx.sample(rr["sample"])
        ctx.extra["schema_reuse_sequences"] = len(reuse_items)
        ctx.extra["schema_reuse_validations"] = sum(rr["steps"] for rr in reuse_results[:len(reuse_items)])
        ctx.extra["tool_reuse_sequences"] = len(tool_items)
        ctx.extra["tool_reuse_calls"] = sum(rr["steps"] for rr in reuse_results[len(reuse_items):])
        phases["observe"] = round(time.time() - t0, 1)
        by_id = {r["id"]: r for r in results}
        lines, owners, topy = [], [], []
        n_texts = 0
        for w in work_items:
            r = by_id[w["id"]]
            t = r["tally"]
            ctx.count(t["count"])
            for name_, buckets in t["hists"].items():
                for bk, n in buckets.items():
                    ctx.hist(name_, bk, n)
            n_texts += sum(int(k) * v for k, v in t["hists"].get("texts_per_document", {}).items())
            for k in t["keys"]:
                ctx.nontrivial(k)
            for case_, what, fid_ in t["failures"]:
                ctx.property_failure(case_, what, finding=fid_)
            if r["sample"]:
                ctx.sample(r["sample"])
            if r["model"] and not r["model"].startswith("OOM:"):
                lines.append(r["model"])
                owners.append((w, r))
            elif r["model"]:
                ctx.hist("model", "oracle-out-of-model")
            topy += r["topy"]
        # ---- correspondence with the extracted model
        if have_val and lines:
            outs = run_driver("val", lines)
            for (w, r), o in zip(owners, outs):
                compare_model(ctx, w, r, o)
            touts = run_driver("val", [t[0] for t in topy])
            for (line, want, v), got in zip(topy, touts):
                ctx.count()
                ctx.hist("to_python_value_kind", v[0])
                if got != want:
                    ctx.correspondence_failure({"value": v, "impl": want, "model": got}, "_to_python_value differs from the model")
            ctx.extra["model_cases"] = len(lines)
            ctx.extra["to_python_value_cases"] = len(topy)
        phases["model"] = round(time.time() - t0, 1)
        ctx.extra["phase_seconds_cumulative"] = phases
        ctx.extra["documents"] = len(work_items)
        ctx.extra["texts"] = n_texts
        ctx.extra["schemas"] = len(schemas)
    finally:
        os.chdir(old)
        shutil.rmtree(root, ignore_errors=True)
    ctx.assumptions += [
        "C09_respelling / C09_canonical take the C02/C03 round trip (parse of the respelling / of the canonical text yields the same "
        "content) as an explicit hypothesis; the harness enforces it per text (texts that do not read back to the document's content "
        "are not used and are counted)",
        "float(text), str(v) of non-atomic values, re.match verdicts, fromisoformat verdicts, str.isspace and validate_frontmatter are "
        "oracles computed by CPython 3.12 and passed with each case",
        "model scope: HolographicValue/Absent inside a validated block, ints above float range, ENUM values of a dict schema that could "
        "prefix-match a dataclass repr are OutOfModel (counted); errors are compared as sets",
        "octave_write(lenient=true) and the CLI are compared across texts only where they report a validation (status success / a status line)",
    ]
    ctx.trusted_base += ["harness/lib/render.py + harness/props/c09.py number respelling (independent lenient printer)",
                         "harness/translate/validate_t.py (doc-flow extraction of ValidateTool.execute)"]
