"""C18 -- absent, null and value stay distinct; changes touch only named keys (I2).

Parts (see docs/design_C18.md):
  W  known-finding witnesses + corpus/C18
  K  changes mode: content-model documents (restricted to the C01/C02 domain) x request sequences (<=3) through
     WriteTool.execute(target_path, changes=...):  (a) frame on the file bytes, (b) presence / None / value of every named key
     in the re-read file, (c) correspondence of the resulting AST and text with the extracted model (driver `chg`)
  A  Absent placed at every position of constructed ASTs: emit vs model emit vs emit(drop_absent)
  N  null / "" / [] at every position: pairwise distinct texts, read back as themselves
  C  (thorough; witnesses always) the CLI loop `octave write --changes`
"""
from __future__ import annotations

import asyncio
import copy
import json
import multiprocessing
import os
import random
import re
import shutil
import tempfile
import unicodedata
from pathlib import Path

from lib import astcodec, doccases, docgen, docprops
from lib.model import dec_str, enc_str, run_driver

LEVEL = "proof"
DRIVERS = ["chg", "syn"]
PFX = "C18-"
CORPUS = Path(__file__).resolve().parents[2] / "corpus" / "C18"
IDENT = re.compile(r"^[A-Za-z_][A-Za-z0-9_]*$")


def scratch_dir(prefix):
    """tempfile.mkdtemp, on tmpfs when available (octave_write fsyncs every file: ~10 ms per call on a disk)"""
    base = "/dev/shm" if os.path.isdir("/dev/shm") and os.access("/dev/shm", os.W_OK) else None
    return tempfile.mkdtemp(prefix=prefix, dir=base)


# ======================================================================================================================
# request values
# ======================================================================================================================
def sentinel():
    """the DELETE sentinel exactly as the code spells it"""
    from octave_mcp.mcp.write import DELETE_SENTINEL
    return dict(DELETE_SENTINEL)


def is_sentinel(v):
    s = sentinel()
    (k, val), = s.items()
    return isinstance(v, dict) and v.get(k) == val


def enc_jval(v, out):
    if v is None:
        out.append("n")
    elif isinstance(v, bool):
        out.append("t" if v else "f")
    elif isinstance(v, int):
        out.append("i" + enc_str(str(v)))
    elif isinstance(v, float):
        out.append("d" + enc_str(str(v)))
    elif isinstance(v, str):
        out.append("s" + enc_str(v))
    elif isinstance(v, list):
        out.append("l%d" % len(v))
        for x in v:
            enc_jval(x, out)
    elif isinstance(v, dict):
        out.append("m%d" % len(v))
        for k, x in v.items():
            out.append(enc_str(k))
            enc_jval(x, out)
    else:
        raise TypeError(type(v).__name__)


def enc_request(req, out):
    out.append(str(len(req)))
    for k, v in req.items():
        out.append(enc_str(k))
        enc_jval(v, out)


def enc_requests(reqs):
    out = [str(len(reqs))]
    for r in reqs:
        enc_request(r, out)
    return " ".join(out)


def norm_neutral(v):
    """the neutral AST value a request value stands for (independent of _normalize_value_for_ast)"""
    if v is None:
        return ("null",)
    if isinstance(v, bool):
        return ("bool", v)
    if isinstance(v, int):
        return ("int", str(v))
    if isinstance(v, float):
        return ("float", str(v))
    if isinstance(v, str):
        return ("str", v)
    if isinstance(v, list):
        return ("list", [norm_neutral(x) for x in v])
    if isinstance(v, dict):
        return ("map", [(k, norm_neutral(x)) for k, x in v.items()])
    raise TypeError(type(v).__name__)


def readback_form(nv, top=True):
    """How the documented surface grammar returns a value: an inline map [k::v,k2::w] IS a list of single-pair maps."""
    k = nv[0]
    if k == "map":
        items = [("map", [(kk, readback_form(x, False))]) for kk, x in nv[1]]
        return ("list", items) if top else ("splice", items)
    if k == "list":
        out = []
        for x in nv[1]:
            y = readback_form(x, False)
            if y[0] == "splice":
                out.extend(y[1])
            else:
                out.append(y)
        return ("list", out)
    if k == "str":
        return ("str", unicodedata.normalize("NFC", nv[1]))
    return nv


def _rb_top(nv):
    y = readback_form(nv, True)
    return ("list", y[1]) if y[0] == "splice" else y


def has_nested_map(v, inside=False):
    """classifier of finding nested-map-unreadable: a dict below a dict (directly or through a list)"""
    if isinstance(v, dict):
        if inside:
            return True
        return any(has_nested_map(x, True) for x in v.values())
    if isinstance(v, list):
        return any(has_nested_map(x, inside) for x in v)
    return False


_GATE = {}


def value_gate(v, pos):
    """Does this request value, on its own, survive emit -> parse at `pos` (assign | meta)?  (C02/C04 domain gate.)"""
    key = (json.dumps(v, sort_keys=False, ensure_ascii=True), pos)
    if key in _GATE:
        return _GATE[key]
    from octave_mcp.core.ast_nodes import Assignment, Document
    from octave_mcp.core.emitter import emit
    from octave_mcp.core.parser import parse
    nv = norm_neutral(v)
    ok = False
    try:
        av = astcodec.value_from_neutral(nv)
        d = Document(name="D", meta={"K": av}) if pos == "meta" else Document(name="D", sections=[Assignment(key="K", value=av)])
        t = emit(d)
        if "\r" not in t:
            d2 = parse(t)
            got = astcodec.value_to_neutral(d2.meta["K"] if pos == "meta" else d2.sections[0].value)
            ok = (got == _rb_top(nv)) and \
                (len(d2.sections) == (0 if pos == "meta" else 1)) and (list(d2.meta) == (["K"] if pos == "meta" else []))
    except Exception:  # noqa
        ok = False
    _GATE[key] = ok
    return ok


# ======================================================================================================================
# what a request names / demands (independent Python oracle; cross-checked with the Coq definitions top_last/mop_last)
# ======================================================================================================================
def route(key, v):
    if key.startswith("META."):
        return "metadot"
    if key == "META" and isinstance(v, dict):
        return "metadict"
    return "top"


def request_demands(req):
    """-> (top {key: ('del',)|('set', v)}, meta {field: ('del',)|('set', v)}, cleared: the META block was DELETEd at some point;
    after a clear every field not set again afterwards is demanded absent)"""
    top, meta = {}, {}
    cleared = False
    for key, v in req.items():
        r = route(key, v)
        if r == "top":
            top[key] = ("del",) if is_sentinel(v) else ("set", v)
        elif r == "metadot":
            meta[key[5:]] = ("del",) if is_sentinel(v) else ("set", v)
        elif is_sentinel(v):
            cleared = True
            meta = {k: ("del",) for k in meta}
        else:
            for mk, mv in v.items():
                meta[mk] = ("del",) if is_sentinel(mv) else ("set", mv)
    return top, meta, cleared


# ======================================================================================================================
# implementation side
# ======================================================================================================================
META_FIELD = re.compile(r"^  (?![ \]])(.+?)(::|:$)")


def spans_of(text, doc):
    """Partition the RAW lines of a canonical file by what they belong to, using the parser's line numbers:
    (head lines, [(field, lines)] of META, separator lines, [(key, kind, lines)] per top-level node, foot lines); None if the
    text does not have the canonical outline."""
    from octave_mcp.core.ast_nodes import Assignment, Block, Section
    if not text.endswith("\n"):
        return None
    lines = text.split("\n")[:-1]
    head = []
    if doc.raw_frontmatter is not None and doc.raw_frontmatter.strip():
        head += ["---"] + doc.raw_frontmatter.split("\n") + ["---", ""]
    if doc.grammar_version:
        head.append(f"OCTAVE::{doc.grammar_version}")
    head.append(f"==={doc.name}===")
    nfoot = len(doc.trailing_comments or []) + 1
    if lines[:len(head)] != head or len(lines) < len(head) + nfoot or lines[-1] != "===END===":
        return None
    nodes = [s for s in doc.sections if isinstance(s, (Assignment, Block, Section))]
    if len(nodes) != len(doc.sections):
        return None
    starts = [n.line - len(n.leading_comments or []) for n in nodes]
    foot_start = len(lines) - nfoot + 1                       # 1-based
    bounds = starts + [foot_start]
    if any(b <= a for a, b in zip(bounds, bounds[1:])) or (starts and starts[0] <= len(head)):
        return None
    body = []
    for n, a, b in zip(nodes, bounds, bounds[1:]):
        kind = "a" if isinstance(n, Assignment) else "b" if isinstance(n, Block) else "s"
        body.append((n.key, kind, lines[a - 1:b - 1]))
    pre = lines[len(head):bounds[0] - 1]
    sep = []
    if doc.has_separator:
        if not pre or pre[-1] != "---":
            return None
        sep, pre = ["---"], pre[:-1]
    meta = []
    if pre:
        if pre[0] != "META:":
            return None
        for ln in pre[1:]:
            m = META_FIELD.match(ln)
            if m:
                meta.append((m.group(1), [ln]))
            elif meta:
                meta[-1][1].append(ln)
            else:
                return None
        if [k for k, _ in meta] != list(doc.meta):
            return None
    elif doc.meta:
        return None
    return head, meta, sep, body, lines[foot_start - 1:]


def read_file(p):
    with open(p, encoding="utf-8", newline="") as f:
        return f.read()


def strict_parse(text):
    from octave_mcp.core.parser import parse
    try:
        return parse(text), None
    except Exception as e:  # noqa
        return None, f"{type(e).__name__}: {e}"[:200]


def first_assignment(nd, key):
    for n in nd["sections"]:
        if n[0] == "a" and n[1] == key:
            return n
    return None


def check_step(tb, ta, req, result):
    """One octave_write(changes=req) call: file text before `tb`, after `ta`.
    -> (failures [(what, finding|None)], notes [hist buckets], after_neutral|None)"""
    fails, notes = [], []
    top, meta, cleared = request_demands(req)
    nested = any(has_nested_map(v) for v in req.values()) or any(
        has_nested_map(mv) for k, v in req.items() if route(k, v) == "metadict" and not is_sentinel(v) for mv in v.values())
    db, eb = strict_parse(tb)
    if db is None:
        notes.append("skip:before-unreadable")      # left behind by an earlier call (findings nested-map / meta-key)
        return fails, notes, None
    if result.get("status") != "success":
        fails.append((f"changes request refused: {str(result.get('errors'))[:160]}", None))
        return fails, notes, None
    da, ea = strict_parse(ta)
    if da is None:
        meta_scalar = any(k == "META" and route(k, v) == "top" for k, v in req.items()) or \
            any(type(n).__name__ == "Assignment" and n.key == "META" for n in db.sections)
        if meta_scalar:
            fails.append(("file written by a changes request cannot be read back (" + ea[:80] + ")", PFX + "meta-key-as-assignment"))
        elif nested:
            fails.append(("file written by a changes request cannot be read back (" + ea[:80] + ")", PFX + "nested-map-unreadable"))
        elif not all(value_gate(v, "assign") for k, v in req.items() if route(k, v) == "top" and not is_sentinel(v)) or \
                not all(value_gate(v[1], "meta") for v in meta.values() if v[0] == "set"):
            notes.append("skip:value-outside-C02-domain")
        else:
            fails.append(("file written by a changes request cannot be read back (" + ea[:120] + ")", None))
        return fails, notes, None
    from octave_mcp.core.emitter import emit as _emit
    if _emit(db) != tb:
        notes.append("skip:before-not-canonical")
        return fails, notes, None
    nb, na = astcodec.doc_to_neutral(db), astcodec.doc_to_neutral(da)
    # ---- (b) named keys: presence / None / value ------------------------------------------------------------------
    for key, dem in top.items():
        node = first_assignment(na, key)
        if dem[0] == "del":
            if node is not None:
                fails.append((f"DELETE of top-level key {key!r}: an assignment with that key is still present", None))
            continue
        v = dem[1]
        if node is None:
            fails.append((f"{'null' if v is None else 'value'} request on top-level key {key!r}: key not present afterwards", None))
            continue
        if v is None:
            if node[2] != ("null",):
                fails.append((f"null request on top-level key {key!r}: value read back is {node[2]!r}"[:200], None))
        elif value_gate(v, "assign"):
            want = _rb_top(norm_neutral(v))
            if node[2] != want:
                fails.append((f"value request on top-level key {key!r}: read back {node[2]!r}, requested {want!r}"[:300], None))
        else:
            notes.append("skip:value-outside-C02-domain" + ("(nested-map)" if has_nested_map(v) else ""))
    am = dict(na["meta"])
    odd_meta = [k for k in meta if not IDENT.match(k)]
    if odd_meta:
        # a META field whose name is not an identifier ($op, empty, dotted) cannot be expressed in the surface grammar: the
        # reader drops it and what follows it; outside the domain of (b) for META
        notes.append("skip:META field name is not an identifier")
    for key, dem in ({} if odd_meta else meta).items():
        if dem[0] == "del":
            if key in am:
                fails.append((f"DELETE of META field {key!r}: field still present", None))
            continue
        v = dem[1]
        if key not in am:
            fails.append((f"{'null' if v is None else 'value'} request on META field {key!r}: field not present afterwards", None))
            continue
        if v is None:
            if am[key] != ("v", ("null",)):
                fails.append((f"null request on META field {key!r}: read back {am[key]!r}"[:200], None))
        elif value_gate(v, "meta"):
            want = ("v", _rb_top(norm_neutral(v)))
            if am[key] != want:
                fails.append((f"value request on META field {key!r}: read back {am[key]!r}, requested {want!r}"[:300], None))
        else:
            notes.append("skip:value-outside-C02-domain" + ("(nested-map)" if has_nested_map(v) else ""))
    if cleared and not odd_meta:
        left = [k for k in am if meta.get(k, ("del",))[0] != "set"]
        if left:
            fails.append((f"DELETE of the META block: fields {left[:4]} remain", None))
    # ---- (a) frame on the file bytes ----------------------------------------------------------------------------------
    cb = spans_of(tb, db)
    if cb is None:
        notes.append("skip-frame:outline-not-recognised(before)")
        return fails, notes, na
    named_top = set(top)
    named_meta = set(meta)
    if _emit(da) == ta:
        ca = spans_of(ta, da)
        if ca is None:
            notes.append("skip-frame:outline-not-recognised(after)")
            return fails, notes, na
        notes.append("frame:exact")
        if cb[0] != ca[0] or cb[2] != ca[2] or cb[4] != ca[4]:
            fails.append(("frame: envelope / frontmatter / separator / trailing lines changed", None))
        fb = [(k, c) for k, kind, c in cb[3] if k not in named_top]
        fa = [(k, c) for k, kind, c in ca[3] if k not in named_top]
        if fb != fa:
            gone = [k for k, c in fb if (k, c) not in fa]
            new = [k for k, c in fa if (k, c) not in fb]
            fails.append((f"frame: lines of top-level keys not named in the request changed (named {sorted(named_top)}; "
                          f"lost/changed {gone[:4]}, new/changed {new[:4]})"[:300], None))
        if not cleared:
            mb = [(k, c) for k, c in cb[1] if k not in named_meta]
            ma = [(k, c) for k, c in ca[1] if k not in named_meta]
            if mb != ma:
                gone = [k for k, c in mb if (k, c) not in ma]
                fails.append((f"frame: META fields not named in the request changed or were dropped (named {sorted(named_meta)}; "
                              f"lost/changed {gone[:4]})"[:300], None))
    else:
        # the file after the call is not a fixed point of canonicalisation (C01's matter, e.g. a dict value, a comment that now
        # follows a block): its outline cannot be taken from the parser.  Parse-independent form of the frame: head and foot are
        # prefix / suffix of the new file, and the line blocks of the unnamed META fields and top-level nodes occur in it, whole,
        # in the same order.
        notes.append("frame:containment")
        la = ta.split("\n")[:-1] if ta.endswith("\n") else ta.split("\n")
        head, foot = cb[0], cb[4]
        blocks = []
        if not cleared:
            blocks += [("META." + k, c) for k, c in cb[1] if k not in named_meta]
        blocks += [("separator", cb[2])] if cb[2] else []
        blocks += [(k, c) for k, kind, c in cb[3] if k not in named_top]
        if la[:len(head)] != head or la[len(la) - len(foot):] != foot or len(la) < len(head) + len(foot):
            fails.append(("frame: envelope / frontmatter / trailing lines changed", None))
        else:
            pos, end = len(head), len(la) - len(foot)
            for name, blk in blocks:
                hit = None
                for i in range(pos, end - len(blk) + 1):
                    if la[i:i + len(blk)] == blk:
                        hit = i
                        break
                if hit is None:
                    fails.append((f"frame: the lines of {name!r} (not named in the request; named {sorted(named_top)} / META "
                                  f"{sorted(named_meta)}) are no longer in the file, or not in order"[:300], None))
                    break
                pos = hit + len(blk)
    return fails, notes, na


# ---------------------------------------------------------------------------------------------------------------------
# request generation
# ---------------------------------------------------------------------------------------------------------------------
FRESH = ["NEWKEY", "Z_1", "ADDED", "note_2", "K", "A_B_C"]
META_FRESH = ["OWNER", "STATUS", "Q", "REV"]
DICT_KEYS = ["a", "b", "KEY", "x_1", "NAME"]


class ReqGen:
    def __init__(self, rng, ok_strings):
        self.r = rng
        self.g = docgen.Gen(rng, wild=False, clean=True, ok_strings=ok_strings)

    def scalar(self):
        r = self.r
        x = r.random()
        if x < 0.4:
            t = self.g.string()
            return t if "\r" not in t else "x"        # a raw CR does not survive the file (finding C05-cr-through-file)
        if x < 0.55:
            return r.choice([0, 1, -1, 42, 2 ** 40, -(10 ** 20), r.randint(-999, 999)])
        if x < 0.7:
            return float(r.choice([0.5, -1.5, 1e16, 1e-7, 3.14, 2.0, -0.0, 1e100, round(r.random() * 100, 3)]))
        if x < 0.8:
            return r.random() < 0.5
        if x < 0.9:
            return None
        return r.choice(["", " ", "two words", "null", "true", "42", "[]", "DELETE", "$op"])

    def value(self, depth=0):
        r = self.r
        x = r.random()
        if x < 0.5 or depth >= 2:
            return self.scalar()
        if x < 0.72:
            return [self.value(depth + 1) if r.random() < 0.25 else self.scalar() for _ in range(r.choice([0, 1, 2, 2, 3, 4]))]
        if x < 0.9:
            ks = r.sample(DICT_KEYS, r.choice([0, 1, 2, 3]))
            return {k: (self.value(depth + 1) if r.random() < 0.3 else self.scalar()) for k in ks}
        if x < 0.95:
            return r.choice([[], {}, "", [[]], [None], [""], {"a": None}, {"a": ""}, {"a": []}])
        s = sentinel()
        (sk, sv), = s.items()
        return r.choice([{sk: "KEEP"}, {sk: sv.lower()}, {"op": sv}, [s], {"a": s}])   # look-alikes that are NOT the sentinel

    def op(self):
        """one of: DELETE sentinel, null, value (the 4th operation, omit, is every key the request does not mention)"""
        r = self.r
        x = r.random()
        if x < 0.3:
            s = sentinel()
            if r.random() < 0.1:
                s["extra"] = 1          # still a sentinel for value.get("$op") == "DELETE"
            return s
        if x < 0.45:
            return None
        return self.value()

    def set_request(self, nd, original):
        """a value request on one of the document's own top-level assignment keys whose ORIGINAL value can be requested
        again later; -> (request, key) or (None, None)"""
        r = self.r
        cands = []
        for n in original["sections"]:
            if n[0] == "a" and n[1] and py_of_neutral(n[2])[0] and any(m[0] == "a" and m[1] == n[1] for m in nd["sections"]):
                cands.append(n[1])
        if not cands:
            return None, None
        k = r.choice(cands)
        v = self.scalar()
        req = {k: v}
        if r.random() < 0.3:
            req["META." + r.choice(META_FRESH)] = self.scalar()
        return req, k

    def restore_request(self, original, key):
        """sets `key` back to the value its first assignment had in the original document"""
        for n in original["sections"]:
            if n[0] == "a" and n[1] == key:
                return {key: py_of_neutral(n[2])[1]}
        return None

    def request(self, nd):
        r = self.r
        own = [n[1] for n in nd["sections"] if n[0] == "a"]
        struct = [n[1] if n[0] == "b" else n[2] for n in nd["sections"] if n[0] in ("b", "s")]
        inner = []
        for n in nd["sections"]:
            if n[0] in ("b", "s"):
                inner += [c[1] for c in (n[3] if n[0] == "b" else n[4]) if c[0] == "a" and c[1]]
        near = []
        for k in own:
            for c in (k[:1], k[:-1], k + "X", k.lower(), k + "_2"):
                if c and c != k and IDENT.match(c):
                    near.append(c)
        mown = [k for k, _ in nd["meta"]]
        mnear = [k[:-1] for k in mown if len(k) > 1 and IDENT.match(k[:-1])] + [k + "X" for k in mown]
        req = {}
        for _ in range(r.choice([1, 1, 2, 2, 3, 4])):
            x = r.random()
            if x < 0.34 and own:
                req[r.choice(own)] = self.op()
            elif x < 0.46:
                req[r.choice(FRESH)] = self.op()
            elif x < 0.54 and near:
                req[r.choice(near)] = self.op()
            elif x < 0.60 and (struct or inner):
                req[r.choice(struct + inner)] = self.op()
            elif x < 0.74:
                req["META." + r.choice(mown + META_FRESH + mnear if mown else META_FRESH)] = self.op()
            elif x < 0.88:
                fields = {}
                for _ in range(r.choice([0, 1, 1, 2, 3])):
                    fields[r.choice(mown + META_FRESH + mnear if mown else META_FRESH)] = self.op()
                sk = next(iter(sentinel()))
                if sk in fields:
                    del fields[sk]
                req["META"] = fields
            elif x < 0.91:
                req["META"] = sentinel()
            elif x < 0.94:
                req["META"] = r.choice([None, "x", 1, ["a"]])      # not a dict: an ordinary top-level key
            else:
                req[r.choice(own + FRESH)] = self.op()
        return req


# ---------------------------------------------------------------------------------------------------------------------
# sessions: several calls through ONE long-lived WriteTool instance (as the MCP server holds it), on one or two files,
# with dry runs and reverts so that the same baseline bytes recur
# ---------------------------------------------------------------------------------------------------------------------
SESSION_PLANS = [
    ["dry", "real"], ["dry", "real", "real"], ["real", "dry", "real"],
    ["set", "restore", "real"], ["set", "restore", "dry", "real"], ["set", "set", "restore", "real"],
    ["real", "revert", "real"], ["dry", "revert", "real"], ["real", "real", "revert", "real"],
    ["realA", "realB", "realA"], ["realA", "dryB", "realB", "realA"], ["setA", "realB", "restoreA", "realB", "realA"],
    ["dryA", "realB", "realA"], ["realA", "revertA", "realB", "realA"],
]


def py_of_neutral(v):
    """the request value that stands for a neutral AST value (None if it has none: zones, holographic values)"""
    k = v[0]
    if k == "null":
        return True, None
    if k == "bool":
        return True, v[1]
    if k == "int":
        return True, int(v[1])
    if k == "float":
        x = float(v[1])
        return (x == x and x not in (float("inf"), float("-inf"))), x
    if k == "str":
        return True, v[1]
    if k == "list":
        items = [py_of_neutral(x) for x in v[1]]
        return all(ok for ok, _ in items), [x for _, x in items]
    return False, None


def session_step(tool, loop, paths, history, st):
    """execute one recorded step; -> (text before, text after, request | None, result | None)"""
    i = st["file"]
    tb = read_file(paths[i])
    if st["op"] == "revert":
        with open(paths[i], "w", encoding="utf-8", newline="") as f:
            f.write(history[i][st["to"]])
        history[i].append(history[i][st["to"]])
        return tb, history[i][-1], None, None
    req = {k: v for k, v in st["items"]}
    kw = {"corrections_only": True} if st["op"] == "dry" else {}
    res = loop.run_until_complete(tool.execute(target_path=paths[i], changes=copy.deepcopy(req), **kw))
    ta = read_file(paths[i])
    history[i].append(ta)
    return tb, ta, req, res


def check_session_step(st, tb, ta, req, res):
    """-> (fails, notes, neutral doc after | None) for one executed step of a session"""
    if st["op"] == "revert":
        return [], [], None
    if st["op"] == "dry":
        fails = []
        if ta != tb:
            fails.append(("dry run (corrections_only) changed the file", None))
        return fails, [], None
    return check_step(tb, ta, req, res)


def run_recorded_session(tool, loop, tmp, session, tag="r"):
    """replay a recorded session on one tool instance; -> [(step index, what, finding)]"""
    paths = [os.path.join(tmp, f"{tag}{i}.oct.md") for i in range(len(session["init_texts"]))]
    history = [[t] for t in session["init_texts"]]
    for pth, t in zip(paths, session["init_texts"]):
        with open(pth, "w", encoding="utf-8", newline="") as f:
            f.write(t)
    out = []
    for n, st in enumerate(session["steps"]):
        tb, ta, req, res = session_step(tool, loop, paths, history, st)
        fails, _, _ = check_session_step(st, tb, ta, req, res)
        out += [(n, what, fid) for what, fid in fails]
    return out


# ---------------------------------------------------------------------------------------------------------------------
# worker: runs sequences through WriteTool in a private temp dir
# ---------------------------------------------------------------------------------------------------------------------
def _work(args):
    seed, docs, nseq, ok_strings, nsess = args
    from octave_mcp.core.emitter import emit
    from octave_mcp.core.parser import parse
    from octave_mcp.mcp.write import WriteTool
    rng = random.Random(seed)
    rg = ReqGen(rng, set(ok_strings) if ok_strings is not None else None)
    tmp = scratch_dir("c18_")
    loop = asyncio.new_event_loop()
    out = {"fails": [], "hist": [], "corr": [], "count": 0, "nontrivial": [], "samples": [], "session_calls": 0}
    server_tool = WriteTool()          # ONE instance for every session of this worker, as mcp/server.py holds it
    prev_text = None
    try:
        p = os.path.join(tmp, "doc.oct.md")
        for d in docs:
            t0 = doccases.impl_emit(d)
            if "\r" in t0:
                out["hist"].append(("skipped_docs", "carriage return (C05 cr-through-file)"))
                continue
            d0, e0 = strict_parse(t0)
            if d0 is None or docprops.first_diff(docprops.expected(d), astcodec.doc_to_neutral(d0)) or emit(d0) != t0:
                out["hist"].append(("skipped_docs", "outside the C01/C02 domain"))
                continue
            for _ in range(nseq):
                with open(p, "w", encoding="utf-8", newline="") as f:
                    f.write(t0)
                nd = astcodec.doc_to_neutral(d0)
                reqs = []
                cur = t0
                steps = []
                L = rng.choice([1, 1, 2, 3])
                for si in range(L):
                    req = rg.request(nd)
                    reqs.append(req)
                    tb = cur
                    try:
                        res = loop.run_until_complete(WriteTool().execute(target_path=p, changes=copy.deepcopy(req)))
                    except Exception as e:  # noqa
                        out["fails"].append(({"text": t0, "requests": reqs}, f"octave_write raised {type(e).__name__}: {e}"[:200], None))
                        break
                    ta = read_file(p)
                    fails, notes, na = check_step(tb, ta, req, res)
                    out["count"] += 1
                    for nt in notes:
                        out["hist"].append(("notes", nt))
                    for what, fid in fails:
                        out["fails"].append(({"text_before": tb, "request": req, "request_items": [[k, v] for k, v in req.items()],
                                              "text_after": ta, "sequence": [[[k, v] for k, v in r.items()] for r in reqs],
                                              "initial_text": t0}, what, fid))
                    # correspondence record: impl AST after _apply_changes on the parsed before-text
                    try:
                        dbb = parse(tb)
                        nbb = astcodec.doc_to_neutral(dbb)
                        ri = WriteTool()._apply_changes(dbb, copy.deepcopy(req))
                        out["corr"].append((nbb, req, astcodec.doc_to_neutral(ri), emit(ri), ta))
                    except Exception as e:  # noqa
                        out["hist"].append(("notes", "corr-skip:" + type(e).__name__))
                    for k, v in req.items():
                        rt = route(k, v)
                        opn = "DELETE" if is_sentinel(v) else "null" if v is None else "value:" + type(v).__name__
                        out["hist"].append(("operation", f"{rt}/{opn}"))
                    out["hist"].append(("request_size", len(req)))
                    if na is None:
                        break
                    cur = ta
                    nd = na
                    steps.append(ta)
                out["hist"].append(("sequence_length", len(reqs)))
                if any(len(r) for r in reqs) and len(d["sections"]) + len(d["meta"]) >= 2:
                    out["nontrivial"].append(json.dumps([t0, reqs], sort_keys=True, default=str))
                if len(out["samples"]) < 2 and steps:
                    out["samples"].append({"initial_text": t0, "requests": reqs, "final_text": steps[-1]})
            # ---- sessions through the long-lived instance -------------------------------------------------------------
            for sn in range(nsess):
                plan = rng.choice(SESSION_PLANS)
                two = any(x.endswith(("A", "B")) for x in plan)
                other = t0 if (prev_text is None or rng.random() < 0.5) else prev_text
                inits = [t0, other] if two else [t0]
                paths = [os.path.join(tmp, f"sess{i}.oct.md") for i in range(len(inits))]
                for pth, t in zip(paths, inits):
                    with open(pth, "w", encoding="utf-8", newline="") as f:
                        f.write(t)
                history = [[t] for t in inits]
                originals, nds = [], []
                for t in inits:
                    dx, _ = strict_parse(t)
                    originals.append(astcodec.doc_to_neutral(dx) if dx is not None else None)
                    nds.append(originals[-1])
                if any(o is None for o in originals):
                    continue
                set_key = [None] * len(inits)
                steps = []
                for kind in plan:
                    fi = 1 if kind.endswith("B") else 0
                    base = kind.rstrip("AB")
                    st = None
                    if base == "revert":
                        st = {"op": "revert", "file": fi, "to": rng.randrange(len(history[fi]))}
                    elif base == "set":
                        req, k = rg.set_request(nds[fi], originals[fi])
                        if req is not None:
                            set_key[fi] = k
                            st = {"op": "real", "file": fi, "items": [[a, b] for a, b in req.items()]}
                    elif base == "restore" and set_key[fi] is not None:
                        req = rg.restore_request(originals[fi], set_key[fi])
                        if req is not None:
                            st = {"op": "real", "file": fi, "items": [[a, b] for a, b in req.items()]}
                    if st is None:
                        req = rg.request(nds[fi])
                        st = {"op": "dry" if base == "dry" else "real", "file": fi, "items": [[a, b] for a, b in req.items()]}
                    steps.append(st)
                    try:
                        tb, ta, req, res = session_step(server_tool, loop, paths, history, st)
                    except Exception as e:  # noqa
                        out["fails"].append(({"instance": "long-lived", "session": {"init_texts": inits, "steps": list(steps)}},
                                             f"octave_write raised {type(e).__name__}: {e}"[:200], None))
                        break
                    out["hist"].append(("session_step", st["op"] + ("/second-file" if fi else "")))
                    if st["op"] == "revert":
                        dx, _ = strict_parse(ta)
                        if dx is not None:
                            nds[fi] = astcodec.doc_to_neutral(dx)
                        continue
                    out["session_calls"] += 1
                    out["count"] += 1
                    fails, notes, na = check_session_step(st, tb, ta, req, res)
                    for nt in notes:
                        out["hist"].append(("notes", nt))
                    for what, fid in fails:
                        out["fails"].append(({"instance": "long-lived (one WriteTool for the whole session, as the MCP server holds it)",
                                              "session": {"init_texts": inits, "steps": list(steps)}, "failing_step": len(steps) - 1,
                                              "text_before": tb, "request": req, "request_items": st["items"], "text_after": ta},
                                             what, fid))
                    if st["op"] == "real":
                        try:
                            dbb = parse(tb)
                            nbb = astcodec.doc_to_neutral(dbb)
                            ri = WriteTool()._apply_changes(dbb, copy.deepcopy(req))
                            out["corr"].append((nbb, req, astcodec.doc_to_neutral(ri), emit(ri), ta))
                        except Exception as e:  # noqa
                            out["hist"].append(("notes", "corr-skip:" + type(e).__name__))
                        if na is not None:
                            nds[fi] = na
                out["hist"].append(("session_plan", ",".join(plan)))
                out["nontrivial"].append(json.dumps([inits, steps], sort_keys=True, default=str))
                if len(out["samples"]) < 3 and sn == 0 and len(steps) >= 3 and not any(sm.get("session") for sm in out["samples"]):
                    out["samples"].append({"session": {"init_texts": inits, "steps": steps}, "final_texts": [h[-1] for h in history]})
            prev_text = t0
    finally:
        loop.close()
        shutil.rmtree(tmp, ignore_errors=True)
    return out


# ======================================================================================================================
# Absent placement
# ======================================================================================================================
A = ("absent",)


def absent_variants(d, rng):
    """documents with Absent put at every kind of position of d (one position per variant + one with all)"""
    out = []

    def with_sections(secs):
        e = dict(d)
        e["sections"] = secs
        return e

    def value_variants(v):
        yield A
        if v[0] == "list":
            for i in range(len(v[1]) + 1):
                yield ("list", v[1][:i] + [A] + v[1][i:])
            if v[1]:
                yield ("list", [A] * len(v[1]))
            for i, x in enumerate(v[1]):
                if x[0] in ("list", "map"):
                    for y in value_variants(x):
                        if y != A:
                            yield ("list", v[1][:i] + [y] + v[1][i + 1:])
        elif v[0] == "map":
            for i in range(len(v[1]) + 1):
                yield ("map", v[1][:i] + [("ABS", A)] + v[1][i:])
            if v[1]:
                yield ("map", [(k, A) for k, _ in v[1]])

    def node_variants(n):
        if n[0] == "a":
            if n[1] == "":
                return
            for v in value_variants(n[2]):
                yield ("a", n[1], v, n[3], n[4] if v[0] != "zone" else None)
            if n[2][0] not in ("list", "map", "zone"):
                yield ("a", n[1], ("list", [A, n[2], A]), n[3], n[4])
                yield ("a", n[1], ("list", [("map", [("k", A)]), n[2]]), n[3], n[4])
                yield ("a", n[1], ("map", [("p", A), ("q", n[2])]), n[3], n[4])
        elif n[0] in ("b", "s"):
            ci = 3 if n[0] == "b" else 4
            ch = n[ci]
            for i in range(len(ch) + 1):
                m = list(n)
                m[ci] = ch[:i] + [("a", "ABSENT_CHILD", A, ["gone too"], None)] + ch[i:]
                yield tuple(m)
            for i, c in enumerate(ch):
                for c2 in node_variants(c):
                    m = list(n)
                    m[ci] = ch[:i] + [c2] + ch[i + 1:]
                    yield tuple(m)

    secs = d["sections"]
    for i in range(len(secs) + 1):
        out.append(("top-insert", with_sections(secs[:i] + [("a", "ABSENT_TOP", A, ["c"], "t")] + secs[i:])))
    for i, n in enumerate(secs):
        for n2 in node_variants(n):
            out.append(("node", with_sections(secs[:i] + [n2] + secs[i + 1:])))
    m = d["meta"]
    for i in range(len(m) + 1):
        e = dict(d)
        e["meta"] = m[:i] + [("ABSENT_META", ("v", A))] + m[i:]
        out.append(("meta-insert", e))
    for i, (k, mv) in enumerate(m):
        if mv[0] == "v":
            for v in value_variants(mv[1]):
                e = dict(d)
                e["meta"] = m[:i] + [(k, ("v", v))] + m[i + 1:]
                out.append(("meta-value", e))
        else:
            for j in range(len(mv[1]) + 1):
                e = dict(d)
                e["meta"] = m[:i] + [(k, ("d", mv[1][:j] + [("ABS", A)] + mv[1][j:]))] + m[i + 1:]
                out.append(("meta-nested", e))
            e = dict(d)
            e["meta"] = m[:i] + [(k, ("d", [(k2, A) for k2, _ in mv[1]]))] + m[i + 1:]
            out.append(("meta-nested-all", e))
    if m:
        e = dict(d)
        e["meta"] = [(k, ("v", A)) for k, _ in m]
        out.append(("meta-all-absent", e))
    e = dict(d)
    e["meta"] = [("ONLY", ("v", A))]
    out.append(("meta-all-absent", e))
    if len(out) > 40:
        keep = [x for x in out if x[0].startswith("meta-all")]
        rest = [x for x in out if not x[0].startswith("meta-all")]
        out = keep + rng.sample(rest, 40 - len(keep))
    return out


def is_abs(v):
    return v[0] == "absent"


def py_drop_value(v):
    if v[0] == "list":
        return ("list", [py_drop_value(x) for x in v[1] if not is_abs(x)])
    if v[0] == "map":
        return ("map", [(k, py_drop_value(x)) for k, x in v[1] if not is_abs(x)])
    return v


def py_drop_node(n):
    if n[0] == "a":
        return [] if is_abs(n[2]) else [("a", n[1], py_drop_value(n[2]), n[3], n[4])]
    if n[0] == "b":
        return [("b", n[1], n[2], [y for c in n[3] for y in py_drop_node(c)], n[4])]
    if n[0] == "s":
        return [("s", n[1], n[2], n[3], [y for c in n[4] for y in py_drop_node(c)], n[5])]
    return [n]


def py_drop_absent(d):
    e = dict(d)
    meta = []
    for k, mv in d["meta"]:
        if mv[0] == "v":
            if not is_abs(mv[1]):
                meta.append((k, ("v", py_drop_value(mv[1]))))
        else:
            meta.append((k, ("d", [(k2, py_drop_value(v)) for k2, v in mv[1] if not is_abs(v)])))
    e["meta"] = meta
    e["sections"] = [y for n in d["sections"] for y in py_drop_node(n)]
    return e


def has_absent(d):
    return any(is_abs(v) for _, v in docprops.values_of(d))


def meta_all_absent(d):
    return bool(d["meta"]) and all(mv[0] == "v" and is_abs(mv[1]) for _, mv in d["meta"])


def check_absent(d):
    """-> (what|None, finding|None, emitted text)"""
    try:
        t = doccases.impl_emit(d)
    except Exception as e:  # noqa
        return f"emit raised {type(e).__name__} on a document with Absent values: {e}"[:200], None, None
    t2 = doccases.impl_emit(py_drop_absent(d))
    if t != t2:
        if meta_all_absent(d) and t.replace("===\n\n", "===\n", 1) == t2:
            # regression of the fixed finding C18-meta-all-absent-blank-line (/repo 1d4faf6): no longer attributed
            return "a META block whose fields are all Absent leaves a blank line", None, t
        return "emit(d) differs from emit(d without its Absent values): an Absent value left a trace in the text", None, t
    if "Absent" in t or "ABSENT_" in t or "ABS::" in t or "gone too" in t:
        return "an Absent field (or its key / comments) was written out", None, t
    return None, None, t


# ======================================================================================================================
# null / "" / []
# ======================================================================================================================
TRI = [("null", ("null",)), ("empty-string", ("str", "")), ("empty-list", ("list", []))]
TRI_POS = ["assign", "block-child", "section-child", "meta", "meta-nested", "list-item", "map-value"]


def tri_doc(pos, v, pad):
    d = {"name": "D", "grammar": None, "front": None, "sep": False, "meta": [], "sections": [], "trailing": []}
    pre, post = pad
    if pos == "assign":
        d["sections"] = pre + [("a", "K", v, [], None)] + post
    elif pos == "block-child":
        d["sections"] = pre + [("b", "BLK", None, [("a", "K", v, [], None), ("a", "AFTER", ("str", "x"), [], None)], [])] + post
    elif pos == "section-child":
        d["sections"] = pre + [("s", "1", "S", None, [("a", "K", v, [], None)], [])]
    elif pos == "meta":
        d["meta"] = [("TYPE", ("v", ("str", "T"))), ("K", ("v", v))]
        d["sections"] = pre + post
    elif pos == "meta-nested":
        d["meta"] = [("N", ("d", [("K", v), ("Z", ("int", "1"))]))]
        d["sections"] = pre + post
    elif pos == "list-item":
        d["sections"] = pre + [("a", "L", ("list", [("str", "x"), v]), [], None)] + post
    else:
        d["sections"] = pre + [("a", "L", ("list", [("map", [("K", v)]), ("str", "x")]), [], None)] + post
    return d


def tri_get(nd, pos):
    def find(nodes, key):
        for n in nodes:
            if n[0] in ("a", "b") and n[1] == key:
                return n
            if n[0] == "s" and n[2] == key:
                return n
        return None
    try:
        if pos == "assign":
            return find(nd["sections"], "K")[2]
        if pos == "block-child":
            return find(find(nd["sections"], "BLK")[3], "K")[2]
        if pos == "section-child":
            return find(find(nd["sections"], "S")[4], "K")[2]
        if pos == "meta":
            return dict(nd["meta"])["K"][1]
        if pos == "meta-nested":
            return dict(dict(nd["meta"])["N"][1])["K"]
        if pos == "list-item":
            return find(nd["sections"], "L")[2][1][1]
        return dict(find(nd["sections"], "L")[2][1][0][1])["K"]
    except Exception as e:  # noqa
        return ("unreadable", type(e).__name__)


# ======================================================================================================================
# CLI
# ======================================================================================================================
def cli_write(path, changes):
    from click.testing import CliRunner
    from octave_mcp.cli.main import cli
    r = CliRunner().invoke(cli, ["write", path, "--changes", json.dumps(changes)])
    return r.exit_code, r.output


def _has_sentinel(v):
    if is_sentinel(v):
        return True
    if isinstance(v, dict):
        return any(_has_sentinel(x) for x in v.values())
    if isinstance(v, list):
        return any(_has_sentinel(x) for x in v)
    return False


def cli_classify(req):
    """The clauses of the CLI findings a request falsifies (by its shape only):
    cli-delete-unsupported     a DELETE sentinel anywhere in the request (the CLI loop never looks for it)
    cli-meta-replaced          a META{...} entry (doc.meta = value.copy())
    cli-structured-value-repr  a list or dict value that is stored raw (top-level key, META.X, field of META{...})"""
    out = set()
    for k, v in req.items():
        rt = route(k, v)
        if _has_sentinel(v):
            out.add("cli-delete-unsupported")
        if rt == "metadict":
            out.add("cli-meta-replaced")
            if any(isinstance(x, (list, dict)) and not is_sentinel(x) for x in v.values()):
                out.add("cli-structured-value-repr")
        elif isinstance(v, (list, dict)) and not is_sentinel(v):
            out.add("cli-structured-value-repr")
    return out


def cli_check(text, req, tmp):
    """-> ([(what, [finding ids] | None)], text after)"""
    p = os.path.join(tmp, "cli.oct.md")
    with open(p, "w", encoding="utf-8", newline="") as f:
        f.write(text)
    code, outp = cli_write(p, req)
    ta = read_file(p)
    classes = sorted(cli_classify(req))
    fids = [PFX + c for c in classes] or None
    if code != 0:
        return [(f"octave write --changes failed (exit {code}): {outp[:120]}", fids)], ta
    fails, notes, na = check_step(text, ta, req, {"status": "success"})
    return [(what, fids) for what, _ in fails], ta


# ======================================================================================================================
def witness_fails(fid, w, tmp, loop):
    """replay one committed witness on the real code: True iff the defect is still there"""
    from octave_mcp.mcp.write import WriteTool
    kind = w["kind"]
    if kind == "absent":
        what, f, _ = check_absent(w["doc"])
        return what is not None
    if kind == "changes":
        p = os.path.join(tmp, "w.oct.md")
        with open(p, "w", encoding="utf-8", newline="") as f:
            f.write(w["text"])
        res = loop.run_until_complete(WriteTool().execute(target_path=p, changes=copy.deepcopy(w["changes"])))
        fails, _, _ = check_step(w["text"], read_file(p), w["changes"], res)
        return bool(fails)
    if kind == "cli":
        fails, _ = cli_check(w["text"], w["changes"], tmp)
        return bool(fails)
    raise ValueError(kind)


def model_seq(docs_reqs):
    """[(neutral doc, [req...])] -> [(neutral result, text)] via the extracted model"""
    lines = []
    for nd, reqs in docs_reqs:
        f = nd["front"] or ""
        extra = "".join(sorted({c for c in f if ord(c) >= 128 and c.isspace()}))
        lines.append("seq " + enc_str(extra) + " " + enc_requests(reqs) + " " + astcodec.enc_doc(nd))
    out = []
    for o in run_driver("chg", lines):
        if not o.startswith("DOC "):
            out.append((None, o))
            continue
        body, _, txt = o[4:].rpartition(" # ")
        out.append((astcodec.dec_doc(body), dec_str(txt)))
    return out


def run(ctx):
    hm = bool(ctx.build_status["drivers"].get("chg", False))
    hs = doccases.have_model(ctx)
    ctx.extra["rule"] = (
        "K: documents of the explicit content model (docgen: envelope, sentinel, frontmatter, META with one nested level, separator, "
        "assignments incl. duplicate keys, blocks, sections, lists, inline maps, zones, holographic values, comments) that falsify no "
        "wf clause and on which emit->parse->emit is the identity, each written canonically to a file and amended by 1-3 "
        "octave_write(changes=...) calls; a request has 1-4 entries over the document's own top-level assignment keys, its block/"
        "section/inner keys, near misses (prefixes, extensions, case variants of own keys), fresh keys, META.X (own, fresh, near, "
        "empty name), META{...} (merge, with inner DELETE), META{DELETE}, META with a non-dict value; operations DELETE sentinel (also "
        "with extra keys), null, value of every kind (strings from the clean pool and reserved-looking ones, ints, floats, bools, lists, "
        "dicts, nested lists/dicts, empty list/dict/string, sentinel look-alikes); omit = every key a request does not mention. One case = "
        "one call. Every document is amended (i) by 2 sequences with a fresh WriteTool per call and (ii) by 2 sessions through ONE "
        "WriteTool instance that lives for the whole worker (as mcp/server.py holds it): 2-5 steps from 14 plans mixing real calls, dry "
        "runs (corrections_only=True, file must stay byte-identical), set-then-restore of an own key (the same baseline bytes recur), "
        "reverting the file to any earlier content, and two target files (same or different initial bytes) interleaved on that instance; "
        "after every step the same frame / parsed-state / model checks. A: Absent inserted at every position (top-level, block/section child, list item, map value, all items, META value, nested "
        "META value, all META) of wild and content-model documents. N: null/\"\"/[] at 7 positions x paddings. non-trivial = distinct "
        "(initial text, request sequence) with a non-empty request on a document of >=2 nodes, or distinct Absent variant text.")
    tmp = scratch_dir("c18m_")
    loop = asyncio.new_event_loop()
    try:
        # ---- W: witnesses of the known findings, corpus ---------------------------------------------------------------
        for fid, f in ctx.known.items():
            try:
                ctx.finding_witness(fid, witness_fails(fid, f["witness"], tmp, loop))
            except Exception as e:  # noqa
                ctx.obligation_failure("witness:" + fid, f"{type(e).__name__}: {e}")
        from octave_mcp.mcp.write import WriteTool
        for cf in sorted(CORPUS.glob("*.json")):
            c = json.loads(cf.read_text())
            ctx.count()
            if c["kind"] == "changes":
                p = os.path.join(tmp, "c.oct.md")
                cur = c["text"]
                with open(p, "w", encoding="utf-8", newline="") as fh:
                    fh.write(cur)
                for req in c["requests"]:
                    res = loop.run_until_complete(WriteTool().execute(target_path=p, changes=copy.deepcopy(req)))
                    ta = read_file(p)
                    fails, _, na = check_step(cur, ta, req, res)
                    for what, fid in fails:
                        ctx.property_failure({"corpus": cf.name, "text_before": cur, "request": req, "text_after": ta}, what, finding=fid)
                    if na is None:
                        break
                    cur = ta
                if "final_text" in c and cur != c["final_text"] and not c.get("expect"):
                    ctx.correspondence_failure({"corpus": cf.name, "final_text": cur, "recorded": c["final_text"]},
                                               "corpus case: final file text differs from the recorded one")
            elif c["kind"] == "absent":
                what, fid, t = check_absent(c["doc"])
                if what:
                    ctx.property_failure({"corpus": cf.name, "doc": c["doc"], "text": t}, what, finding=fid)
                elif "expect_text" in c and t != c["expect_text"]:
                    ctx.property_failure({"corpus": cf.name, "doc": c["doc"], "text": t, "expected_text": c["expect_text"]},
                                         "corpus case: emitted text differs from the recorded one (an Absent value left a trace)")
            elif c["kind"] == "cli":
                fails, ta = cli_check(c["text"], c["changes"], tmp)
                for what, fids in fails:
                    for fid in (fids or [None]):
                        ctx.property_failure({"corpus": cf.name, "text": c["text"], "changes": c["changes"], "text_after": ta}, what, finding=fid)

        # ---- K: changes mode ---------------------------------------------------------------------------------------------
        ndocs = ctx.scale(1300, 32000)
        nseq = ctx.scale(2, 2)
        cases = doccases.gen_docs(ctx, ndocs, valid_fraction=1.0)
        docs = [d for d, cl in cases if not cl]
        ctx.hist("documents", "wf (no clause falsified)", len(docs))
        ctx.hist("documents", "dropped (clause falsified / model unavailable)", len(cases) - len(docs))
        oks = doccases.ok_string_set(ctx)
        oks = sorted(oks) if oks is not None else None
        nproc = 6 if ctx.quick() else 14
        per = max(1, (len(docs) + nproc * 4 - 1) // (nproc * 4))
        nsess = ctx.scale(2, 2)
        jobs = [(ctx.rng.getrandbits(48), docs[i:i + per], nseq, oks, nsess) for i in range(0, len(docs), per)]
        if nproc == 1:
            results = [_work(j) for j in jobs]
        else:
            with multiprocessing.get_context("fork").Pool(nproc) as pool:
                results = pool.map(_work, jobs)
        corr = []
        ctx.extra["changes_calls"] = sum(r["count"] for r in results)
        ctx.extra["changes_calls_long_lived_instance"] = sum(r["session_calls"] for r in results)
        for r in results:
            ctx.count(r["count"])
            for name, b in r["hist"]:
                ctx.hist(name, b)
            for k in r["nontrivial"]:
                ctx.nontrivial(k)
            for s in r["samples"]:
                ctx.sample(s, cap=4)
            for case, what, fid in r["fails"]:
                ctx.property_failure(case, what, finding=fid)
            corr += r["corr"]
        # (c) correspondence with the extracted model
        if hm and corr:
            mres = model_seq([(nb, [req]) for nb, req, _, _, _ in corr])
            ctx.count(len(corr))
            nbad = 0
            for (nb, req, ri, ti, ta), (mr, mt) in zip(corr, mres):
                what = None
                if mr is None:
                    what = "model driver error " + str(mt)[:80]
                elif docprops.first_diff(ri, mr) or docprops.first_diff(mr, ri):
                    df = docprops.first_diff(ri, mr) or docprops.first_diff(mr, ri)
                    what = f"_apply_changes result differs from the model at {df[0]}: impl {df[1]!r} model {df[2]!r}"[:300]
                elif mt != ti:
                    what = "emit of the amended document differs from the emitter model"
                elif ta != ti and "\r" not in ti:
                    what = "file bytes after octave_write differ from emit(_apply_changes(parse(before), changes))"
                if what:
                    nbad += 1
                    if nbad <= 10:
                        ctx.correspondence_failure({"before": nb, "request": req, "impl": ri, "model": mr, "file_after": ta}, what)
            ctx.extra["changes_correspondence_cases"] = len(corr)
            # the oracle used by (b) against the Coq definitions the theorems are stated with (top_last / mop_last)
            lines, exp = [], []
            for nb, req, _, _, _ in corr[: ctx.scale(1500, 20000)]:
                top, meta, cleared = request_demands(req)
                keys = list(top) + list(meta) + ["__unnamed__"]
                for k in keys:
                    lines.append("state " + enc_requests([req]) + " " + enc_str(k))
                    exp.append((req, k, top.get(k), meta.get(k, ("del",) if cleared else None)))
            for (req, k, et, em), o in zip(exp, run_driver("chg", lines)):
                t, _, m = o.partition(" ; ")
                want_t = "tN" if et is None else "tD" if et[0] == "del" else "tS"
                want_m = "mN" if em is None else "mD" if em[0] == "del" else "mS"
                ctx.count()
                if not t.startswith(want_t) or not m.startswith(want_m):
                    ctx.correspondence_failure({"request": req, "key": k, "model": o, "oracle": [want_t, want_m]},
                                               "harness oracle of the demanded final state differs from top_last / mop_last")
        # ---- K': AST-level correspondence on arbitrary documents and odd keys (no file; not a property check) ----------------
        if hm:
            wrng = random.Random(ctx.rng.random())
            gwild = docgen.Gen(wrng, wild=True, max_depth=3, max_sibs=4)
            rgw = ReqGen(wrng, None)
            odd_keys = ["META.", "", "META", "META.META", "META.a.b", "meta.x", "METAX", "a b", "é", "K::", "META.$op", "$op", "A", "B", "KEY"]
            wcases = []
            from octave_mcp.core.emitter import emit as _emit
            for _ in range(ctx.scale(1500, 20000)):
                d = gwild.doc()
                nd0 = copy.deepcopy(d)
                req = rgw.request(d)
                for _ in range(wrng.choice([0, 1, 1, 2])):
                    k = wrng.choice(odd_keys)
                    req[k] = wrng.choice([rgw.op(), None, "x", {}, sentinel(), {"Q": sentinel(), "R": 1}])
                muts = {}
                if wrng.random() < 0.3:
                    for _ in range(wrng.randint(1, 2)):
                        muts[wrng.choice(META_FRESH + [k for k, _ in d["meta"]] + ["", "META.X"])] = rgw.op()
                try:
                    impl = astcodec.doc_from_neutral(d)
                    impl = WriteTool()._apply_changes(impl, copy.deepcopy(req))
                    WriteTool()._apply_mutations(impl, copy.deepcopy(muts) or None)
                    ri = astcodec.doc_to_neutral(impl)
                    try:
                        ti = _emit(impl)
                    except ValueError:
                        ti = None
                except Exception as e:  # noqa
                    ctx.hist("wild_correspondence", "impl raised " + type(e).__name__)
                    continue
                wcases.append((nd0, req, muts, ri, ti))
            lines = []
            for nd0, req, muts, _, _ in wcases:
                f = nd0["front"] or ""
                extra = "".join(sorted({c for c in f if ord(c) >= 128 and c.isspace()}))
                o1, o2 = [], []
                enc_request(req, o1)
                enc_request(muts, o2)
                lines.append("exec " + enc_str(extra) + " " + " ".join(o1) + " " + " ".join(o2) + " " + astcodec.enc_doc(nd0))
            nb = 0
            for (nd0, req, muts, ri, ti), o in zip(wcases, run_driver("chg", lines)):
                ctx.count()
                ctx.hist("wild_correspondence", "compared")
                what = None
                if not o.startswith("DOC "):
                    what = "model driver error " + o[:80]
                else:
                    body, _, txt = o[4:].rpartition(" # ")
                    mr = astcodec.dec_doc(body)
                    df = docprops.first_diff(ri, mr) or docprops.first_diff(mr, ri)
                    if df:
                        what = f"_apply_changes/_apply_mutations result differs from the model at {df[0]}: impl {df[1]!r} model {df[2]!r}"[:300]
                    elif ti is not None and dec_str(txt) != ti:
                        what = "emit of the amended document differs from the emitter model"
                if what:
                    nb += 1
                    if nb <= 10:
                        ctx.correspondence_failure({"doc": nd0, "request": req, "mutations": muts, "impl": ri, "model": o[:600]}, what)
        # ---- A: Absent at every position -------------------------------------------------------------------------------------
        na_docs = ctx.scale(260, 3000)
        gw = docgen.Gen(ctx.rng, wild=True, max_depth=3, max_sibs=4)
        gc = docgen.Gen(ctx.rng, wild=False, max_depth=3, max_sibs=4)
        variants = []
        for i in range(na_docs):
            base = (gw if i % 3 == 0 else gc).doc()
            if i % 3 == 0:
                variants.append(("wild", base))
            vrng = random.Random(ctx.rng.random())
            variants += absent_variants(base, vrng)
        texts = []
        for kind, d in variants:
            what, fid, t = check_absent(d)
            texts.append(t)
            ctx.count()
            ctx.hist("absent_position", kind)
            if has_absent(d):
                ctx.nontrivial(t or json.dumps(d, sort_keys=True, default=str))
            if what:
                ctx.property_failure({"doc": d, "text": t}, what, finding=fid)
        if hm:
            vd = [d for _, d in variants]
            lines = []
            for d in vd:
                f = d["front"] or ""
                extra = "".join(sorted({c for c in f if ord(c) >= 128 and c.isspace()}))
                lines.append("emit " + enc_str(extra) + " " + astcodec.enc_doc(d))
            m_emit = run_driver("chg", lines)
            m_drop = run_driver("chg", ["drop " + astcodec.enc_doc(d) for d in vd])
            m_info = run_driver("chg", ["absinfo " + astcodec.enc_doc(d) for d in vd])
            nb = 0
            for d, t, me, md, mi in zip(vd, texts, m_emit, m_drop, m_info):
                ctx.count()
                what = None
                if t is not None and dec_str(me) != t:
                    what = "emit(doc with Absent values) differs from the emitter model"
                elif docprops.first_diff(py_drop_absent(d), astcodec.dec_doc(md)) or docprops.first_diff(astcodec.dec_doc(md), py_drop_absent(d)):
                    what = "drop_absent of the model differs from the harness's"
                elif mi != ("1" if meta_all_absent(d) else "0") + ("0" if has_absent(d) else "1"):
                    what = "meta_all_absent / doc_absent_free of the model differ from the harness's"
                if what:
                    nb += 1
                    if nb <= 10:
                        ctx.correspondence_failure({"doc": d, "impl": t, "model": dec_str(me) if not me.startswith("!") else me}, what)
        if variants:
            ctx.sample({"absent_variant": variants[min(5, len(variants) - 1)][1], "text": texts[min(5, len(variants) - 1)]})
        # ---- N: null / "" / [] ---------------------------------------------------------------------------------------------------
        gpad = docgen.Gen(ctx.rng, wild=False, max_depth=2, max_sibs=2, clean=True, ok_strings=set(oks) if oks else None)
        npad = ctx.scale(12, 120)
        pads = [([], [])]
        for _ in range(npad):
            pre = [n for n in gpad._declutter([gpad.node(1) for _ in range(ctx.rng.randint(0, 2))]) if n[0] != "c" and n[1] not in ("K", "L", "BLK", "S")]
            post = [("a", "TAIL", gpad.scalar(), [], None)] if ctx.rng.random() < 0.5 else []
            pads.append((pre, post))
        tri = [(pad, pos, name, v, tri_doc(pos, v, pad)) for pad in pads for pos in TRI_POS for name, v in TRI]
        tri = [x for x in tri if docprops.in_content_model(x[4])]
        if hs and tri:
            cls = doccases.model_clauses([x[4] for x in tri])
            tri = [x for x, c in zip(tri, cls) if not c]
        seen_texts = {}
        for pi, (pad, pos, name, v, d) in enumerate(tri):
            t = doccases.impl_emit(d)
            ctx.count()
            ctx.hist("tri_state", f"{pos}/{name}")
            dd, err = strict_parse(t)
            got = tri_get(astcodec.doc_to_neutral(dd), pos) if dd is not None else ("unreadable", err)
            if got != v:
                ctx.property_failure({"doc": d, "text": t}, f"{name} at {pos} is read back as {got!r}"[:200])
            key = (json.dumps(pad, default=str), pos)
            other = seen_texts.setdefault(key, {})
            if any(t == tt for nm, tt in other.items() if nm != name):
                ctx.property_failure({"position": pos, "texts": {**other, name: t}}, f"null, \"\" and [] are written identically at {pos}")
            other[name] = t
        # ---- C: the CLI loop (thorough) -----------------------------------------------------------------------------------------------
        if not ctx.quick():
            crng = random.Random(ctx.rng.random())
            rg = ReqGen(crng, set(oks) if oks else None)
            ncli = 4000
            cli_model_in = []
            for d in docs[:ncli]:
                t0 = doccases.impl_emit(d)
                d0, _ = strict_parse(t0)
                if "\r" in t0 or d0 is None or docprops.first_diff(docprops.expected(d), astcodec.doc_to_neutral(d0)):
                    continue
                req = rg.request(astcodec.doc_to_neutral(d0))
                fails, ta = cli_check(t0, req, tmp)
                ctx.count()
                ctx.hist("cli_request_classes", ",".join(sorted(cli_classify(req))) or "plain")
                for what, fids in fails:
                    for fid in (fids or [None]):
                        ctx.property_failure({"surface": "octave write --changes", "text_before": t0, "request": req,
                                              "request_items": [[k, v] for k, v in req.items()], "text_after": ta}, what, finding=fid)
                cli_model_in.append((astcodec.doc_to_neutral(d0), req, ta))
            if hm and cli_model_in:
                lines = []
                for nd, req, _ in cli_model_in:
                    f = nd["front"] or ""
                    extra = "".join(sorted({c for c in f if ord(c) >= 128 and c.isspace()}))
                    out = []
                    enc_request(req, out)
                    lines.append("cli " + enc_str(extra) + " " + " ".join(out) + " " + astcodec.enc_doc(nd))
                nin = 0
                for (nd, req, ta), o in zip(cli_model_in, run_driver("chg", lines)):
                    if o == "NONE":
                        ctx.hist("cli_model", "out-of-model (raw list/dict value)")
                        continue
                    nin += 1
                    ctx.count()
                    ctx.hist("cli_model", "in-model")
                    txt = dec_str(o[4:].rpartition(" # ")[2])
                    if txt != ta:
                        ctx.correspondence_failure({"before": nd, "changes": req, "file_after": ta, "model_text": txt},
                                                   "file after `octave write --changes` differs from the CLI model")
                ctx.extra["cli_correspondence_in_model"] = nin
    finally:
        loop.close()
        shutil.rmtree(tmp, ignore_errors=True)
    ctx.assumptions += [
        "request values are JSON values (null, bool, int, float, str, list, dict with unique string keys); LiteralZoneValue "
        "instances cannot occur in a JSON request and are outside the model of _normalize_value_for_ast",
        "the long-lived-instance sessions assume nothing about tool state: each call is checked against its own before-bytes, so any "
        "state kept between calls that shows in the file is a frame/state failure of that step",
        "a sequence of octave_write calls is modelled as fold_left apply_changes: the re-read between two calls is the identity on "
        "the C01/C02 domain (checked per case: emit(parse(text)) == text and parse(text) == document)",
        "an inline map [k::v,k2::w] is read back as a list of single-pair maps (surface grammar); requested dict values are compared "
        "in that form; {} and [] have the same text []",
        "frame (a) treats every top-level node (assignment, block, section) whose key a request names as named; the model theorem is "
        "stronger (only assignments of that key are touched) and is checked by correspondence (c)",
    ]


def replay(ctx, case):
    """./check C18 --replay <file>: re-run a recorded changes case on the implementation; 1 = still failing"""
    from octave_mcp.mcp.write import WriteTool
    c = case.get("case", case)
    if "session" in c:
        # the whole recorded session through ONE WriteTool instance (the failing step may depend on the earlier ones)
        tmp = scratch_dir("c18r_")
        loop = asyncio.new_event_loop()
        try:
            bad = run_recorded_session(WriteTool(), loop, tmp, c["session"])
            for n, what, fid in bad:
                print(f"FAIL at step {n} ({c['session']['steps'][n]}):", what, fid or "")
            return 1 if bad else 0
        finally:
            loop.close()
            shutil.rmtree(tmp, ignore_errors=True)
    if "doc" in c and "request" not in c:
        what, fid, t = check_absent(c["doc"])
        print(what or "no failure", "\n", t)
        return 1 if what else 0
    if "text_before" not in c or "request" not in c:
        print("replay: not a single-call case; recorded:", case.get("what"))
        return 2
    if "request_items" in c:
        c["request"] = {k: v for k, v in c["request_items"]}      # replay files are written with sorted keys; order matters
    tmp = scratch_dir("c18r_")
    try:
        p = os.path.join(tmp, "r.oct.md")
        with open(p, "w", encoding="utf-8", newline="") as f:
            f.write(c["text_before"])
        if c.get("surface", "").startswith("octave write"):
            fails, ta = cli_check(c["text_before"], c["request"], tmp)
        else:
            res = asyncio.run(WriteTool().execute(target_path=p, changes=copy.deepcopy(c["request"])))
            ta = read_file(p)
            fails, _, _ = check_step(c["text_before"], ta, c["request"], res)
        print(ta)
        for what, fid in fails:
            print("FAIL:", what, fid or "")
        return 1 if fails else 0
    finally:
        shutil.rmtree(tmp, ignore_errors=True)
