"""C08 -- validator verdicts follow the documented constraint semantics.

Three independent judges on every generated case:
  IMPL   ConstraintChain.parse(text).evaluate(v)            (valid, error codes)  -- the code under test
  MODEL  extracted Gallina model (driver `cst`)              same observables; oracles str()/float()/re/fromisoformat
                                                             are computed here with the real Python and sent with the case
  REF    reference evaluator below, written from the property text only (never looks at the code's objects;
         it is driven by the structured description the generator built the text from).  Where the text is
         silent REF answers None (= no demand).
IMPL vs MODEL  -> correspondence_failure;  IMPL vs REF and the structural clauses (conjunction, order, fail-fast)
-> property_failure, attributed to a known finding only by that finding's predicate.
"""
from __future__ import annotations

import asyncio
import itertools
import json
import math
import os
import re
import shutil
import tempfile
from fractions import Fraction

from lib.core import VERIF
from lib.model import dec_str, enc_str, run_driver

LEVEL = "proof"
DRIVERS = ["cst"]
COQ_TARGETS = []
ALLOWED_AXIOMS = ()

CODE = {"REQ": "E003", "CONST": "E004", "ENUM": "E005", "ENUM_AMBIG": "E006", "TYPE": "E007", "REGEX": "E008", "DIR": "E009",
        "APPEND_ONLY": "E010", "RANGE": "E011", "MAX_LENGTH": "E012", "MIN_LENGTH": "E013", "DATE": "E014", "ISO8601": "E015",
        "LITERAL": "E007", "LANG": "E007", "CONFLICT": "E999"}


# =====================================================================================================
# generator: structured constraint descriptions -> text
# =====================================================================================================
def lit(x):
    """Source text of a parameter inside CONST[..]/ENUM[..]/RANGE[..]."""
    if x is None:
        return "null"
    if x is True:
        return "true"
    if x is False:
        return "false"
    if isinstance(x, str):
        return x if re.fullmatch(r"[A-Za-z_][A-Za-z_]*", x) and x not in ("true", "false", "null") else '"%s"' % x
    if isinstance(x, tuple):  # (python value, exact source text)
        return x[1]
    return repr(x)


def pv(x):
    return x[0] if isinstance(x, tuple) else x


def text_of(c):
    k = c[0]
    if k in ("REQ", "OPT", "DIR", "APPEND_ONLY", "DATE", "ISO8601"):
        return k
    if k == "CONST":
        return "CONST[%s]" % lit(c[1])
    if k == "ENUM":
        return "ENUM[%s]" % ",".join(lit(x) for x in c[1])
    if k == "TYPE":
        return "TYPE[%s]" % c[1]
    if k == "TYPEP":
        return "TYPE(%s)" % c[1]
    if k == "REGEX":
        return 'REGEX["%s"]' % c[1]
    if k == "RANGE":
        return "RANGE[%s,%s]" % (lit(c[1]), lit(c[2]))
    if k in ("MAX_LENGTH", "MIN_LENGTH"):
        return "%s[%d]" % (k, c[1])
    if k == "LITERAL":
        return "TYPE[LITERAL]"
    if k == "LANG":
        return "LANG[%s]" % c[1]
    raise ValueError(k)


ATOMS = [
    ("REQ",), ("OPT",), ("DIR",), ("APPEND_ONLY",), ("DATE",), ("ISO8601",),
    ("CONST", "A"), ("CONST", "ACTIVE"), ("CONST", 1), ("CONST", (1.0, "1.0")), ("CONST", True), ("CONST", None), ("CONST", ""),
    ("CONST", -3), ("CONST", 2.5), ("CONST", "a b"), ("CONST", "AC"),
    ("ENUM", ["A", "B"]), ("ENUM", ["ACTIVE", "ACTIVATING", "DONE"]), ("ENUM", [1, 2, 3]), ("ENUM", [True, False]),
    ("ENUM", ["X"]), ("ENUM", [10, 20]),
    # member sets in which one member is a proper prefix of another (exact match must win over the prefix scan), both orders
    ("ENUM", ["ACT", "ACTIVE", "DONE"]), ("ENUM", ["ACTIVE", "DONE", "ACT"]), ("ENUM", ["A", "AB", "ABC"]), ("ENUM", ["ABC", "AB", "A"]),
    ("ENUM", [1, 10, 100]), ("ENUM", [100, 10, 1]),
    ("TYPE", "STRING"), ("TYPE", "NUMBER"), ("TYPE", "BOOLEAN"), ("TYPE", "LIST"), ("TYPE", "FOO"), ("TYPEP", "STRING"),
    ("REGEX", "^[a-z]+$"), ("REGEX", "^\\d{3}$"), ("REGEX", "^A.*Z$"), ("REGEX", "^$"), ("REGEX", "^[0-9-]+$"),
    ("RANGE", 1, 10), ("RANGE", 0, 0), ("RANGE", -5, 5), ("RANGE", 0.5, 2.5), ("RANGE", 0, (1000.0, "1e3")),
    ("RANGE", 0, 9007199254740992), ("RANGE", -9007199254740992, (9007199254740992.0, "9007199254740992.0")),
    ("RANGE", 0, (float("inf"), "1e400")), ("RANGE", (float("-inf"), "-1e400"), 0),
    ("MAX_LENGTH", 0), ("MAX_LENGTH", 3), ("MAX_LENGTH", 5), ("MIN_LENGTH", 0), ("MIN_LENGTH", 1), ("MIN_LENGTH", 3),
    ("LITERAL",), ("LANG", "python"),
]
KINDS13 = ["REQ", "OPT", "CONST", "ENUM", "TYPE", "REGEX", "DIR", "APPEND_ONLY", "RANGE", "MAX_LENGTH", "MIN_LENGTH", "DATE", "ISO8601"]
DOC_ATOMS = [a for a in ATOMS if a[0] not in ("TYPEP", "LITERAL", "LANG")
             and not (a[0] == "RANGE" and any(isinstance(pv(b), float) and math.isinf(pv(b)) for b in a[1:]))]


def kind_of(c):
    return "TYPE" if c[0] == "TYPEP" else c[0]


def enum_probe_values(member_sets):
    """For ENUM member sets (python values): every member (as typed and as its text), every proper prefix of a member's text
    (the empty string included; unique, ambiguous, or itself a member), and non-matches (a member extended, a member
    lower-cased, an unrelated text)."""
    out = []
    for ms in member_sets:
        for m in ms:
            if isinstance(m, bool) or not isinstance(m, (str, int)):
                continue
            s = str(m)
            out.append(m)
            out.append(s)
            out += [s[:i] for i in range(len(s))]
            out.append(s + "Z")
            if s.lower() != s:
                out.append(s.lower())
    out.append("ZZ")
    return out


def dedupe_values(vals):
    seen, out = set(), []
    for v in vals:
        try:
            k = (type(v).__name__, repr(v))
        except Exception:  # noqa
            k = ("id", id(v))
        if k not in seen:
            seen.add(k)
            out.append(v)
    return out


def make_values():
    from octave_mcp.core.ast_nodes import LiteralZoneValue
    vals = [None, True, False, 0, 1, 5, 10, 11, -3, 3, 20, 2 ** 53 - 1, 2 ** 53, 2 ** 53 + 1, -(2 ** 53) - 1,
            1.0, 2.5, 0.5, 10.0, 1000.0, -0.0, 10.5, 9007199254740992.0, 1e308, float("inf"), float("-inf"), float("nan"),
            "", "A", "AC", "ACT", "ACTIVE", "ACTIVATING", "B", "X", "abc", "abc\n", "ABZ", "123", "5", " 5 ", "1e2", "nan", "NaN", "inf",
            "-inf", "1e999", "9007199254740993", "1_0",
            "true", "True", "None", "a b", "2024-02-29", "2023-02-29", "2024-13-01", "0000-01-01", "2024-02-29\n", "2024-1-01",
            "2024-01-01T10:00:00Z", "2024-01-01T10:00:00+01:00", "2024-01-01T25:00:00", "hello", "a\x00b", "xxxxxx", "1", "10", "-3",
            [], ["a"], [1, 2, 3], ["a", "b", "c", "d"], [[1], "x"], {}, {"a": 1},
            LiteralZoneValue(content="x = 1", info_tag="python"), LiteralZoneValue(content="", info_tag=None),
            LiteralZoneValue(content="{}", info_tag="JSON"), 10 ** 400, -(10 ** 400)]
    vals += enum_probe_values([[pv(x) for x in a[1]] for a in ATOMS if a[0] == "ENUM"])
    return dedupe_values(vals)


def vkind(v):
    from octave_mcp.core.ast_nodes import LiteralZoneValue
    if v is None:
        return "none"
    if isinstance(v, bool):
        return "bool"
    if isinstance(v, int):
        return "int"
    if isinstance(v, float):
        return "float"
    if isinstance(v, str):
        return "str"
    if isinstance(v, list):
        return "list"
    if isinstance(v, dict):
        return "dict"
    if isinstance(v, LiteralZoneValue):
        return "zone"
    return "other"


def vrepr(v):
    """replayable text of a value (value_of_expr reads it back): huge powers of ten as +-10**k, everything else repr()"""
    if vkind(v) == "int" and abs(v) >= 10 ** 30:
        k = len(str(abs(v))) - 1
        if abs(v) == 10 ** k:
            return ("-" if v < 0 else "") + "10**%d" % k
    return repr(v)


def value_of_expr(s):
    """inverse of vrepr for scalars / lists / dicts, plus the spellings used by corpus files: nan, inf, -inf,
    and integer arithmetic with ** + - (e.g. 2**53+1, -10**400).  Raises ValueError on anything else."""
    import ast as _ast
    s = s.strip()
    if s in ("nan", "inf", "-inf"):
        return float(s)

    def ev(n):
        if isinstance(n, _ast.Constant) and isinstance(n.value, int) and not isinstance(n.value, bool):
            return n.value
        if isinstance(n, _ast.UnaryOp) and isinstance(n.op, _ast.USub):
            return -ev(n.operand)
        if isinstance(n, _ast.BinOp) and isinstance(n.op, (_ast.Pow, _ast.Add, _ast.Sub)):
            a, b = ev(n.left), ev(n.right)
            if isinstance(n.op, _ast.Pow):
                if not 0 <= b <= 5000:
                    raise ValueError("exponent")
                return a ** b
            return a + b if isinstance(n.op, _ast.Add) else a - b
        raise ValueError("not integer arithmetic")
    try:
        return _ast.literal_eval(s)
    except (ValueError, SyntaxError):
        pass
    try:
        return ev(_ast.parse(s, mode="eval").body)
    except SyntaxError as e:
        raise ValueError(str(e))


# =====================================================================================================
# REF: independent reference evaluator (property text only).  Verdict True / False / None (no demand).
# =====================================================================================================
def ref_num(v):
    """numeric reading: exact Fraction | 'inf' | '-inf' | 'nan' | None"""
    if isinstance(v, bool):
        return None
    if isinstance(v, int):
        return Fraction(v)
    if isinstance(v, float):
        if math.isnan(v):
            return "nan"
        if math.isinf(v):
            return "inf" if v > 0 else "-inf"
        return Fraction(v)
    return None


def ref_le(a, b):
    if a == "nan" or b == "nan":
        return False
    if a == "-inf" or b == "inf":
        return True
    if a == "inf" or b == "-inf":
        return False
    return a <= b


def ref_equal(v, c):
    """documented CONST equality; None where bool meets number (text is silent)"""
    kv, kc = vkind(v), vkind(c)
    if kv in ("list", "dict", "zone", "other"):
        return False
    num = ("int", "float")
    if kv in num and kc in num:
        a, b = ref_num(v), ref_num(c)
        return a == b and a != "nan"
    if (kv == "bool" and kc in num) or (kv in num and kc == "bool"):
        return None
    if kv != kc:
        return False
    return v == c


def ref_text(x):
    """decimal/identifier text under which ENUM compares; None = not specified by the text"""
    k = vkind(x)
    if k == "str":
        return x
    if k == "int":
        return str(x)
    return None


def real_date(s):
    if len(s) != 10 or s[4] != "-" or s[7] != "-":
        return False
    ds = s[:4] + s[5:7] + s[8:]
    if not all(c in "0123456789" for c in ds):
        return False
    y, m, d = int(s[:4]), int(s[5:7]), int(s[8:])
    if y < 1 or not 1 <= m <= 12:
        return False
    leap = (y % 4 == 0 and y % 100 != 0) or y % 400 == 0
    dim = [31, 29 if leap else 28, 31, 30, 31, 30, 31, 31, 30, 31, 30, 31][m - 1]
    return 1 <= d <= dim


DT_RE = re.compile(r"(\d{4}-\d{2}-\d{2})T(\d{2}):(\d{2}):(\d{2})(\.\d{1,6})?(Z|[+-](\d{2}):(\d{2}))?\Z")


def ref_iso(s):
    if real_date(s):
        return True
    m = DT_RE.match(s)
    if m:
        ok = real_date(m.group(1)) and int(m.group(2)) < 24 and int(m.group(3)) < 60 and int(m.group(4)) < 60
        if m.group(7) is not None:
            ok = ok and int(m.group(7)) < 24 and int(m.group(8)) < 60
        return True if ok else (False if m.group(7) is None or int(m.group(7)) < 24 else None)
    if sum(c.isdigit() for c in s) < 4:
        return False          # nothing that could be a year
    if re.fullmatch(r"\d{4}-\d{2}-\d{2}", s):
        return False          # date-shaped but not a real date
    return None


def ref_member(c, v):
    """-> (verdict, expected code when rejecting)"""
    k = kind_of(c)
    kv = vkind(v)
    if k == "REQ":
        if v is None or (kv == "str" and v == ""):
            return False, CODE["REQ"]
        if kv in ("list", "dict") and len(v) == 0:
            return None, None
        return True, None
    if k == "OPT":
        return True, None
    if k == "CONST":
        e = ref_equal(v, pv(c[1]))
        return e, CODE["CONST"]
    if k == "ENUM":
        entries = [ref_text(pv(x)) for x in c[1]]
        s = ref_text(v)
        if s is None or any(e is None for e in entries):
            return None, None
        if s in entries:
            return True, None
        n = sum(1 for e in entries if e.startswith(s))
        if n == 1:
            return True, None
        return False, (CODE["ENUM"] if n == 0 else CODE["ENUM_AMBIG"])
    if k == "TYPE":
        t = c[1]
        if t == "STRING":
            return kv == "str", CODE["TYPE"]
        if t == "NUMBER":
            return kv in ("int", "float"), CODE["TYPE"]
        if t == "BOOLEAN":
            return kv == "bool", CODE["TYPE"]
        if t == "LIST":
            return kv == "list", CODE["TYPE"]
        return None, None
    if k == "REGEX":
        if kv != "str":
            return None, None
        return re.search(c[1], v) is not None, CODE["REGEX"]
    if k == "DIR":
        if kv != "str":
            return None, None
        return "\x00" not in v, CODE["DIR"]
    if k == "APPEND_ONLY":
        return kv == "list", CODE["APPEND_ONLY"]
    if k == "RANGE":
        lo, hi = ref_num(pv(c[1])), ref_num(pv(c[2]))
        if kv in ("int", "float"):
            x = ref_num(v)
        elif kv == "str":
            try:
                x = ref_num(float(v))
            except ValueError:
                return False, CODE["RANGE"]
        else:
            return False, CODE["RANGE"]
        return ref_le(lo, x) and ref_le(x, hi), CODE["RANGE"]
    if k in ("MAX_LENGTH", "MIN_LENGTH"):
        if kv not in ("str", "list"):
            return False, CODE[k]
        return (len(v) <= c[1]) if k == "MAX_LENGTH" else (len(v) >= c[1]), CODE[k]
    if k == "DATE":
        return (kv == "str" and real_date(v)), CODE["DATE"]
    if k == "ISO8601":
        if kv != "str":
            return None, None
        return ref_iso(v), CODE["ISO8601"]
    if k == "LITERAL":
        return kv == "zone", CODE["LITERAL"]
    if k == "LANG":
        return (kv == "zone" and bool(v.info_tag) and v.info_tag.lower() == c[1].lower()), CODE["LANG"]
    raise ValueError(k)


def ref_conflict(chain):
    """True / False / None"""
    kinds = [kind_of(c) for c in chain]
    res = False
    if "REQ" in kinds and "OPT" in kinds:
        return True
    consts = [pv(c[1]) for c in chain if c[0] == "CONST"]
    unknown = False
    for a, b in itertools.combinations(consts, 2):
        e = ref_equal(a, b)
        if e is False:
            return True
        if e is None:
            unknown = True
    for c in chain:
        if c[0] != "ENUM":
            continue
        entries = [ref_text(pv(x)) for x in c[1]]
        for k in consts:
            s = ref_text(k)
            if s is None or any(e is None for e in entries):
                unknown = True
            elif s in entries:
                pass
            elif any(e.startswith(s) for e in entries):
                unknown = True      # outside the list but inside by the prefix rule: the text does not decide
            else:
                return True
    return None if unknown else res


def ref_chain(chain, v):
    """-> (verdict, codes or None)"""
    cf = ref_conflict(chain)
    if cf is True:
        return False, "conflict"
    members = [ref_member(c, v) for c in chain]
    first_false = next((i for i, (m, _) in enumerate(members) if m is False), None)
    if cf is None:
        return None, None          # an undecided conflict masks everything
    if first_false is not None:
        codes = [members[first_false][1]] if all(m is True for m, _ in members[:first_false]) else None
        return False, codes
    if all(m is True for m, _ in members):
        return True, []
    return None, None


# =====================================================================================================
# encoding for the model driver
# =====================================================================================================
def enc_int(n):
    n = int(n)
    return "0" if n == 0 else ("+" if n > 0 else "-") + format(abs(n), "b")


def enc_fl(x):
    if isinstance(x, bool) or isinstance(x, int):
        return enc_int(x) + "/1"
    if math.isnan(x):
        return "nan"
    if math.isinf(x):
        return "inf" if x > 0 else "ninf"
    a, b = x.as_integer_ratio()
    return enc_int(a) + "/" + format(b, "b")


class OutOfModel(Exception):
    pass


def enc_val(v):
    k = vkind(v)
    if k == "none":
        return "N"
    if k == "bool":
        return "B1" if v else "B0"
    if k == "int":
        return "I" + enc_int(v)
    if k == "float":
        return "F" + enc_fl(v) + ":" + enc_str(repr(v))
    if k == "str":
        return "S" + enc_str(v)
    if k == "list":
        return " ".join(["L%d" % len(v)] + [enc_val(x) for x in v])
    if k == "dict":
        parts = ["D%d" % len(v)]
        for kk, x in v.items():
            if not isinstance(kk, str):
                raise OutOfModel("dict key")
            parts += [enc_str(kk), enc_val(x)]
        return " ".join(parts)
    if k == "zone":
        return "Z~" if v.info_tag is None else "Z" + enc_str(v.info_tag)
    raise OutOfModel("value kind " + type(v).__name__)


def oracle_of(v):
    """(str(v), float(v) for strings | None, fromiso ok, fromiso(Z) ok) -- computed with the real Python.
    Ints and floats need no float oracle: RANGE keeps them as they are (ints of any size are in the model)."""
    from datetime import datetime
    s = str(v)
    fl = "~"
    if isinstance(v, str):
        try:
            fl = enc_fl(float(v))
        except (ValueError, TypeError):
            fl = "~"
    try:
        datetime.fromisoformat(s)
        a = "1"
    except ValueError:
        a = "0"
    try:
        datetime.fromisoformat(s.replace("Z", "+00:00"))
        b = "1"
    except (ValueError, AttributeError):
        b = "0"
    return "%s %s %s %s" % (enc_str(s), fl, a, b)


def enc_cst(c, v):
    """parsed constraint OBJECT -> model token(s); REGEX carries its verdict on str(v) (oracle)"""
    n = type(c).__name__
    simple = {"RequiredConstraint": "REQ", "OptionalConstraint": "OPT", "DirConstraint": "DIR", "AppendOnlyConstraint": "APP",
              "DateConstraint": "DATE", "Iso8601Constraint": "ISO", "LiteralConstraint": "LIT"}
    if n in simple:
        return simple[n]
    if n == "ConstConstraint":
        if vkind(c.const_value) not in ("none", "bool", "int", "float", "str"):
            raise OutOfModel("const")
        return "CONST " + enc_val(c.const_value)
    if n == "EnumConstraint":
        return " ".join(["ENUM", str(len(c.allowed_values))] + [enc_str(x) for x in c.allowed_values])
    if n == "TypeConstraint":
        return "TYPE " + enc_str(c.expected_type)
    if n == "RegexConstraint":
        ok = re.compile(c.pattern).match(str(v)) is not None
        return "REGEX %s %d" % (enc_str(c.pattern), ok)
    if n == "RangeConstraint":
        return "RANGE %s %s" % (enc_fl(c.min_value), enc_fl(c.max_value))
    if n == "MaxLengthConstraint":
        return "MAXL " + enc_int(c.max_length)
    if n == "MinLengthConstraint":
        return "MINL " + enc_int(c.min_length)
    if n == "LangConstraint":
        if not c.expected_lang.isascii():
            raise OutOfModel("lang")
        return "LANG " + enc_str(c.expected_lang)
    raise OutOfModel(n)


def enc_chain(cs, v):
    return " ".join([str(len(cs))] + [enc_cst(c, v) for c in cs])


def dec_res(line):
    a, b = line.split(" ")
    return (a == "1", [] if b == "-" else [dec_str(x) for x in b.split(",")])


# =====================================================================================================
# implementation side
# =====================================================================================================
def impl_eval(chain_obj, v):
    try:
        r = chain_obj.evaluate(v)
        return (bool(r.valid), [e.code for e in r.errors])
    except Exception as e:  # noqa
        return ("EXC", type(e).__name__)


# ---- finding predicates (precise clauses) ----
# No chain-level finding is open.  The three RANGE defects (nan accepted, OverflowError on ints above the double range,
# bound test on the rounded float(int)) were repaired by repo commit 8e26d46; their witnesses are corpus cases
# 006-011 that must PASS, and any such deviation is now an unattributed property failure (VIOLATION).
FINDING_PRED = []


def classify_member(c, v):
    for fid, p in FINDING_PRED:
        if p(c, v):
            return fid
    return None


class ChainJudge:
    """Caches per chain text; judges (chain, value) cases on the implementation against REF and the structural clauses."""

    def __init__(self, ctx, values):
        from octave_mcp.core.constraints import ConstraintChain
        self.CC = ConstraintChain
        self.ctx = ctx
        self.values = values
        self.single = {}     # (atom text, value index) -> impl result of the one-member chain
        self.parsed = {}

    def parse(self, text):
        if text not in self.parsed:
            try:
                self.parsed[text] = self.CC.parse(text)
            except Exception as e:  # noqa
                self.parsed[text] = e
        return self.parsed[text]

    def single_eval(self, c, vi):
        key = (text_of(c), vi)
        if key not in self.single:
            ch = self.parse(key[0])
            self.single[key] = impl_eval(ch, self.values[vi]) if not isinstance(ch, Exception) else ("EXC", "parse")
        return self.single[key]

    def judge(self, chain, vi, impl, perm_impl):
        """chain: structured description; impl: result of the chain; perm_impl: result of a permuted chain."""
        ctx = self.ctx
        v = self.values[vi]
        text = "∧".join(text_of(c) for c in chain)
        case = {"chain": text, "value": vrepr(v), "value_kind": vkind(v), "impl": list(impl)}
        singles = [self.single_eval(c, vi) for c in chain]
        # members that individually deviate from REF, with their finding class
        bad_members = []
        for c, s in zip(chain, singles):
            m, code = ref_member(c, v)
            dev = None
            if s[0] == "EXC":
                dev = "raises " + s[1]
            elif m is not None and s[0] != m:
                dev = "verdict %s, documented %s" % (s[0], m)
            elif m is False and code is not None and s[1] != [code]:
                dev = "codes %s, documented [%s]" % (s[1], code)
            if dev:
                bad_members.append((c, dev, classify_member(c, v)))
        fids = {f for _, _, f in bad_members}
        attributed = next(iter(fids)) if len(fids) == 1 and None not in fids else None
        if len(chain) == 1:
            for c, dev, fid in bad_members:
                ctx.hist("member_deviation", fid or "unattributed")
                ctx.property_failure(dict(case, member=text_of(c)), "%s on %s: %s" % (text_of(c), vkind(v), dev), finding=fid)
            return
        if impl[0] == "EXC":
            ctx.property_failure(case, "chain evaluation raises " + impl[1], finding=attributed)
            return
        # 1. the documented verdict of the chain
        want, wcodes = ref_chain(chain, v)
        if want is not None and impl[0] != want:
            ctx.property_failure(dict(case, documented=want), "chain verdict %s, documented %s" % (impl[0], want), finding=attributed)
        elif want is False and wcodes == "conflict" and (not impl[1] or any(x != CODE["CONFLICT"] for x in impl[1])):
            ctx.property_failure(case, "conflicting chain does not report only E999", finding=attributed)
        elif want is False and isinstance(wcodes, list) and impl[1] != wcodes:
            ctx.property_failure(dict(case, documented_codes=wcodes), "chain error codes differ from the first failing member's", finding=attributed)
        # 2. conjunction on the implementation itself: accepts <=> no conflict (REF) and every member accepts alone
        cf = ref_conflict(chain)
        if cf is not None and all(s[0] != "EXC" for s in singles):
            conj = (not cf) and all(s[0] for s in singles)
            if impl[0] != conj:
                ctx.property_failure(dict(case, members=[list(s) for s in singles], conflict=cf),
                                     "chain verdict is not (no conflict and every member accepts)", finding=attributed)
            # 3. fail-fast: the errors are those of the first failing member
            if not cf and not conj:
                first = next(s for s in singles if not s[0])
                if impl[1] != first[1]:
                    ctx.property_failure(dict(case, first_failing=list(first)), "errors are not those of the first failing member", finding=attributed)
        # 4. order independence
        if perm_impl is not None and perm_impl[0] != impl[0]:
            ctx.property_failure(dict(case, permuted=list(perm_impl)), "verdict changes with the order of the members", finding=attributed)


# =====================================================================================================
# chain-level run
# =====================================================================================================
def gen_chains(ctx):
    rng = ctx.rng
    chains = [[a] for a in ATOMS]
    if not ctx.quick():
        chains += [[a, b] for a in ATOMS for b in ATOMS]
    else:
        chains += [[a, b] for a in ATOMS for b in ATOMS if rng.random() < 0.12]
    by_kind = {}
    for a in ATOMS:
        by_kind.setdefault(kind_of(a), []).append(a)
    n = ctx.scale(700, 16000)
    themes = [["REQ", "TYPE:STRING", "ENUM", "REGEX", "MAX_LENGTH", "MIN_LENGTH", "CONST", "DIR", "OPT"],
              ["REQ", "TYPE:NUMBER", "RANGE", "CONST", "ENUM", "OPT", "RANGE"],
              ["APPEND_ONLY", "TYPE:LIST", "MIN_LENGTH", "MAX_LENGTH", "REQ", "OPT"],
              ["DATE", "ISO8601", "REGEX", "MIN_LENGTH", "MAX_LENGTH", "TYPE:STRING", "REQ"],
              ["LITERAL", "LANG", "REQ", "OPT"], ["TYPE:BOOLEAN", "CONST", "ENUM", "REQ"]]
    for i in range(n):
        ln = rng.choice([2, 3, 3, 4, 4])
        ch = []
        theme = rng.choice(themes) if i % 2 == 0 else None     # half the chains are coherent (so that many accept)
        for _ in range(ln):
            if theme:
                k = rng.choice(theme)
                if k.startswith("TYPE:"):
                    ch.append(("TYPE", k[5:]))
                    continue
            else:
                k = rng.choice(KINDS13) if rng.random() < 0.93 else rng.choice(["LITERAL", "LANG"])
            ch.append(rng.choice(by_kind[k]))
        chains.append(ch)
    return chains


def run_chain_cases(ctx, have_model, chains, values, label, select=None):
    """Judge every (chain, value) case: IMPL vs REF + structural clauses (always), IMPL vs MODEL (when the driver built).
    `select[ci]` = indexes into `values` for chain ci (None = all values)."""
    judge = ChainJudge(ctx, values)
    rng = ctx.rng
    oracles = []
    for v in values:
        try:
            oracles.append((oracle_of(v), enc_val(v)))
        except OutOfModel:
            oracles.append(None)
    st = {"cases": 0, "model": 0, "oom": 0}
    batch_lines, batch_meta = [], []

    def flush():
        nonlocal batch_lines, batch_meta
        if not batch_lines:
            return
        res = run_driver("cst", batch_lines)
        for (text, vi, impl), line in zip(batch_meta, res):
            if line.startswith("!"):
                ctx.correspondence_failure({"chain": text, "value": vrepr(values[vi]), "model": line}, "model driver error")
                continue
            m = dec_res(line)
            if impl[0] == "EXC" or (m[0], m[1]) != (impl[0], impl[1]):
                ctx.correspondence_failure({"chain": text, "value": vrepr(values[vi]), "impl": list(impl), "model": [m[0], m[1]]},
                                           "ConstraintChain.evaluate differs from the model")
        batch_lines, batch_meta = [], []

    seen_texts = set()
    for ci, chain in enumerate(chains):
        text = "∧".join(text_of(c) for c in chain)
        obj = judge.parse(text)
        if isinstance(obj, Exception):
            ctx.property_failure({"chain": text}, "generated chain does not parse: %r" % obj)
            continue
        perm_obj = None
        if len(chain) > 1:
            perm = chain[:]
            rng.shuffle(perm)
            if perm != chain:
                perm_obj = judge.parse("∧".join(text_of(c) for c in perm))
        first_time = text not in seen_texts
        seen_texts.add(text)
        ctx.hist("chain_len", len(chain))
        for c in chain:
            ctx.hist("kind", kind_of(c))
        for vi in (range(len(values)) if select is None else select[ci]):
            v = values[vi]
            impl = impl_eval(obj, v)
            perm_impl = impl_eval(perm_obj, v) if perm_obj is not None and not isinstance(perm_obj, Exception) else None
            st["cases"] += 1
            judge.judge(chain, vi, impl, perm_impl)
            if first_time:
                ctx.nontrivial((label, text, vi))
            ctx.hist("value_kind", vkind(v))
            ctx.hist("impl_verdict", "raises" if impl[0] == "EXC" else ("accept" if impl[0] else "reject:" + ",".join(sorted(set(impl[1])))))
            if have_model:
                if oracles[vi] is None:
                    st["oom"] += 1
                    continue
                try:
                    line = "ev %s %s %s" % (oracles[vi][0], oracles[vi][1], enc_chain(obj.constraints, v))
                except OutOfModel:
                    st["oom"] += 1
                    continue
                batch_lines.append(line)
                batch_meta.append((text, vi, impl))
                st["model"] += 1
                if len(batch_lines) >= 100000:
                    flush()
    flush()
    st["distinct_chains"] = len(seen_texts)
    return st, judge


def run_chains(ctx, have_model):
    values = make_values()
    st, judge = run_chain_cases(ctx, have_model, gen_chains(ctx), values, "pool")
    ctx.count(st["cases"])
    ctx.extra["chain_value_cases"] = st["cases"]
    ctx.extra["chain_value_cases_in_model"] = st["model"]
    ctx.extra["chain_value_cases_out_of_model"] = st["oom"]
    ctx.extra["distinct_chains"] = st["distinct_chains"]
    ctx.sample({"chain": "REQ∧ENUM[ACTIVE,ACTIVATING,DONE]∧MAX_LENGTH[5]", "value": "ACTIV",
                "impl": list(impl_eval(judge.parse("REQ∧ENUM[ACTIVE,ACTIVATING,DONE]∧MAX_LENGTH[5]"), "ACTIV"))})
    ctx.sample({"chain": "CONST[1]∧CONST[2]∧CONST[1]", "value": 1,
                "impl": list(impl_eval(judge.parse("CONST[1]∧CONST[2]∧CONST[1]"), 1))})
    return values, judge


# ---- ENUM exact / unique-prefix / ambiguous / no-match: the whole class, systematically -----------------------------------
ENUM_STEMS = ["A", "ACT", "DONE", "ab", "Q_x", "x1", "v1.0", "10", "7"]
ENUM_TAILS = ["B", "IVE", "C", "x", "_1", "0", ".1", "ING"]


def gen_enum_sets(ctx):
    """ENUM member sets (python values) in which some member is a proper prefix of another -- nested 2 or 3 deep, with
    unrelated members, a duplicated member now and then, in random order; string sets and int sets; plus prefix-free
    control sets."""
    rng = ctx.rng
    sets = [["ACT", "ACTIVE", "DONE"], ["ACTIVE", "ACT", "DONE"], ["DONE", "ACTIVE", "ACT"], ["A", "AB", "ABC"], ["ABC", "A", "AB"],
            [1, 10, 100], [100, 1, 10], [10, 1], [7, 70, 8], ["ACTIVE", "ARCHIVED"], ["A", "A", "B"], ["x1", "x10", "x100", "y"],
            ["v1.0", "v1.0.1", "v2.0"], [1, "1x", 12]]
    for _ in range(ctx.scale(40, 600)):
        numeric = rng.random() < 0.3
        if numeric:
            base = rng.choice([1, 2, 7, 10, 12, 90])
            ms = [base]
            for _ in range(rng.choice([1, 1, 2])):
                ms.append(int(str(ms[-1]) + rng.choice("0123456789")))
            ms += rng.sample([3, 4, 55, 600, 8], rng.choice([0, 1, 2]))
        else:
            w = rng.choice(ENUM_STEMS)
            ms = [w]
            for _ in range(rng.choice([1, 1, 2])):
                ms.append(ms[-1] + rng.choice(ENUM_TAILS))
            ms += rng.sample(["DONE", "Z", "other", "B", "ZED"], rng.choice([0, 1, 2]))
            if rng.random() < 0.1:
                ms.append(rng.choice(ms))
        rng.shuffle(ms)
        sets.append(ms)
    return sets


def run_enum_focus(ctx, have_model):
    """(3) of the ENUM clause: for every generated member set, every member / every proper prefix / non-matches, alone and
    inside chains, on the implementation against REF (exact match wins; else unique prefix; ambiguous -> E006; none -> E005)."""
    rng = ctx.rng
    sets = gen_enum_sets(ctx)
    values, index = [], {}

    def vi_of(v):
        k = (type(v).__name__, repr(v))
        if k not in index:
            index[k] = len(values)
            values.append(v)
        return index[k]

    chains, select = [], []
    for ms in sets:
        e = ("ENUM", ms)
        probes = dedupe_values(enum_probe_values([ms]))
        vis = [vi_of(v) for v in probes]
        numeric = all(isinstance(m, int) for m in ms)
        maxlen = max(len(str(m)) for m in ms)
        member = rng.choice(ms)
        wrappers = [[e], [("REQ",), e], [("OPT",), e], [e, ("TYPE", "NUMBER" if numeric else "STRING")],
                    [("TYPE", "NUMBER" if numeric else "STRING"), e, ("MAX_LENGTH", maxlen)] if not numeric else [("TYPE", "NUMBER"), e, ("RANGE", 0, 10 ** 6)],
                    [e, ("MIN_LENGTH", 1)], [e, ("CONST", member)], [("REQ",), e, ("MAX_LENGTH", maxlen + 1), ("MIN_LENGTH", 0)]]
        if ctx.quick():
            wrappers = wrappers[:2] + rng.sample(wrappers[2:], 3)
        for w in wrappers:
            chains.append(w)
            select.append(vis)
        ctx.hist("enum_set", "%s/%d members" % ("int" if numeric else "str", len(ms)))
    # what the probes are, by the reference's own classification (input distribution of this search)
    for ms in sets:
        texts = [str(m) for m in ms]
        for v in dedupe_values(enum_probe_values([ms])):
            s = str(v)
            n = sum(1 for x in texts if x.startswith(s))
            cls = ("member+proper-prefix-of-another" if any(x != s and x.startswith(s) for x in texts) else "member") if s in texts else \
                ("unique-prefix" if n == 1 else ("ambiguous-prefix" if n > 1 else "no-match"))
            ctx.hist("enum_probe", cls)
    st, _ = run_chain_cases(ctx, have_model, chains, values, "enum", select)
    ctx.count(st["cases"])
    ctx.extra["enum_focus_sets"] = len(sets)
    ctx.extra["enum_focus_cases"] = st["cases"]
    ctx.extra["enum_focus_cases_in_model"] = st["model"]
    ctx.sample({"chain": "REQ∧ENUM[ACTIVE,DONE,ACT]", "value": "ACT", "documented": [True, []]})


def run_side_checks(ctx, have_model, values):
    """oracle-honesty and small-function correspondence: str() of atoms, DATE shape / Gregorian check, parse dispatch."""
    if not have_model:
        return
    from datetime import datetime
    from octave_mcp.core.constraints import ConstraintChain
    rng = ctx.rng
    # str(atom)
    atoms = [v for v in values if vkind(v) in ("none", "bool", "int", "str", "float")]
    atoms += [rng.randint(-10 ** 20, 10 ** 20) for _ in range(200)]
    res = run_driver("cst", ["pystr " + enc_val(a) for a in atoms])
    for a, r in zip(atoms, res):
        ctx.count()
        if dec_str(r) != str(a):
            ctx.correspondence_failure({"value": vrepr(a), "model": dec_str(r), "impl": str(a)}, "str(atom) differs from the model")
    # Python == on atoms
    big = [2 ** 53, 2 ** 53 + 1, -(2 ** 53) - 1, 9007199254740992.0, -9007199254740992.0, 10 ** 400, -(10 ** 400), 1e308,
           float("inf"), float("-inf"), float("nan"), True, 1, 1.0]
    pairs = [(a, b) for a in atoms[:45] for b in atoms[:45]] + [(a, b) for a in big for b in big]
    res = run_driver("cst", ["eqb %s %s" % (enc_val(a), enc_val(b)) for a, b in pairs])
    for (a, b), r in zip(pairs, res):
        ctx.count()
        if (r == "1") != (a == b):
            ctx.correspondence_failure({"a": vrepr(a), "b": vrepr(b), "model": r}, "Python == on atoms differs from the model")
    # DATE: the model's shape test vs the source regex, and fromisoformat vs the Gregorian check on shaped strings
    dates = []
    for _ in range(ctx.scale(3000, 40000)):
        y = rng.choice([0, 1, 4, 100, 400, 1900, 2000, 2023, 2024, 2100, 9999, rng.randint(0, 9999)])
        m = rng.choice([0, 1, 2, 2, 4, 6, 9, 11, 12, 13, rng.randint(0, 19)])
        d = rng.choice([0, 1, 28, 29, 30, 31, 32, rng.randint(0, 39)])
        s = "%04d-%02d-%02d" % (y, m, d)
        r = rng.random()
        if r < 0.05:
            s += "\n"
        elif r < 0.1:
            s = s.replace("-", "/", 1)
        elif r < 0.15:
            s = s[:-1]
        elif r < 0.2:
            s = s + "T00:00:00"
        dates.append(s)
    res = run_driver("cst", ["date " + enc_str(s) for s in dates])
    pat = re.compile(r"^\d{4}-\d{2}-\d{2}$")
    for s, r in zip(dates, res):
        ctx.count()
        shape = pat.match(s) is not None
        try:
            datetime.fromisoformat(s)
            iso = True
        except ValueError:
            iso = False
        if (r[0] == "1") != shape:
            ctx.correspondence_failure({"text": s, "model_shape": r[0]}, "DATE shape test differs from the source regex")
        if shape and (r[1] == "1") != iso:
            ctx.correspondence_failure({"text": s, "model_gregorian": r[1], "fromisoformat": iso},
                                       "oracle hypothesis fromiso_is_gregorian fails (fromisoformat vs Gregorian check)")
        if real_date(s) != (r[1] == "1"):
            ctx.correspondence_failure({"text": s}, "reference and model Gregorian checks differ")
    # parse dispatch: class + argument slice of every atom text (and some decoys)
    parts = sorted({text_of(a) for a in ATOMS} | {"TYPE(LITERAL)", " REQ ", "ENUM[]", "LANG[x]", "CONST[]", "RANGE[1,2", "FOO", "REQ[", "TYPE[LITERAL] "})
    res = run_driver("cst", ["cls " + enc_str(p) for p in parts])
    for p, r in zip(parts, res):
        ctx.count()
        try:
            ch = ConstraintChain.parse(p + "∧")      # the operator forces the non-space splitting branch: one part
            got = type(ch.constraints[0]).__name__ if ch.constraints else None
        except ValueError as e:
            got = None if "Unknown constraint" in str(e) else "ARGERROR"
        want = None if r == "NONE" else dec_str(r.split(" ")[0])
        if got == "ARGERROR":
            continue
        if got != want:
            ctx.correspondence_failure({"part": p, "impl_class": got, "model_class": want}, "ConstraintChain.parse dispatch differs from the model")
    texts = ["REQ∧OPT", " REQ ∧ TYPE[STRING] ∧", "∧∧REQ", "ENUM[A,B]∧REGEX[\"^a b$\"]"]
    res = run_driver("cst", ["split " + enc_str(t) for t in texts])
    for t, r in zip(texts, res):
        ctx.count()
        want = ConstraintChain._split_parts(t)
        got = [] if r == "NONE" else [dec_str(x) for x in r.split(" ")]
        if got != want:
            ctx.correspondence_failure({"text": t, "impl": want, "model": got}, "_split_parts differs from the model")


# =====================================================================================================
# document level
# =====================================================================================================
POLICIES = ["REJECT", "WARN", "IGNORE", "BOGUS", None]


def doc_value_text(v):
    if v is None:
        return "null"
    if v is True:
        return "true"
    if v is False:
        return "false"
    if isinstance(v, str):
        return '"%s"' % v
    if isinstance(v, list):
        return "[%s]" % ",".join(doc_value_text(x) for x in v)
    return repr(v)


DOC_VALUES = ["A", "ACTIVE", "ACT", "abc", "", "123", "5", "nan", "2024-02-29", "2024-02-30", "a b", "X", 1, 5, 11, -3, 2.5, 1.0, 0,
              True, False, None, ["a"], ["a", "b", "c", "d"], [1, 2, 3], "2024-01-01T10:00:00Z", "hello",
              "AB", "ABC", "ACTI", "ACTIVATING", "DONE", "D", "B", "1", "10", 10, 100, 2, 20]


# fixed schema #1: ENUM member sets with a member that is a proper prefix of another; instances hit every class
ENUM_DOC_FIELDS = [("STATE", [("REQ",), ("ENUM", ["ACT", "ACTIVE", "DONE"])]), ("LEVEL", [("OPT",), ("ENUM", ["ABC", "A", "AB"])]),
                   ("N", [("ENUM", [1, 10, 100]), ("TYPE", "NUMBER")])]
ENUM_DOC_INSTANCES = [[("STATE", "ACT"), ("LEVEL", "A"), ("N", 1)], [("STATE", "ACTIVE"), ("LEVEL", "AB"), ("N", 10)],
                      [("STATE", "ACTI"), ("LEVEL", "ABC"), ("N", 100)], [("STATE", "AC"), ("LEVEL", "B"), ("N", 2)],
                      [("STATE", "DONE"), ("LEVEL", ""), ("N", 10)], [("STATE", "D"), ("LEVEL", "AB"), ("N", "1")],
                      [("STATE", "ACT"), ("N", 1), ("N", 10)], [("LEVEL", "A"), ("STATE", "X"), ("STATE", "ACT")],
                      [("STATE", "ACT")], [("STATE", "ACTIVEZ"), ("LEVEL", "a"), ("N", 1000)]]


def schema_text(name, policy, fields):
    pol = "" if policy is None else "  UNKNOWN_FIELDS::%s\n" % policy
    body = "".join('  %s::["ex"∧%s→§SELF]\n' % (f, "∧".join(text_of(c) for c in ch)) for f, ch in fields)
    return ('===%s===\nMETA:\n  TYPE::PROTOCOL_DEFINITION\n  VERSION::"1.0"\n\nPOLICY:\n  VERSION::"1.0"\n%s\nFIELDS:\n%s===END===\n'
            % (name, pol, body))


def instance_text(name, assigns):
    body = "".join("  %s::%s\n" % (k, doc_value_text(v)) for k, v in assigns)
    if not assigns:
        body = "  // nothing\n"
    return "===INST===\nMETA:\n  TYPE::TEST\n%s:\n%s===END===\n" % (name, body)


def srt(pairs):
    """sorted() that tolerates None next to strings"""
    return sorted((tuple(x) for x in pairs), key=lambda x: tuple(str(y) for y in x))


class DocRunner:
    """One (schema currently on disk, instance document) observation on the document-level surfaces.

    Three judges per observation, exactly as at chain level:
      IMPL   octave_validate / octave_write(corrections_only) with schema=<NAME>  -- the surfaces resolve the name themselves
      MODEL  validate_section of the extracted model, fed with the schema READ FROM THE FILE ON DISK (load_schema(path), never
             through the by-name resolver) -- and Validator.validate with that same on-disk schema
      REF    clauses (a) missing REQ, (b) unknown field per policy, (d) per-field chain verdict, from the GENERATED description
    so a surface that answers for anything but the schema currently bound to the name disagrees with REF and with MODEL."""

    def __init__(self, ctx, have_model):
        from octave_mcp.core.ast_nodes import Assignment, Block
        from octave_mcp.core.constraints import ConstraintChain
        from octave_mcp.core.parser import parse
        from octave_mcp.core.validator import Validator
        from octave_mcp.mcp.validate import ValidateTool
        from octave_mcp.mcp.write import WriteTool
        from octave_mcp.schemas.loader import load_schema
        self.ctx, self.have_model = ctx, have_model
        self.Assignment, self.Block, self.CC, self.parse, self.Validator = Assignment, Block, ConstraintChain, parse, Validator
        self.load_schema = load_schema
        self.vtool = ValidateTool()          # ONE tool object for the whole run: in-process history is part of the input
        self.wtool = WriteTool()
        from click.testing import CliRunner
        from octave_mcp.cli.main import cli
        self.cli, self.cli_runner = cli, CliRunner()
        self.lines, self.metas = [], []
        self.n_docs = 0
        self.witness_done = False

    # ---- surfaces ---------------------------------------------------------------------------------------------------
    def call(self, surface, name, itext, outdir):
        """-> ('ok', verrs, warns, status) | ('raised', text) | ('not-parsed',)"""
        try:
            if surface == "validate":
                res = asyncio.run(self.vtool.execute(content=itext, schema=name))
            elif surface == "write":
                res = asyncio.run(self.wtool.execute(target_path=os.path.join(outdir, "doc.oct.md"), content=itext, schema=name,
                                                     corrections_only=True))
            elif surface == "cli":
                # `octave validate --schema N --stdin`: as built it consults only builtin dict schemas for the verdict, so REF
                # makes no demand on it; it is observed for history-independence (same schema text => same answer)
                r = self.cli_runner.invoke(self.cli, ["validate", "--stdin", "--schema", name], input=itext)
                m = re.search(r"validation_status: (\w+)", r.output or "")
                return ("cli", r.exit_code, m.group(1) if m else None)
            else:
                raise ValueError(surface)
        except Exception as e:  # noqa
            return ("raised", "%s: %s" % (type(e).__name__, e))
        if res.get("status") != "success":
            return ("not-parsed",)
        verrs = [(e.get("code"), e.get("field")) for e in res.get("validation_errors", [])]
        warns = [(e.get("code"), e.get("field")) for e in res.get("warnings", [])]
        return ("ok", verrs, warns, res.get("validation_status"))

    def read_instance(self, name, itext, assigns):
        """what the block really contains after the implementation's own parse (the front end is not under test here)"""
        doc = self.parse(itext)
        blocks = [s for s in doc.sections if isinstance(s, self.Block) and s.key == name]
        if len(blocks) != 1:
            return doc, None, "no-block"
        present = {}
        val = self.Validator(schema=None)
        for ch_ in blocks[0].children:
            if isinstance(ch_, self.Assignment):
                present[ch_.key] = val._to_python_value(ch_.value)
        if set(present) != {k for k, _ in assigns}:
            return doc, None, "keys-differ-after-parse"
        return doc, present, None

    def read_schema(self, schema_file, fields, case):
        """the schema as the front end reads the file that is on disk NOW (direct file load, no name resolution)"""
        try:
            sd = self.load_schema(schema_file)
        except Exception as e:  # noqa
            sd = None
            case = dict(case, error="%s: %s" % (type(e).__name__, e))
        if sd is None or set(sd.fields) != {f for f, _ in fields}:
            self.ctx.property_failure(case, "generated schema is not read back with its fields")
            return None
        return sd

    # ---- REF clauses on one surface ------------------------------------------------------------------------------------
    def ref_clauses(self, surface, case, name, policy, fields, sd, present, verrs, warns, status, is_witness=False):
        ctx = self.ctx
        eff_policy = policy if policy in ("REJECT", "WARN", "IGNORE") else "REJECT"
        named = lambda lst, f: [c for c, p in lst if p == "%s.%s" % (name, f)]  # noqa
        tag = "" if surface == "validate" else surface + ":"
        # (a) missing required field -> an error naming it
        for fname, ch in fields:
            if "REQ" in [kind_of(c) for c in ch] and fname not in present:
                ctx.hist("doc_clause", tag + "missing-req")
                if not named(verrs, fname):
                    ctx.property_failure(dict(case, field=fname, validation_errors=verrs),
                                         "missing required field produces no error naming it")
        # (b) unknown fields per policy
        unknown = sorted(k for k in present if k not in {f for f, _ in fields})
        other_errors = [c for c, p in verrs if p not in {"%s.%s" % (name, u) for u in unknown}]
        for u in unknown:
            ctx.hist("doc_clause", tag + "unknown-" + eff_policy)
            if eff_policy == "REJECT" and not named(verrs, u):
                ctx.property_failure(dict(case, field=u, validation_errors=verrs), "unknown field under REJECT produces no error naming it")
            if eff_policy == "IGNORE" and (named(verrs, u) or named(warns, u)):
                ctx.property_failure(dict(case, field=u, validation_errors=verrs, warnings=warns), "unknown field under IGNORE is reported")
            if eff_policy == "WARN" and surface == "write":
                # octave_write has one channel only: the warning must be there, and nothing but the warning
                if not named(verrs, u) or any(c != "W001" for c in named(verrs, u)):
                    ctx.property_failure(dict(case, field=u, validation_errors=verrs), "unknown field under WARN is not reported as the W001 warning only")
            if eff_policy == "WARN" and surface == "validate":
                if not named(warns, u):
                    ctx.property_failure(dict(case, field=u, warnings=warns), "unknown field under WARN produces no warning naming it")
                bad = named(verrs, u)
                if bad or (not other_errors and status == "INVALID"):
                    # classifier of C08-warn-invalid: WARN policy, the entry is the W001 warning itself
                    fid = "C08-warn-invalid" if all(c == "W001" for c in bad) else None
                    ctx.property_failure(dict(case, field=u, validation_errors=verrs, validation_status=status),
                                         "unknown field under WARN is listed in validation_errors / makes the document INVALID", finding=fid)
                    if is_witness:
                        self.witness_done = True
        # (d) per-field verdict: the errors naming a present schema field are the documented verdict of its chain on the value
        #     the implementation itself read (only when the schema front end reads the chain ON DISK as generated)
        for fname, ch in fields:
            v = present.get(fname)
            if v is None or vkind(v) not in ("bool", "int", "float", "str", "list"):
                continue
            fd = sd.fields[fname]
            real = fd.pattern.constraints.constraints if fd.pattern and fd.pattern.constraints else None
            try:
                same = real == self.CC.parse("∧".join(text_of(c) for c in ch)).constraints
            except Exception:  # noqa
                same = False
            if not same:
                ctx.hist("doc_clause", tag + "field-chain-not-read-as-generated")
                continue
            want, wcodes = ref_chain(ch, v)
            got_codes = named(verrs, fname)
            ctx.hist("doc_clause", tag + "field-verdict-" + {True: "accept", False: "reject", None: "undecided"}[want])
            fcase = dict(case, field=fname, field_chain="∧".join(text_of(c) for c in ch), field_value=vrepr(v),
                         field_value_kind=vkind(v), field_errors=got_codes, documented=want, validation_errors=verrs)
            if want is True and got_codes:
                ctx.property_failure(fcase, "document field accepted by its documented chain semantics gets errors %s" % got_codes)
            elif want is False and not got_codes:
                ctx.property_failure(fcase, "document field rejected by its documented chain semantics gets no error naming it")
            elif want is False and wcodes == "conflict" and any(c != CODE["CONFLICT"] for c in got_codes):
                ctx.property_failure(fcase, "document field with a conflicting chain does not report only E999")
            elif want is False and isinstance(wcodes, list) and got_codes != wcodes:
                ctx.property_failure(dict(fcase, documented_codes=wcodes), "document field error codes differ from the first failing member's")
        # (e) nothing names a field that is neither in the schema on disk nor in the block (an entry left over from another schema)
        legit = {"%s.%s" % (name, f) for f, _ in fields} | {"%s.%s" % (name, k) for k in present}
        stray = sorted({p for _, p in verrs if isinstance(p, str) and p.startswith(name + ".") and p not in legit})
        if stray:
            ctx.property_failure(dict(case, stray=stray, validation_errors=verrs),
                                 "validation_errors name fields that are neither in the schema on disk nor in the document")

    # ---- one observation ---------------------------------------------------------------------------------------------------
    def judge(self, name, policy, fields, assigns, schema_file, outdir, surfaces=("validate",), extra=None, is_witness=False):
        """-> {surface: canonical result} (for history-independence comparisons)"""
        ctx = self.ctx
        itext = instance_text(name, assigns)
        case = {"schema": schema_text(name, policy, fields), "instance": itext, "schema_name": name}
        if extra:
            case.update(extra)
        out = {}
        sd = self.read_schema(schema_file, fields, case)
        if sd is None:
            return out
        doc = present = None
        for surface in surfaces:
            scase = dict(case, surface=surface)
            r = self.call(surface, name, itext, outdir)
            self.n_docs += 1
            ctx.count()
            ctx.hist("doc_surface", surface)
            if r[0] == "raised":
                ctx.property_failure(scase, "octave_%s raised %s" % (surface, r[1]))
                continue
            if r[0] == "cli":
                out[surface] = [r[1], r[2]]
                ctx.hist("doc_outcome", "cli:%s" % r[2])
                continue
            if r[0] == "not-parsed":
                ctx.hist("doc_outcome", "not-parsed")
                out[surface] = "not-parsed"
                continue
            _, verrs, warns, status = r
            out[surface] = [srt(verrs), srt(warns), status]
            ctx.hist("doc_outcome", status)
            if doc is None:
                doc, present, why = self.read_instance(name, itext, assigns)
                if present is None:
                    ctx.hist("doc_outcome", why)
                    return out
            self.ref_clauses(surface, scase, name, policy, fields, sd, present, verrs, warns, status, is_witness=is_witness)
            # (c) the whole section against Validator.validate with the schema ON DISK, and against the model
            direct = self.Validator(schema=None).validate(doc, strict=False, section_schemas={sd.name: sd})
            impl_set = sorted((e.code, e.field_path, e.severity) for e in direct)
            if srt(verrs) != srt((c, p) for c, p, _ in impl_set):
                ctx.correspondence_failure(dict(scase, tool=verrs, validator=impl_set),
                                           "octave_%s validation_errors differ from Validator.validate with the schema on disk "
                                           "(model: the tool copies every entry)" % surface)
            if self.have_model and surface == surfaces[0]:
                try:
                    parts = ["doc", enc_str(name), enc_str(sd.policy.unknown_fields if sd.policy else "REJECT"), str(len(sd.fields))]
                    for fname, fd in sd.fields.items():
                        cons = fd.pattern.constraints.constraints if fd.pattern and fd.pattern.constraints else None
                        if cons is None:
                            parts += [enc_str(fname), "0"]
                        else:
                            parts += [enc_str(fname), "1", enc_chain(cons, present.get(fname))]
                    parts.append(str(len(present)))
                    for k, v in present.items():
                        parts += [enc_str(k), oracle_of(v), enc_val(v)]
                    self.lines.append(" ".join(parts))
                    # the model is compared with what the SURFACE reported (codes + paths; severities from the direct run)
                    self.metas.append((scase, impl_set, srt(verrs)))
                except OutOfModel:
                    ctx.hist("doc_outcome", "out-of-model")
        return out

    def flush_model(self):
        ctx = self.ctx
        if not (self.have_model and self.lines):
            return
        res = run_driver("cst", self.lines)
        for (case, impl_set, verrs), r in zip(self.metas, res):
            ctx.count()
            if r.startswith("!"):
                ctx.correspondence_failure(dict(case, model=r), "model driver error (document)")
                continue
            got = [] if r == "NONE" else sorted(tuple(dec_str(x) for x in e.split(":")) for e in r.split(" "))
            if got != [tuple(x) for x in impl_set]:
                ctx.correspondence_failure(dict(case, impl=impl_set, model=got), "Validator._validate_section differs from the model")
            if srt((c, p) for c, p, _ in got) != verrs:
                ctx.correspondence_failure(dict(case, surface_errors=verrs, model=got),
                                           "the surface's validation_errors differ from the model run on the schema on disk")
        self.lines, self.metas = [], []


def gen_schema_fields(rng, by_kind, nf=None):
    nf = nf or rng.randint(1, 4)
    fields = []
    for fi in range(nf):
        ln = rng.choice([1, 2, 2, 3, 4])
        ch = [rng.choice(by_kind[rng.choice(KINDS13)]) for _ in range(ln)]
        if fi == 0 and "REQ" not in [kind_of(c) for c in ch]:
            ch = [("REQ",)] + [c for c in ch if kind_of(c) != "OPT"][:3]
        fields.append(("F%d" % fi, ch))
    return fields


def gen_assigns(rng, fields, unknown_names=("X0", "X1")):
    assigns = []
    for fname, ch in fields:
        r = rng.random()
        if r < 0.3:
            continue                                   # omitted
        good = [x for x in DOC_VALUES if ref_chain(ch, x)[0] is True]
        assigns.append((fname, rng.choice(good) if good and r < 0.75 else rng.choice(DOC_VALUES)))
        if r > 0.9:
            assigns.append((fname, rng.choice(DOC_VALUES)))   # duplicated
    for x in range(rng.choice([0, 0, 1, 2])):
        assigns.append((unknown_names[x], rng.choice(DOC_VALUES)))     # unknown
    if rng.random() < 0.2 and assigns:
        assigns.append(assigns[0])
    rng.shuffle(assigns)
    return assigns


def doc_by_kind():
    by_kind = {}
    for a in DOC_ATOMS:
        by_kind.setdefault(kind_of(a), []).append(a)
    return by_kind


def run_documents(ctx, runner):
    """every schema under its own fresh name (no history): generated schemas x instance blocks"""
    rng = ctx.rng
    tmp = tempfile.mkdtemp(prefix="c08docs")
    old = os.getcwd()
    by_kind = doc_by_kind()
    n0 = runner.n_docs
    try:
        os.makedirs(os.path.join(tmp, "specs", "schemas"))
        os.chdir(tmp)
        for si in range(ctx.scale(70, 900)):
            name = "VERIFC08_%d" % si
            policy = POLICIES[si % len(POLICIES)]
            fields = gen_schema_fields(rng, by_kind)
            if si == 0:   # the committed witness of C08-warn-invalid
                policy, fields = "WARN", [("NAME", [("REQ",), ("TYPE", "STRING")])]
            if si == 1:   # ENUM exact-match-over-prefix, at document level
                policy, fields = "REJECT", ENUM_DOC_FIELDS
            sfile = os.path.join(tmp, "specs", "schemas", name.lower() + ".oct.md")
            with open(sfile, "w") as f:
                f.write(schema_text(name, policy, fields))
            ctx.hist("policy", str(policy))
            surfaces = ("validate", "write") if si % 4 == 1 else ("validate",)
            for ii in range(ctx.scale(8, 10)):
                assigns = gen_assigns(rng, fields)
                if si == 0 and ii == 0:
                    assigns = [("NAME", "bob"), ("EXTRA", 1)]
                if si == 1:
                    assigns = list(ENUM_DOC_INSTANCES[ii % len(ENUM_DOC_INSTANCES)])
                ctx.nontrivial(("doc", name, instance_text(name, assigns)))
                runner.judge(name, policy, fields, assigns, sfile, os.path.join(tmp, "out"), surfaces, is_witness=(si == 0 and ii == 0))
        if "C08-warn-invalid" in ctx.known:
            ctx.finding_witness("C08-warn-invalid", runner.witness_done)
        runner.flush_model()
    finally:
        os.chdir(old)
        shutil.rmtree(tmp, ignore_errors=True)
    ctx.extra["document_cases"] = runner.n_docs - n0
    ctx.sample({"schema_policy": "WARN", "instance_adds": "EXTRA", "observed": "validation_status INVALID, validation_errors [W001 EXTRA]"})


# ---- history stream: one schema NAME bound to a sequence of different schemas ------------------------------------------------
def targeted_history(rng, by_kind):
    """versions of one schema that differ exactly where a stale answer shows: a field becomes required, a field leaves the
    schema (unknown under REJECT), RANGE bounds move, ENUM members change, the UNKNOWN_FIELDS policy changes; with documents
    chosen so that every change flips at least one verdict."""
    v1 = ("REJECT", [("F0", [("REQ",), ("TYPE", "STRING")]), ("F1", [("OPT",), ("RANGE", 1, 10)]), ("F2", [("ENUM", ["A", "B"])])])
    v2 = ("REJECT", [("F0", [("REQ",), ("TYPE", "STRING")]), ("F1", [("REQ",), ("RANGE", -5, 5)]), ("F3", [("REQ",), ("TYPE", "NUMBER")])])
    v3 = ("WARN", [("F0", [("OPT",), ("ENUM", ["ACT", "ACTIVE", "DONE"])]), ("F1", [("RANGE", 0, 0)])])
    v4 = ("IGNORE", [("F1", [("REQ",), ("RANGE", 0.5, 2.5)]), ("F2", [("REQ",), ("ENUM", ["X"])])])
    versions = [v1, v2, v3, v4]
    rng.shuffle(versions)
    versions.append(versions[0])          # back to the first schema text: same answers as at step 1 are due
    docs = [[("F0", "abc"), ("F1", 5), ("F2", "A")], [("F0", "abc"), ("F1", -3)], [("F0", "ACT"), ("F1", 0), ("F3", 1)],
            [("F0", "abc")], [("F1", 1), ("F2", "X")], [("F0", "abc"), ("F1", 11), ("F2", "B"), ("F3", "x")], [("F2", "A"), ("X0", 1)],
            [("F0", 5), ("F1", 2.5), ("F2", "X"), ("F3", 2.5)]]
    return versions, docs


def random_history(rng, by_kind):
    n = rng.choice([2, 3, 3, 4])
    versions = []
    base = gen_schema_fields(rng, by_kind, nf=rng.randint(2, 4))
    for k in range(n):
        if k == 0 or rng.random() < 0.3:
            fields = base if k == 0 else gen_schema_fields(rng, by_kind, nf=rng.randint(1, 4))
        else:   # a local edit of the previous version: drop a field, add one, re-draw one chain, toggle REQ/OPT
            fields = [list(x) for x in versions[-1][1]]
            fields = [(f, list(ch)) for f, ch in fields]
            op = rng.choice(["drop", "add", "redraw", "toggle"])
            if op == "drop" and len(fields) > 1:
                fields.pop(rng.randrange(len(fields)))
            elif op == "add":
                used = {f for f, _ in fields}
                free = [f for f in ("F0", "F1", "F2", "F3", "F4") if f not in used]
                if free:
                    fields.append((free[0], [("REQ",)] + gen_schema_fields(rng, by_kind, nf=1)[0][1][:2]))
            elif op == "redraw":
                i = rng.randrange(len(fields))
                fields[i] = (fields[i][0], gen_schema_fields(rng, by_kind, nf=2)[1][1])
            else:
                i = rng.randrange(len(fields))
                ch = [c for c in fields[i][1] if kind_of(c) not in ("REQ", "OPT")]
                had_req = any(kind_of(c) == "REQ" for c in fields[i][1])
                fields[i] = (fields[i][0], ([("OPT",)] if had_req else [("REQ",)]) + ch[:3])
            fields = [(f, [c for j, c in enumerate(ch) if not (kind_of(c) in ("REQ", "OPT") and kind_of(c) in [kind_of(d) for d in ch[:j]])])
                      for f, ch in fields]
        versions.append((rng.choice(POLICIES), fields))
    if rng.random() < 0.5:
        versions.append(versions[0])
    docs = []
    allf = []
    for _, fields in versions:
        for f, ch in fields:
            allf.append((f, ch))
    for _ in range(rng.choice([4, 5, 6])):
        pick = {}
        for f, ch in allf:        # one chain per field name, drawn among the versions: good for one version, maybe bad for another
            if f not in pick or rng.random() < 0.5:
                pick[f] = ch
        docs.append(gen_assigns(rng, sorted(pick.items()), unknown_names=("F4", "X0")))
    return versions, docs


BIND_MODES = ["in-place", "new-cwd", "in-place", "new-cwd", "unlink-recreate", "other-filename"]


def bind_schema(root, step, mode, name, text, state):
    """Put `text` on the schema search path under `name`; -> (cwd to use, schema file).  in-place: overwrite the file of the
    previous step; new-cwd: a fresh directory with its own specs/schemas/<name> file (the process chdirs there);
    unlink-recreate: remove the old file, write a new one; other-filename: <NAME>.oct.md instead of <name>.oct.md (both are
    documented spellings; the old file is removed)."""
    if step == 0 or mode == "new-cwd":
        cwd = os.path.join(root, "cwd%d" % step)
        os.makedirs(os.path.join(cwd, "specs", "schemas"))
        sfile = os.path.join(cwd, "specs", "schemas", name.lower() + ".oct.md")
    else:
        cwd = state["cwd"]
        sfile = state["sfile"]
        if mode in ("unlink-recreate", "other-filename"):
            os.unlink(sfile)
            sdir = os.path.dirname(sfile)
            sfile = os.path.join(sdir, (name if mode == "other-filename" and sfile.endswith(name.lower() + ".oct.md") else name.lower()) + ".oct.md")
    with open(sfile, "w") as f:
        f.write(text)
    state["cwd"], state["sfile"] = cwd, sfile
    return cwd, sfile


def run_schema_history(ctx, runner):
    """The same schema NAME is bound to a sequence of different generated schemas (file rewritten in place / a fresh cwd with
    its own specs/schemas file / unlink+recreate / the other documented filename) inside this one process, and the same
    documents are validated after every rebinding on every surface.  Per step and document: the full 3-way judgement of
    DocRunner.judge for the schema CURRENTLY on disk; and when a step re-binds a schema text seen earlier in the stream, the
    surfaces must answer exactly as they did then."""
    rng = ctx.rng
    by_kind = doc_by_kind()
    root = tempfile.mkdtemp(prefix="c08hist")
    old = os.getcwd()
    n_streams = ctx.scale(10, 120)
    n_steps = n_obs = 0
    n0 = runner.n_docs
    try:
        for hi in range(n_streams):
            name = "VERIFC08_H%d" % hi
            versions, docs = targeted_history(rng, by_kind) if hi % 2 == 0 else random_history(rng, by_kind)
            sroot = os.path.join(root, "h%d" % hi)
            os.makedirs(sroot)
            state, history, seen = {}, [], {}
            for step, (policy, fields) in enumerate(versions):
                mode = "first" if step == 0 else BIND_MODES[(hi + step) % len(BIND_MODES)]
                text = schema_text(name, policy, fields)
                cwd, sfile = bind_schema(sroot, step, mode, name, text, state)
                os.chdir(cwd)
                history.append({"step": step, "bind": mode, "schema": text})
                ctx.hist("history_bind", mode)
                n_steps += 1
                results = []
                for di, assigns in enumerate(docs):
                    extra = {"history": list(history), "history_doc": di,
                             "note": "same schema name re-bound; every earlier step validated the same documents in this process"}
                    r = runner.judge(name, policy, fields, assigns, sfile, os.path.join(sroot, "out"), ("validate", "write", "cli"), extra=extra)
                    results.append(r)
                    n_obs += 1
                    ctx.nontrivial(("hist", text, instance_text(name, assigns)))
                if text in seen:
                    ctx.hist("history_bind", "rebinds-earlier-text")
                    for di, (r0, r1) in enumerate(zip(seen[text][1], results)):
                        if r0 != r1:
                            ctx.property_failure({"schema_name": name, "history": list(history), "instance": instance_text(name, docs[di]),
                                                  "first_time": r0, "step_%d" % seen[text][0]: "same schema text", "now": r1},
                                                 "the same schema text bound to the same name gives different verdicts for the same document later in the process")
                else:
                    seen[text] = (step, results)
            os.chdir(old)
        runner.flush_model()
    finally:
        os.chdir(old)
        shutil.rmtree(root, ignore_errors=True)
    ctx.extra["history_streams"] = n_streams
    ctx.extra["history_steps"] = n_steps
    ctx.extra["history_step_documents"] = n_obs
    ctx.extra["history_surface_calls"] = runner.n_docs - n0
    ctx.sample({"history": "VERIFC08_H0: v1 (F1 OPT RANGE[1,10]) -> rewritten in place as v2 (F1 REQ RANGE[-5,5], F3 REQ) -> ...",
                "document": "F0::\"abc\" F1::-3", "documented": "step 1: E011 on F1; step 2: E003 on F3 only"})


# =====================================================================================================
# corpus + entry point
# =====================================================================================================
def corpus_value(rec):
    """value of a corpus / witness record: "value_expr" (see value_of_expr: nan, 10**400, 2**53+1, ...) or literal "value" """
    return value_of_expr(rec["value_expr"]) if "value_expr" in rec else rec.get("value")


def run_corpus(ctx):
    """finding witnesses (known_findings) and minimised past failures / witnesses of REPAIRED findings: replayed first, on
    the implementation.  A corpus case without a "finding" key must pass (verdict and codes as documented) or the run
    reports a property failure -- this is how a repaired defect that returns becomes a VIOLATION."""
    from octave_mcp.core.constraints import ConstraintChain
    cdir = VERIF / "corpus" / "C08"
    for fid, f in ctx.known.items():
        w = f["witness"]
        if "chain" not in w:
            continue
        v = corpus_value(w)
        ctx.count()
        try:
            r = ConstraintChain.parse(w["chain"]).evaluate(v)
            got = bool(r.valid)
        except Exception as e:  # noqa
            got = "raises " + type(e).__name__
        ctx.finding_witness(fid, got != w["documented_valid"])
    n = 0
    if cdir.exists():
        for p in sorted(cdir.glob("*.json")):
            rec = json.loads(p.read_text())
            if rec.get("kind") != "chain":
                continue
            v = corpus_value(rec)
            ctx.count()
            n += 1
            impl = impl_eval(ConstraintChain.parse(rec["chain"]), v)
            got = [impl[0], impl[1]] if impl[0] != "EXC" else ["raises " + impl[1], []]
            ctx.hist("corpus", "pass" if got == rec["expect"] else "fail")
            fid = rec.get("finding")
            if got != rec["expect"] and not (fid and fid in ctx.known):
                ctx.property_failure({"corpus": p.name, "chain": rec["chain"], "value": vrepr(v), "value_kind": vkind(v),
                                      "impl": list(impl), "documented": rec["expect"], "fixed_by": rec.get("fixed_by")},
                                     "corpus case %s: %s on %s gives %s, documented %s" % (p.name, rec["chain"], vrepr(v), got, rec["expect"]))
    ctx.extra["corpus_cases"] = n


def replay_history(c, what):
    """re-run a recorded schema history in THIS process: bind each recorded schema text to the name in the recorded way,
    validate the recorded instance on the recorded surface after every step; 1 = the last answer is the recorded one."""
    class _Ctx:   # DocRunner only needs a sink here
        def __getattr__(self, _):
            return lambda *a, **k: None
    runner = DocRunner(_Ctx(), False)
    name, surface = c["schema_name"], c.get("surface", "validate")
    root = tempfile.mkdtemp(prefix="c08replay")
    old = os.getcwd()
    last = None
    try:
        state = {}
        for h in c["history"]:
            cwd, sfile = bind_schema(root, h["step"], h["bind"], name, h["schema"], state)
            os.chdir(cwd)
            last = runner.call(surface, name, c["instance"], os.path.join(root, "out"))
            print("step %d (%s): octave_%s -> %s" % (h["step"], h["bind"], surface, list(last[1:]) if last[0] == "ok" else list(last)))
    finally:
        os.chdir(old)
        shutil.rmtree(root, ignore_errors=True)
    rec = c.get("validation_errors", c.get("tool"))
    print("recorded: %s   (%s)" % (rec, what))
    if rec is None or last is None or last[0] != "ok":
        return 2
    return 1 if srt(last[1]) == srt(rec) else 0


def replay(ctx, case):
    """./check C08 --replay <file>: re-run a recorded failing chain case on the implementation; 1 = still as recorded."""
    from octave_mcp.core.constraints import ConstraintChain
    c = case.get("case", case)
    if "history" in c and "instance" in c:
        return replay_history(c, case.get("what"))
    if "chain" not in c:
        print("replay: document cases are re-run by the generator (seed %s); recorded: %s" % (case.get("seed"), case.get("what")))
        return 2
    try:
        v = value_of_expr(c["value"])
    except Exception:  # noqa
        print("replay: value %r is not a literal" % c["value"])
        return 2
    got = impl_eval(ConstraintChain.parse(c["chain"]), v)
    print("chain=%s value=%s -> %s   (recorded %s; %s)" % (c["chain"], vrepr(v), list(got), c.get("impl"), case.get("what")))
    return 1 if list(got) == c.get("impl") else 0


def run(ctx):
    have_model = bool(ctx.build_status["drivers"].get("cst", False))
    ctx.extra["rule"] = (
        "chains: every single atom and (quick: 12%% sample / thorough: all) ordered pairs of a %d-atom pool over the 13 kinds "
        "(+TYPE[LITERAL], LANG) with pooled parameters, plus random chains of length 2-4; each crossed with %d boundary values "
        "(None, bools, ints incl. bounds/2^53-1/2^53/2^53+1/-(2^53)-1/+-10^400, floats incl. -0.0/2^53/1e308/+-inf/nan, strings "
        "incl. empty/prefixes/numeric/nan/NaN/+-inf/1e999/dates/datetimes/NUL/trailing newline, lists, dicts, literal zones); "
        "RANGE bounds incl. 2^53 as int and as float and +-inf (1e400); ints of any size, nan and inf are IN the model. Each case: IMPL vs extracted model (valid+codes), IMPL vs "
        "reference evaluator, conjunction/fail-fast/order on IMPL. documents: generated schemas (1-4 fields, chains <=4, 5 policy "
        "spellings) x 8-10 instance blocks that omit/add/duplicate/mistype fields through octave_validate with a temp schema "
        "directory. distinct non-trivial = distinct (chain text, value) pairs and distinct (schema, instance) pairs." % (len(ATOMS), len(make_values())))
    run_corpus(ctx)
    values, _ = run_chains(ctx, have_model)
    run_enum_focus(ctx, have_model)
    run_side_checks(ctx, have_model, values)
    runner = DocRunner(ctx, have_model)
    run_documents(ctx, runner)
    run_schema_history(ctx, runner)
    ctx.assumptions += [
        "str(v) of lists/dicts/literal zones, repr(float), float(str), re.match verdicts and datetime.fromisoformat verdicts are "
        "oracles computed by CPython 3.12 and passed with each case (Section-style inputs of the model, never axioms)",
        "eval_DATE_spec assumes fromisoformat = Gregorian check on YYYY-MM-DD shaped text; the hypothesis is tested on every generated date",
        "the parameters of each parsed constraint are read from the real parsed objects (_parse_atom is not modelled); only the "
        "dispatch/slicing of ConstraintChain.parse is compared with the model",
        "document level: field names of a schema are distinct, targets are the builtin SELF; the front end (lexer/parser/schema "
        "extractor) is used as is and cases whose block is not read back with the generated keys are skipped and counted",
    ]
    ctx.trusted_base += ["harness/props/c08.py reference evaluator (written from the property text) and the WARN-policy finding predicate"]
