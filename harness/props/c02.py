"""C02 -- canonicalisation preserves document content exactly (I1 fidelity)."""
from __future__ import annotations

import json
import random

from lib import corefrag, astcodec, doccases, docprops, parsecorr, render

LEVEL = "proof"
DRIVERS = ["syn"]
PFX = "C02-"


def content_after_read(text, lenient=False):
    from octave_mcp.core.lexer import LexerError
    from octave_mcp.core.parser import ParserError, parse, parse_with_warnings
    try:
        doc = parse_with_warnings(text)[0] if lenient else parse(text)
    except (LexerError, ParserError) as e:
        return None, f"{type(e).__name__}:{getattr(e, 'error_code', '')}"
    return astcodec.doc_to_neutral(doc), None


def check_doc(d):
    """None if reading emit(d) yields exactly d's content, else a description."""
    t = doccases.impl_emit(d)
    got, err = content_after_read(t)
    if err:
        return f"canonical text rejected ({err})", t
    df = docprops.first_diff(docprops.expected(d), got)
    if df:
        return f"content differs at {df[0]}: expected {df[1]!r}, read {df[2]!r}"[:300], t
    return None, t


def _tuplify_doc(d):
    """JSON round trip turns the neutral tuples into lists; restore tuples recursively"""
    def tv(v):
        k = v[0]
        if k == "list":
            return ("list", [tv(x) for x in v[1]])
        if k == "map":
            return ("map", [(kk, tv(x)) for kk, x in v[1]])
        return tuple(v)
    def tn(n):
        k = n[0]
        if k == "a":
            return ("a", n[1], tv(n[2]), list(n[3]), n[4])
        if k == "b":
            return ("b", n[1], n[2], [tn(c) for c in n[3]], list(n[4]))
        if k == "s":
            return ("s", n[1], n[2], n[3], [tn(c) for c in n[4]], list(n[5]))
        return ("c", n[1])
    out = dict(d)
    out["meta"] = [(k, ("d", [(k2, tv(v2)) for k2, v2 in mv[1]]) if mv[0] == "d" else ("v", tv(mv[1]))) for k, mv in d["meta"]]
    out["sections"] = [tn(n) for n in d["sections"]]
    return out


def run(ctx):
    hm = doccases.have_model(ctx)
    # core fragment of Rt/TokRound.v (theorem parse_core_doc): deep nesting, scalars of every kind
    corefrag.run(ctx, ctx.scale(300, 6000), hm)
    corefrag.run2(ctx, ctx.scale(300, 6000), hm)
    corefrag.run3(ctx, ctx.scale(300, 6000), hm)
    corefrag.run4(ctx, ctx.scale(300, 6000), hm)
    corefrag.runt(ctx, ctx.scale(200, 4000), hm)
    n = ctx.scale(1500, 30000)
    ctx.extra["rule"] = ("documents drawn from an explicit content model (envelope, sentinel, frontmatter, META with one nested "
                         "level, separator, assignments, blocks with targets, section markers, lists, inline maps, zones, "
                         "holographic values, leading/trailing/orphan comments; depth<=4, <=7 siblings) rendered canonically "
                         "(emit) and, for documents that falsify no wf clause, in 3 (thorough 8) random lenient spellings; the "
                         "expected content is the generator's document. non-trivial = distinct document with >=2 nodes.")
    # ---- regressions of repaired defects (corpus/C02): content must be preserved ----
    from pathlib import Path as _Path
    for cf in sorted((_Path(__file__).resolve().parents[2] / "corpus" / "C02").glob("*.json")):
        cd = json.loads(cf.read_text())["doc"]
        cd["sections"] = [tuple(n) if isinstance(n, list) else n for n in cd["sections"]]
        what, t = check_doc(astcodec.neutral_from_json(cd) if hasattr(astcodec, "neutral_from_json") else _tuplify_doc(cd))
        ctx.count()
        if what is not None:
            ctx.property_failure({"doc": cd, "text": t, "corpus": cf.name}, what + f" (corpus {cf.name})")
    # ---- known finding witnesses ----
    for fid, f in ctx.known.items():
        w = f["witness"]
        if "doc" in w:
            what, _ = check_doc(w["doc"])
            ctx.finding_witness(fid, what is not None)
    cases = doccases.gen_docs(ctx, n)
    docs = [d for d, _ in cases]
    texts = []
    # ---- emit correspondence ----
    if hm:
        m_emit = doccases.model_emit(docs)
    for i, (d, cl) in enumerate(cases):
        what, t = check_doc(d)
        texts.append(t)
        ctx.count()
        if len(d["sections"]) + len(d["meta"]) >= 2:
            ctx.nontrivial(json.dumps(d, sort_keys=True, ensure_ascii=True))
        ctx.hist("clauses", ",".join(str(c) for c in sorted(set(cl))) or "wf")
        ctx.hist("top_level_nodes", len(d["sections"]))
        if hm and m_emit[i] != t:
            ctx.correspondence_failure({"doc": d, "impl": t, "model": m_emit[i]}, "emit(doc) differs from the emitter model")
        if what is None:
            continue
        fids = sorted({doccases.CLAUSE_FINDING[c] for c in cl if c in doccases.CLAUSE_FINDING} | ({"nfc-after-escape"} if 16 in cl else set()))
        if fids:
            for f in fids:
                ctx.property_failure({"doc": d, "text": t}, what, finding=PFX + f)
        elif set(cl) & doccases.MODEL_SCOPE:
            ctx.hist("out_of_model", "holo-in-list")
        else:
            def fails(x):
                if not docprops.in_content_model(x):
                    return False
                if hm and (doccases.model_clauses([x])[0] or doccases.nfc_escape_clause_doc(x)):
                    return False
                return check_doc(x)[0] is not None
            small = docprops.shrink(d, fails, budget=300) if hm else d
            w2, t2 = check_doc(small)
            ctx.property_failure({"doc": small, "text": t2, "original_doc": d}, w2 or what)
    ctx.sample({"doc": docs[0], "canonical": texts[0]})
    # ---- parser correspondence on canonical texts (strict reader) ----
    if hm:
        bad, n_in, n_out, _ = parsecorr.compare(texts, strict=True)
        ctx.count(n_in)
        ctx.extra["parser_correspondence_texts"] = n_in
        ctx.extra["out_of_model_texts"] = n_out
        for t, i, m in bad[:10]:
            ctx.correspondence_failure({"text": t, "impl": i[:500], "model": m[:500]}, "parse(text) differs from the parser model")
    # ---- lenient spellings of wf documents ----
    reps = ctx.scale(3, 8)
    lenient_texts = []
    for d, cl in cases:
        if cl:
            continue
        exp = docprops.expected(d)
        for _ in range(reps):
            t, rc, sites = render.render(d, random.Random(ctx.rng.random()))
            ctx.count()
            ctx.hist("lenient_sites", min(sites // 10 * 10, 200))
            got, err = content_after_read(t, lenient=True)
            if err or docprops.first_diff(exp, got):
                what = f"lenient spelling rejected ({err})" if err else "content differs at %s" % (docprops.first_diff(exp, got)[0],)
                ctx.property_failure({"doc": d, "text": t}, what)
            lenient_texts.append(t)
    if lenient_texts:
        ctx.sample({"lenient_spelling": lenient_texts[0]})
    if hm and lenient_texts:
        sub = lenient_texts[:: max(1, len(lenient_texts) // ctx.scale(1500, 20000))]
        bad, n_in, n_out, _ = parsecorr.compare(sub, strict=False, with_warnings=True)
        ctx.count(n_in)
        for t, i, m in bad[:10]:
            ctx.correspondence_failure({"text": t, "impl": i[:500], "model": m[:500]}, "parse_with_warnings(text) differs from the parser model")
    ctx.assumptions += [
        "number canonical text str(int)/repr(float) and parse_holographic_pattern are oracles supplied to the parser model",
        "comments are compared after Python str.strip (the lexer strips them); strings after NFC; zones verbatim",
    ]
