"""C07 -- every lenient rewrite has a receipt; canonical input has none (I4)."""
from __future__ import annotations

import asyncio
import random

from lib import corefrag, astcodec, doccases, docprops, parsecorr, render

LEVEL = "proof"
DRIVERS = ["syn"]
PFX = "C07-"
REWRITE_SUBTYPES = {"multi_word_coalesce", "source_compile_value", "unclosed_list", "bare_line_dropped"}


def rec_of(w):
    """(kind, original, replacement, line, column) of a reader receipt that denotes a rewrite, else None"""
    if w.get("type") == "normalization":
        return ("norm", w.get("original"), str(w.get("normalized")), w.get("line"), w.get("column"))
    if w.get("type") == "lenient_parse" and w.get("subtype") == "multi_word_coalesce":
        return ("multi", w.get("result"), w.get("result"), w.get("line"), w.get("column"))
    if w.get("type") == "lenient_parse" and w.get("subtype") in REWRITE_SUBTYPES:
        return ("other:" + w.get("subtype"), str(w.get("original")), str(w.get("result")), w.get("line"), w.get("column"))
    return None


def corr_of(c):
    """the same tuple from an octave_write correction entry"""
    code = c.get("code", "")
    if code == "W002":
        return ("norm", c.get("before"), str(c.get("after")), c.get("line"), c.get("column"))
    if code == "W_LENIENT_MULTI_WORD_COALESCE":
        return ("multi", c.get("after"), c.get("after"), c.get("line"), c.get("column"))
    if code.startswith("W_LENIENT_") and code[len("W_LENIENT_"):].lower() in REWRITE_SUBTYPES:
        return ("other:" + code[len("W_LENIENT_"):].lower(), str(c.get("before")), str(c.get("after")), c.get("line"), c.get("column"))
    return None


BR_NAMES = ["ATHENA", "LOGOS", "A", "agent_1", "x.y"]
BR_QUALS = ["wisdom", "q", "a-b", "v1"]


def brace_stream(ctx):
    """brace-for-angle repairs of octave_write(lenient=true): every unprotected NAME{q} site is rewritten to NAME<q> and must
    yield exactly one W_REPAIR_CANDIDATE receipt (before/after), also when the same spelling occurs several times; sites
    inside quoted strings, comments and literal zones are not rewritten and yield none."""
    from octave_mcp.mcp.write import WriteTool
    loop = asyncio.new_event_loop()
    try:
        for _ in range(ctx.scale(120, 2500)):
            rng = random.Random(ctx.rng.random())
            pool = [f"{rng.choice(BR_NAMES)}{{{rng.choice(BR_QUALS)}}}" for _ in range(rng.randint(1, 3))]
            lines, want = ["===D==="], []
            for i in range(rng.randint(1, 6)):
                b = rng.choice(pool)
                kind = rng.random()
                if kind < 0.6:
                    lines.append(f"K{i}::{b}")
                    want.append((b, b.replace("{", "<").replace("}", ">")))
                elif kind < 0.7:
                    lines.append(f'K{i}::"see {b} here"')
                elif kind < 0.8:
                    lines.append(f"K{i}::1 // about {b}")
                elif kind < 0.9:
                    lines += [f"K{i}::", "```", f"raw {b}", "```"]
                else:
                    lines.append(f"K{i}::[{b},x]")
                    want.append((b, b.replace("{", "<").replace("}", ">")))
            t = "\n".join(lines + ["===END===", ""])
            w = loop.run_until_complete(WriteTool().execute(target_path="/nonexistent-c07/b.oct.md", content=t,
                                                            corrections_only=True, lenient=True))
            ctx.count()
            ctx.hist("brace_sites", len(want))
            if len(want) != len(set(want)):
                ctx.nontrivial(("brace-repeat", t))
            if w.get("status") != "success":
                ctx.hist("surface_rejected_input", "brace stream")
                continue
            got = sorted((c.get("before"), c.get("after")) for c in w.get("corrections", []) if c.get("code") == "W_REPAIR_CANDIDATE")
            if got != sorted(want):
                ctx.property_failure({"text": t, "surface": "octave_write(lenient).corrections", "expected": sorted(want), "reported": got},
                                     "octave_write(lenient): W_REPAIR_CANDIDATE receipts differ from the brace-for-angle rewrites in the input")
    finally:
        loop.close()



MW_WORDS = ["alpha", "beta", "render", "title", "as", "x1", "a_b", "12", "3.5", '"<em>"', '"two words"', '"x>"', '"b<c>"', '"q"', "Done"]
OPS = [("->", "\u2192"), ("+", "\u2295"), ("~", "\u29fa"), ("|", "\u2228"), ("&", "\u2227"), ("<->", "\u21cc")]


class _Pos:
    """text builder that tracks the 1-based (line, column) of the next character"""
    def __init__(self):
        self.parts, self.line, self.col = [], 1, 1

    def w(self, text):
        self.parts.append(text)
        for ch in text:
            if ch == "\n":
                self.line += 1
                self.col = 1
            else:
                self.col += 1

    def text(self):
        return "".join(self.parts)


def alias_adjacency_stream(ctx, surfaces):
    """every ASCII operator alias between every pair of neighbour classes (letter, digit, quote, bracket, blank): the
    lexer receipts for the line must be exactly one normalization record per alias occurrence, at its position, on all
    four observation points -- whatever the parser then makes of the tokens (only 'norm' receipts are compared here)"""
    aliases = [("->", "\u2192"), ("+", "\u2295"), ("~", "\u29fa"), ("<->", "\u21cc"), ("|", "\u2228"), ("&", "\u2227")]
    lefts = ["a", "A9", "x_y"]
    rights = ["b", "3", "2x", "B_1", "42"]
    n = 0
    for al, uni in aliases:
        for l in lefts:
            for r in rights:
                for sep in ("", " "):
                    if al == "+" and sep == "" and l[-1].isdigit() and False:
                        continue
                    text = f"===D===\nK::{l}{sep}{al}{sep}{r}\n===END===\n"
                    col = 4 + len(l) + len(sep)
                    want = [("norm", al, uni, 2, col)]
                    got = surfaces(text)
                    n += 1
                    ctx.count()
                    ctx.nontrivial(("alias-adj", text))
                    for name, recs in got.items():
                        if isinstance(recs, str):
                            continue            # the text is refused on this surface: nothing to report there
                        norm = sorted(x for x in recs if x[0] == "norm")
                        if norm != want:
                            ctx.property_failure({"text": text, "surface": name, "expected": [list(x) for x in want], "reported": [list(x) for x in norm],
                                                  "stream": "alias-adjacency"},
                                                 f"{name}: the alias {al!r} next to {r!r} is not reported exactly once as a normalization receipt")
    ctx.extra["alias_adjacency_cases"] = n


def free_multiword_stream(ctx, surfaces):
    """Multi-word bare values built from identifiers, numbers and QUOTED words (also quoted words that look like
    annotations), and list items that follow a triple-quoted string spanning lines: the expected receipts (kind, text,
    line, column) are computed from the text alone."""
    for _ in range(ctx.scale(150, 3000)):
        rng = random.Random(ctx.rng.random())
        o = _Pos()
        want = []
        o.w("===D===\n")
        if rng.random() < 0.6:
            words = [rng.choice(MW_WORDS) for _ in range(rng.randint(2, 5))]
            if all(w[0].isdigit() for w in words):
                words[-1] = "alpha"
            key = rng.choice(["K", "HINT", "NOTE_1"])
            o.w(key + "::")
            want.append(("multi", " ".join(words), " ".join(words), o.line, o.col))
            o.w(" ".join(words) + "\n")
        else:
            o.w("ITEMS::[")
            body = rng.choice(["first line\nsecond line", "a\n\nb", "one\ntwo\nthree", "x\n  indented tail"])
            want.append(("norm", '"""', body, o.line, o.col))
            o.w('"""' + body + '"""')
            for _k in range(rng.randint(1, 3)):
                o.w(", " if rng.random() < 0.7 else ",")
                kind = rng.random()
                if kind < 0.45:
                    a, u = rng.choice(OPS)
                    o.w("p")
                    want.append(("norm", a, u, o.line, o.col))
                    o.w(a + "q")
                elif kind < 0.8:
                    ws = [rng.choice(["hello", "world", "again", "x1"]) for _ in range(rng.randint(2, 3))]
                    want.append(("multi", " ".join(ws), " ".join(ws), o.line, o.col))
                    o.w(" ".join(ws))
                else:
                    o.w("plain")
            o.w("]\n")
        o.w("===END===\n")
        t = o.text()
        want = sorted(want)
        ctx.nontrivial(("free-multiword", t))
        for name, got in surfaces(t).items():
            if name.startswith("octave_write(strict)"):
                continue                                   # strict write drops parser receipts: listed finding
            ctx.count()
            if isinstance(got, str):
                ctx.hist("surface_rejected_input", name)
                continue
            if got != want:
                ctx.property_failure({"text": t, "surface": name, "expected": want, "reported": got, "stream": "free multi-word / multi-line string"},
                                     f"{name}: receipts differ from the rewrites in the input")


def run(ctx):
    hm = doccases.have_model(ctx)
    # core fragment of Rt/TokRound.v (theorem parse_core_doc): deep nesting, scalars of every kind
    corefrag.run(ctx, ctx.scale(150, 3000), hm)
    corefrag.run3(ctx, ctx.scale(150, 3000), hm)
    corefrag.run4(ctx, ctx.scale(150, 3000), hm)
    from octave_mcp.core.parser import parse_with_warnings
    from octave_mcp.mcp.validate import ValidateTool
    from octave_mcp.mcp.write import WriteTool
    ctx.extra["rule"] = ("content-model documents that falsify no wf clause, each rendered in random lenient spellings with 0..N "
                         "rewrite sites (ASCII aliases of every operator and of the section marker, triple quotes, multi-word bare "
                         "values); the multiset of (kind, original, replacement, line, column) reported by parse_with_warnings, "
                         "octave_validate.repairs and octave_write(corrections_only).corrections must equal the multiset injected "
                         "by the renderer; canonical spellings must yield none. non-trivial = distinct spelling with >= 1 rewrite")
    loop = asyncio.new_event_loop()

    def surfaces(t):
        out = {}
        try:
            out["parse_with_warnings"] = sorted(x for x in (rec_of(w) for w in parse_with_warnings(t)[1]) if x)
        except Exception as e:  # noqa
            out["parse_with_warnings"] = f"EXC {type(e).__name__}"
        r = loop.run_until_complete(ValidateTool().execute(content=t, schema="META"))
        out["octave_validate.repairs"] = sorted(x for x in (rec_of(w) for w in r.get("repairs", [])) if x)
        w = loop.run_until_complete(WriteTool().execute(target_path="/nonexistent-c07/f.oct.md", content=t, corrections_only=True, lenient=True))
        out["octave_write(lenient).corrections"] = sorted(x for x in (corr_of(c) for c in w.get("corrections", [])) if x) \
            if w.get("status") == "success" else f"ERR {w.get('errors')}"
        w = loop.run_until_complete(WriteTool().execute(target_path="/nonexistent-c07/f.oct.md", content=t, corrections_only=True, lenient=False))
        out["octave_write(strict).corrections"] = sorted(x for x in (corr_of(c) for c in w.get("corrections", [])) if x) \
            if w.get("status") == "success" else f"ERR {w.get('errors')}"
        return out

    for fid, f in ctx.known.items():
        w = f["witness"]
        got = surfaces(w["text"]).get(w["surface"])
        ctx.finding_witness(fid, got != sorted(tuple(x) for x in w["expected"]))
    # regressions of repaired defects: the reported receipts must now equal the expected ones
    import json as _json
    from pathlib import Path as _Path
    for cf in sorted((_Path(__file__).resolve().parents[2] / "corpus" / "C07").glob("*.json")):
        c = _json.loads(cf.read_text())
        got = surfaces(c["text"]).get(c["surface"])
        ctx.count()
        if got != sorted(tuple(x) for x in c["expected"]):
            ctx.property_failure({"text": c["text"], "surface": c["surface"], "expected": c["expected"], "reported": got, "corpus": cf.name},
                                 f"{c['surface']}: receipts differ from the rewrites in the input (corpus {cf.name})")
    alias_adjacency_stream(ctx, surfaces)
    free_multiword_stream(ctx, surfaces)
    cases = [c for c in doccases.gen_docs(ctx, ctx.scale(500, 8000), valid_fraction=1.0) if not c[1]]
    reps = ctx.scale(3, 10)
    texts = []
    try:
        for d, _ in cases:
            for k in range(reps + 1):
                if k == 0:
                    t, want, sites = render.render(d, None)
                else:
                    t, want, sites = render.render(d, random.Random(ctx.rng.random()))
                want = sorted(want)
                texts.append(t)
                ctx.hist("rewrites", min(len(want), 30))
                if want:
                    ctx.nontrivial(t)
                for name, got in surfaces(t).items():
                    ctx.count()
                    if got == want:
                        continue
                    if isinstance(got, str) and got.startswith("ERR"):
                        ctx.hist("surface_rejected_input", name)     # no receipts are owed for a refused input (see C01)
                        continue
                    fids = []
                    if name == "octave_write(strict).corrections" and isinstance(got, list):
                        # two listed defects of the strict write path, attributed by the exact shape of the difference
                        # spec_violation mapped to W002: replacement empty and the original is not a triple quote (an EMPTY
                        # triple-quoted string legitimately yields ('norm', '"""', '') )
                        bogus = lambda x: x[0] == "norm" and x[2] == "" and x[1] != '"""'   # noqa: E731
                        extra = [x for x in got if bogus(x)]
                        core = [x for x in got if not bogus(x)]
                        if core == [x for x in want if x[0] != "multi"]:
                            if extra:
                                fids.append(PFX + "strict-write-spec-violation-as-w002")
                            if any(x[0] == "multi" for x in want):
                                fids.append(PFX + "strict-write-multiword")
                    case = {"text": t, "surface": name, "expected": want, "reported": got, "doc": d}
                    for fid in (fids or [None]):
                        ctx.property_failure(case, f"{name}: receipts differ from the rewrites in the input", finding=fid)
    finally:
        loop.close()
    brace_stream(ctx)
    ctx.sample({"text": texts[1], "receipts": sorted(render.render(cases[0][0], None)[1])})
    if hm:
        sub = texts[:: max(1, len(texts) // ctx.scale(1500, 15000))]
        bad, n_in, n_out, _ = parsecorr.compare(sub, strict=False, with_warnings=True)
        ctx.count(n_in)
        for t, i, m in bad[:10]:
            ctx.correspondence_failure({"text": t, "impl": i[:500], "model": m[:500]},
                                       "receipts/AST of parse_with_warnings differ from the lexer+parser model")
