"""C19 -- tools cannot be steered outside the intended files.

Run order: corpus (incl. the witnesses of the FIXED finding C19-unstattable-symlink-last, repo fix 039cc0c: they must
be refused with nothing created/replaced) -> model-of-OS check (model `resolve`/`exists`/`is_symlink` vs pathlib on
real trees) -> correspondence (validator verdict + refusing check per tool vs the extracted model) -> the property
itself on the implementation (independent of the model): snapshot before/after + interposed record of os.* / open.
Then schema names (exhaustive small scope), frozen references, source URIs.
"""
from __future__ import annotations

import hashlib
import itertools
import json
import multiprocessing as mp
import os
import shutil
import sys
import tempfile

from lib.core import REPO, SRC, VERIF
from lib.model import enc_str, run_driver

LEVEL = "proof"
DRIVERS = ["pathm"]
# No known finding is left for C19.  The former C19-unstattable-symlink-last (links for which stat fails were accepted
# because the link test was `exists() and is_symlink()`) was repaired in /repo by 039cc0c; its witnesses are corpus
# cases with "expect": "refused" and a path with such a link that is not refused is an unattributed failure again.
FIXED_BY = "039cc0c"

DOC = "===D===\nA::1\n===END===\n"
NEWDOC = "===D===\nA::2\n===END===\n"
SECRET = "===SECRET===\nK::\"outside\"\n===END===\n"
LONG = "A" * 300 + ".md"
ALLOWED = (".oct.md", ".octave", ".md")


# ------------------------------------------------------------------------------------------------
# trees
# ------------------------------------------------------------------------------------------------
def tree_spec(variant: int, base: str):
    """[(relpath, kind, payload)] below `base`; links use absolute targets in odd variants."""
    def tgt(rel_from_sb, absolute):
        return absolute if variant % 2 else rel_from_sb
    t = [
        ("sb", "d", ""), ("out", "d", ""), ("out/secret.md", "f", SECRET), ("out/sd", "d", ""),
        ("out/sd/s2.oct.md", "f", SECRET),
        ("sb/d", "d", ""), ("sb/d/f.md", "f", DOC), ("sb/d/e", "d", ""), ("sb/d/e/h.octave", "f", DOC),
        ("sb/f.md", "f", DOC), ("sb/n.txt", "f", "x"), ("sb/U.MD", "f", DOC), ("sb/a.tar.md", "f", DOC),
        ("sb/b.oct.md.bak", "f", DOC), ("sb/g.oct.md", "f", DOC),
        ("sb/ld", "l", tgt("../out", base + "/out")),
        ("sb/ldi", "l", "d"),
        ("sb/lf.md", "l", tgt("../out/secret.md", base + "/out/secret.md")),
        ("sb/lfi.md", "l", "f.md"),
        ("sb/dang.md", "l", tgt("../out/nothing.md", base + "/out/nothing.md")),
        ("sb/dangd", "l", tgt("../out/nodir", base + "/out/nodir")),
        ("sb/loop.md", "l", "loop.md"),
        ("sb/la.md", "l", "lb.md"), ("sb/lb.md", "l", "la.md"),
        ("sb/d/up.md", "l", tgt("../../out/secret.md", base + "/out/secret.md")),
        ("sb/d/ldd", "l", ".."),
        ("sb/nd.md", "l", "f.md/x"),
        ("sb/l2.md", "l", "lfi.md"),
    ]
    if variant >= 2:
        t += [("sb/d/e/deep.md", "l", "../../../out/sd/s2.oct.md"), ("sb/d/dang2.octave", "l", "nowhere/x.octave"),
              ("sb/lsd", "l", tgt("../out/sd", base + "/out/sd"))]
        # link chains at the kernel's limit: ch/k0.md needs 40 follows (ok), ch2/k0.md needs 41 (ELOOP)
        t += [("sb/ch", "d", ""), ("sb/ch2", "d", "")]
        t += [("sb/ch/k%d.md" % i, "l", "k%d.md" % (i + 1)) for i in range(39)] + [("sb/ch/k39.md", "l", "../f.md")]
        t += [("sb/ch2/k%d.md" % i, "l", "k%d.md" % (i + 1)) for i in range(40)] + [("sb/ch2/k40.md", "l", "../f.md")]
    return t


def build_tree(base: str, spec):
    for rel, kind, payload in spec:
        p = os.path.join(base, rel)
        if kind == "d":
            os.makedirs(p, exist_ok=True)
        elif kind == "f":
            with open(p, "w", encoding="utf-8") as f:
                f.write(payload)
        else:
            os.symlink(payload, p)


def wipe_tree(base: str):
    for n in os.listdir(base):
        p = os.path.join(base, n)
        if os.path.isdir(p) and not os.path.islink(p):
            shutil.rmtree(p)
        else:
            os.unlink(p)


def snapshot(base: str):
    out = {}
    for dirpath, dirnames, filenames in os.walk(base):
        for n in dirnames + filenames:
            p = os.path.join(dirpath, n)
            st = os.lstat(p)
            rel = os.path.relpath(p, base)
            if os.path.islink(p):
                out[rel] = ("l", os.readlink(p), st.st_mtime_ns, st.st_ino)
            elif os.path.isdir(p):
                out[rel] = ("d", "", 0, st.st_ino)
            else:
                with open(p, "rb") as f:
                    out[rel] = ("f", f.read(), st.st_mtime_ns, st.st_ino)
    return out


def snap_diff(a, b):
    d = []
    for k in sorted(set(a) | set(b)):
        if a.get(k) != b.get(k):
            x, y = a.get(k), b.get(k)
            d.append((k, x[0] if x else "-", y[0] if y else "-"))
    return d


# ------------------------------------------------------------------------------------------------
# interposition (installed in the worker process; records only while REC is a list)
# ------------------------------------------------------------------------------------------------
REC = None
META, READ, MUT = "meta", "read", "mutate"


def _install_interposition():
    import builtins
    import io

    def wrap(mod, name, cls, argidx=(0,)):
        orig = getattr(mod, name)

        def w(*a, **k):
            rec = REC
            if rec is None:
                return orig(*a, **k)
            c = cls
            if name == "open" and mod in (builtins, io):
                mode = a[1] if len(a) > 1 else k.get("mode", "r")
                c = MUT if any(ch in str(mode) for ch in "wax+") else READ
            if name == "open" and mod is os:
                flags = a[1] if len(a) > 1 else k.get("flags", 0)
                c = MUT if flags & (os.O_WRONLY | os.O_RDWR | os.O_CREAT | os.O_TRUNC | os.O_APPEND) else READ
            args = []
            for i in argidx:
                if i < len(a):
                    try:
                        args.append(os.fspath(a[i]) if not isinstance(a[i], int) else "<fd>")
                    except TypeError:
                        args.append(repr(a[i])[:40])
            try:
                r = orig(*a, **k)
            except BaseException as e:
                rec.append((name, c, False, args, type(e).__name__))
                raise
            rec.append((name, c, True, args, ""))
            return r
        setattr(mod, name, w)

    for nm in ("stat", "lstat", "readlink", "listdir", "scandir", "access"):
        wrap(os, nm, META)
    for nm in ("mkdir", "makedirs", "unlink", "remove", "rmdir", "chmod", "truncate", "utime", "symlink", "link", "chown"):
        wrap(os, nm, MUT)
    for nm in ("replace", "rename"):
        wrap(os, nm, MUT, (0, 1))
    wrap(os, "open", READ)
    wrap(builtins, "open", READ)
    io.open = builtins.open
    import pathlib
    if hasattr(pathlib, "io"):
        pathlib.io.open = builtins.open


# ------------------------------------------------------------------------------------------------
# worker: one tree, one cwd, many path strings
# ------------------------------------------------------------------------------------------------
def _msg_reason(msg, prefixes):
    for pre, r in prefixes:
        if msg.startswith(pre):
            return r
    return "?"


def _features(p: str, cwd: str):
    """Independent (no pathlib) reading of the property text on the real file system, before the call."""
    comps = p.split("/")
    has_dotdot = ".." in comps
    norm = [c for c in comps if c not in ("", ".")]
    name = norm[-1] if norm else ""
    bad_ext = not any(name.endswith(e) and len(name) > len(e) for e in ALLOWED)
    start = [] if p.startswith("/") else [c for c in cwd.split("/") if c]
    links = []
    cur = "/"
    allc = start + norm
    for i, c in enumerate(allc):
        cur = os.path.join(cur, c)
        try:
            if os.path.islink(cur):
                try:
                    os.stat(cur)
                    statable = True
                except OSError:
                    statable = False
                links.append((i - len(allc), statable))      # position from the end (-1 = last)
        except ValueError:
            break
    return {"dotdot": has_dotdot, "bad_ext": bad_ext, "links": links}


def _one_call(tool, p, env):
    """One interposed call of a tool surface on path string `p` in the CURRENT process / tree / cwd.
    env: wt, vt (tool objects living as long as the worker), file_ops, prefixes, base (snapshot root), cwd, sandboxes
    (absolute directories inside which mutations are allowed), optional cli (click group) ."""
    global REC
    import asyncio
    base, cwd, prefixes, file_ops = env["base"], env["cwd"], env["prefixes"], env["file_ops"]
    before = snapshot(base)
    REC = []
    try:
        if tool == "w":
            r = asyncio.run(env["wt"].execute(target_path=p, content=NEWDOC))
            errs = r.get("errors") or []
            if r.get("status") == "success":
                oc = "ACCEPT:success"
            elif errs and errs[0].get("code") == "E_PATH":
                oc = "E_PATH:" + _msg_reason(errs[0].get("message", ""), prefixes["write"])
            else:
                oc = "ACCEPT:" + (errs[0].get("code", "?") if errs else "?")
        elif tool == "v":
            r = asyncio.run(env["vt"].execute(file_path=p, schema="META"))
            errs = r.get("errors") or []
            code = errs[0].get("code") if errs and isinstance(errs[0], dict) else None
            if code == "E_PATH":
                oc = "E_PATH:" + _msg_reason(errs[0].get("message", ""), prefixes["validate"])
            elif code in ("E_FILE", "E_READ"):
                oc = "ACCEPT:" + code
            else:
                oc = "ACCEPT:read"
        elif tool == "vp":      # the bare verdict function used by the CLI and by atomic_write_octave
            ok, msg = file_ops.validate_octave_path(p)
            oc = "ACCEPT:valid" if ok else "E_PATH:" + _msg_reason(msg or "", prefixes["fileops"])
        elif tool == "cli":     # `octave write FILE --content ...` in-process (same interpreter state as a long-lived embedding)
            from click.testing import CliRunner
            r = CliRunner().invoke(env["cli"], ["write", p, "--content", NEWDOC])
            text = (r.output or "")
            try:
                text += r.stderr or ""
            except (ValueError, AttributeError):
                pass
            if r.exit_code == 0:
                oc = "ACCEPT:success"
            else:
                rs = "?"
                for line in text.splitlines():
                    if line.startswith("Error: "):
                        rs = _msg_reason(line[len("Error: "):], prefixes["fileops"])
                        if rs != "?":
                            break
                oc = ("E_PATH:" + rs) if rs != "?" else "ACCEPT:error"
        else:
            r = file_ops.atomic_write_octave(p, NEWDOC)
            if r.get("status") == "success":
                oc = "ACCEPT:success"
            else:
                rs = _msg_reason(r.get("error", ""), prefixes["fileops"])
                oc = ("E_PATH:" + rs) if rs != "?" else "ACCEPT:error"
    except BaseException as e:  # noqa
        oc = "ACCEPT:EXC:" + type(e).__name__
    ops = REC
    REC = None
    after = snapshot(base)
    diff = snap_diff(before, after)
    io_ops = [(n, c, a) for (n, c, ok, a, _e) in ops if ok and c in (READ, MUT)]
    tried = [(n, c, a, e) for (n, c, ok, a, e) in ops if (not ok) and c in (READ, MUT)]
    sand = env["sandboxes"]
    sand_rel = [os.path.relpath(sd, base) for sd in sand]
    outside = []
    for (n, c, a) in io_ops:
        if c == MUT:
            for x in a:
                if x != "<fd>":
                    ax = os.path.join(cwd, x)
                    rp = os.path.realpath(os.path.dirname(ax.rstrip("/")) or "/")
                    if not any((rp + "/").startswith(sd + "/") for sd in sand):
                        outside.append((n, x.replace(base, "{B}")))
    return {
        "outcome": oc, "diff": diff, "n_meta": sum(1 for o in ops if o[1] == META),
        "io": [(n, c, [x.replace(base, "{B}") for x in a]) for (n, c, a) in io_ops][:8],
        "tried": [(n, c, [x.replace(base, "{B}") for x in a], e) for (n, c, a, e) in tried][:6],
        "outside": outside,
        "out_changed": any(not any(k == sr or k.startswith(sr + "/") for sr in sand_rel) for k, _, _ in diff),
    }


def worker(job):
    global REC
    variant, cwd_rel, paths, tools, prefixes, mutate = job["variant"], job["cwd"], job["paths"], job["tools"], job["prefixes"], job.get("mutate")
    sys.path.insert(0, str(REPO / "src"))
    _install_interposition()
    import asyncio
    from pathlib import Path
    from octave_mcp.core import file_ops
    from octave_mcp.mcp.validate import ValidateTool
    from octave_mcp.mcp.write import WriteTool
    if mutate:
        _apply_mutation(mutate)
    base = os.path.realpath(tempfile.mkdtemp(prefix="c19_"))
    results = []
    try:
        spec = tree_spec(variant, base)
        build_tree(base, spec)
        cwd = os.path.join(base, cwd_rel)
        os.chdir(cwd)
        env = {"wt": WriteTool(), "vt": ValidateTool(), "file_ops": file_ops, "prefixes": prefixes, "base": base, "cwd": cwd,
               "sandboxes": [base + "/sb"]}
        for praw in paths:
            p = praw.replace("{B}", base)
            rec = {"path": praw}
            # safety: the file named by the string (lexically and as the kernel resolves it) must lie inside the scratch tree
            try:
                tgt_lex = os.path.normpath(os.path.join(cwd, p))
                tgt_real = os.path.realpath(os.path.join(cwd, p))
                safe = all((t + "/").startswith(base + "/") for t in (tgt_lex, tgt_real))
            except ValueError:
                safe = True     # embedded NUL: no file can be named
            if not safe:
                results.append({"path": praw, "skipped": "names a file outside the scratch tree"})
                continue
            # ---- model-of-OS observations (pathlib on the real tree) ----
            try:
                rec["res"] = str(Path(p).absolute().resolve(strict=False))
            except Exception as e:  # noqa
                rec["res"] = "ERR"
            try:
                ex = "T" if Path(p).absolute().exists() else "F"
            except OSError:
                ex = "R"
            try:
                sl = "1" if Path(p).absolute().is_symlink() else "0"     # lstat: a dangling link IS a link
            except OSError:
                sl = "R"
            try:
                dr = "1" if Path(p).absolute().is_dir() else "0"
            except OSError:
                dr = "?"
            rec["st"] = ex + sl + dr
            rec["feat"] = _features(p, cwd)
            rec["calls"] = {}
            for tool in tools:
                rec["calls"][tool] = c = _one_call(tool, p, env)
                diff = c["diff"]
                if diff:
                    os.chdir("/")
                    wipe_tree(base)
                    build_tree(base, spec)
                    os.chdir(cwd)
            results.append(rec)
        return {"base": base, "variant": variant, "cwd": cwd_rel, "results": results}
    finally:
        os.chdir("/")
        shutil.rmtree(base, ignore_errors=True)


def _apply_mutation(kind):
    """Self-test only (VERIF_C19_MUTATE): perturb the implementation in the worker, never /repo."""
    from octave_mcp.core import file_ops
    from octave_mcp.mcp import validate as v
    from octave_mcp.mcp import write as w
    if kind == "ext":
        for o in (w.WriteTool, v.ValidateTool):
            o.ALLOWED_EXTENSIONS = {".oct.md", ".octave", ".md", ".txt"}
        file_ops.ALLOWED_EXTENSIONS = {".oct.md", ".octave", ".md", ".txt"}
    elif kind == "nosymlink":
        import pathlib
        w.Path = type("P", (pathlib.PosixPath,), {"is_symlink": lambda self: False})


# ------------------------------------------------------------------------------------------------
# path strings
# ------------------------------------------------------------------------------------------------
DIRLIKE = ["d", "e", "ld", "ldi", "dangd", "ldd", ".", "..", "", "newd", "f.md", "lsd", "loop.md"]
LAST = ["f.md", "n.txt", "U.MD", "a.tar.md", "b.oct.md.bak", "g.oct.md", "h.octave", "lf.md", "lfi.md", "dang.md",
        "loop.md", "la.md", "up.md", "nd.md", "l2.md", "deep.md", "dang2.octave", "new.md", "new.oct.md", "new.octave",
        "x.OCT.MD", "y.tar.gz", "v.md.", "..md", ".md", "md", "x\x00.md", LONG, "d", "ld", "ldi", "dangd", ".", "..", "",
        "newd", "ldd", "e", "lsd"]


def gen_paths(ctx, n_random):
    rng = ctx.rng
    out = []
    for s in LAST:
        out.append(s)
    for a in DIRLIKE:
        for b in LAST:
            out.append(a + "/" + b)
    for _ in range(n_random):
        k = rng.choice((3, 3, 4, 4, 2))
        segs = [rng.choice(DIRLIKE) for _ in range(k - 1)] + [rng.choice(LAST)]
        s = "/".join(segs)
        if rng.random() < 0.15:
            s += "/"
        out.append(s)
    seen, uniq = set(), []
    for s in out:
        if s.startswith("/"):
            continue            # a leading empty segment would make the string absolute at the real root
        if s not in seen:
            seen.add(s)
            uniq.append(s)
    return uniq


def seg_class(p):
    cs = p.split("/")
    tags = set()
    for c in cs:
        if c == "..":
            tags.add("dotdot")
        elif c == ".":
            tags.add("dot")
        elif c == "":
            tags.add("empty")
        elif c in ("ld", "ldi", "ldd", "lsd"):
            tags.add("link-dir")
        elif c in ("lf.md", "lfi.md", "up.md", "l2.md", "deep.md"):
            tags.add("link-file")
        elif c in ("dang.md", "dangd", "nd.md", "dang2.octave"):
            tags.add("dangling")
        elif c in ("loop.md", "la.md"):
            tags.add("loop")
        elif "\x00" in c:
            tags.add("nul")
        elif len(c) > 255:
            tags.add("long")
    return ",".join(sorted(tags)) or "plain"


# ------------------------------------------------------------------------------------------------
# model side
# ------------------------------------------------------------------------------------------------
def enc_path(segs):
    return "/".join(enc_str(s) for s in segs) if segs else "@"


def fs_line(base, spec):
    ents = []
    segs = [c for c in base.split("/") if c]
    for i in range(1, len(segs) + 1):
        ents.append(enc_path(segs[:i]) + "|d|-")
    for rel, kind, payload in spec:
        ents.append(enc_path(segs + rel.split("/")) + "|" + kind + "|" + enc_str(payload if kind == "l" else "x"))
    return "fs " + " ".join(ents)


def dec_path(tok):
    if tok == "@":
        return "/"
    return "/" + "/".join("".join(chr(int(x)) for x in s.split(".")) for s in tok.split("/"))


def model_batch(batch):
    base = batch["base"]
    spec = tree_spec(batch["variant"], base)
    lines = [fs_line(base, spec), "cwd " + enc_path([c for c in (base + "/" + batch["cwd"]).split("/") if c])]
    for r in batch["results"]:
        e = enc_str(r["path"].replace("{B}", base))
        lines += [f"val w {e}", f"val v {e}", f"val f {e}", f"res {e}", f"st {e}", f"late {e}"]
    res = run_driver("pathm", lines)
    out = []
    for i, r in enumerate(batch["results"]):
        w, v, f, rs, st, late = res[2 + 6 * i: 8 + 6 * i]
        out.append({"w": w, "v": v, "f": f, "res": "ERR" if rs.startswith("ERR") else dec_path(rs.split(" ")[1]), "st": st, "late": late,
                    "loop": rs == "ERR LOOP"})
    return out


def model_expect(mv):
    return "ACCEPT" if mv == "OK" else "E_PATH:" + mv[2:]


# ------------------------------------------------------------------------------------------------
# schema names, frozen refs, source URIs
# ------------------------------------------------------------------------------------------------
def schema_names(ctx, have_model):
    sys.path.insert(0, str(REPO / "src"))
    from pathlib import Path
    from octave_mcp.schemas import loader
    alpha = ["A", "Z", "a", "9", "_", ".", "/", "-", "\n", "\\", "\u00c9", "\u212a"]
    maxlen = ctx.scale(4, 5)
    names = [""]
    for k in range(1, maxlen + 1):
        names += ["".join(t) for t in itertools.product(alpha, repeat=k)]
    rng = ctx.rng
    for _ in range(ctx.scale(3000, 60000)):
        k = rng.choice((5, 6))
        names.append("".join(rng.choice(alpha + ["A", "B", "_", "0"]) for _ in range(k)))
    names += ["META", "META\n", "META\n\n", "\nMETA", "SESSION_LOG", "../META", "META/../X", "A" * 6, "M\r", "M\x00", "M\u2028"]
    ctx.extra["schema_name_strings"] = len(names)
    mres = run_driver("pathm", ["name " + enc_str(n) for n in names]) if have_model else None
    d = Path("/S/dir")
    acc = 0
    for i, n in enumerate(names):
        impl_ok = bool(loader.SCHEMA_NAME_PATTERN.match(n))
        ctx.count()
        if impl_ok:
            acc += 1
            ctx.nontrivial(("schema", n))
            files = [f"{n.lower()}.oct.md", f"{n}.oct.md"]
            for f in files:
                cand = d / f
                if cand.parent != d or "/" in f or f in ("..", "."):
                    ctx.property_failure({"schema_name": n, "file": f, "candidate": str(cand)},
                                         "schema name accepted by SCHEMA_NAME_PATTERN selects a file outside the schema directory")
        if mres is not None:
            m = mres[i].split(" ")
            if (m[0] == "1") != impl_ok:
                ctx.correspondence_failure({"schema_name": n, "impl": impl_ok, "model": mres[i]}, "SCHEMA_NAME_PATTERN.match differs from model name_ok")
            elif impl_ok:
                mf = ["".join(chr(int(x)) for x in t.split(".")) for t in m[1:]]
                if mf != files:
                    ctx.correspondence_failure({"schema_name": n, "impl": files, "model": mf}, "schema file names differ from model")
    ctx.hist("schema_names", "accepted", acc)
    ctx.hist("schema_names", "refused", len(names) - acc)
    ctx.sample({"schema_name": "META\n", "accepted": bool(loader.SCHEMA_NAME_PATTERN.match("META\n")),
                "candidate": str(d / "meta\n.oct.md"), "parent_is_dir": (d / "meta\n.oct.md").parent == d})


def schema_end_to_end(job):
    """load_schema_by_name under interposition in a project directory with decoys: every path touched lies in a search dir."""
    global REC
    sys.path.insert(0, str(REPO / "src"))
    _install_interposition()
    from octave_mcp.schemas import loader
    base = os.path.realpath(tempfile.mkdtemp(prefix="c19s_"))
    out = []
    try:
        os.makedirs(base + "/proj/specs/schemas")
        os.makedirs(base + "/secret")
        schema_doc = "===DECOY===\nMETA:\n  TYPE::\"X\"\n  VERSION::\"1\"\n===END===\n"
        for p in ("/proj/specs/schemas/decoy.oct.md", "/proj/specs/schemas/meta\n.oct.md", "/secret/decoy.oct.md", "/proj/decoy.oct.md"):
            with open(base + p, "w") as f:
                f.write(schema_doc)
        os.chdir(base + "/proj")
        dirs = [str(p) for p in loader.get_schema_search_paths()]
        pk = os.path.dirname(os.path.dirname(loader.__file__))
        cands = [pk + "/resources/specs/schemas", base + "/proj/src/octave_mcp/resources/specs/schemas",
                 base + "/proj/specs/schemas", os.path.dirname(loader.__file__) + "/builtin"]
        for n in job["names"]:
            REC = []
            try:
                r = loader.load_schema_by_name(n)
                oc = "none" if r is None else "loaded"
            except BaseException as e:  # noqa
                oc = "EXC:" + type(e).__name__
            ops = REC
            REC = None
            touched = [a[0] for (nm, c, ok, a, _e) in ops if a and a[0] != "<fd>"]
            bad = [t for t in touched if os.path.dirname(t) not in cands and t not in cands]
            out.append((n, oc, len(ops), bad, bool(loader.SCHEMA_NAME_PATTERN.match(n))))
        return {"dirs": [d.replace(base, "{B}") for d in dirs], "res": out}
    finally:
        os.chdir("/")
        shutil.rmtree(base, ignore_errors=True)


def frozen_and_uri(job):
    global REC
    sys.path.insert(0, str(REPO / "src"))
    _install_interposition()
    from pathlib import Path
    from octave_mcp.core import hydrator
    base = os.path.realpath(tempfile.mkdtemp(prefix="c19f_"))
    try:
        spec = tree_spec(2, base)
        build_tree(base, spec)
        cache = base + "/sb/cache"
        os.mkdir(cache)
        good = b"===STD===\nA::1\n===END===\n"
        bad = b"===STD===\nA::2\n===END===\n"
        dg = hashlib.sha256(good).hexdigest()
        dbad = hashlib.sha256(b"other").hexdigest()
        files = {dg[:16] + ".oct.md": good, dbad[:16] + ".oct.md": bad}
        for n, b in files.items():
            with open(os.path.join(cache, n), "wb") as f:
                f.write(b)
        with open(base + "/out/" + dg[:16] + ".oct.md", "wb") as f:
            f.write(good)
        refs = job["refs"](dg, dbad) if callable(job.get("refs")) else frozen_refs(dg, dbad)
        fro = []
        for ref in refs:
            REC = []
            try:
                p = hydrator.resolve_hermetic_standard(ref, cache_dir=Path(cache))
                oc = str(p).replace(base, "{B}")
                byts = open(p, "rb").read()
                okhash = hashlib.sha256(byts).hexdigest()
                parent_ok = os.path.dirname(str(p)) == cache
            except hydrator.VocabularyError:
                oc, okhash, parent_ok = "REFUSED", None, True
            except BaseException as e:  # noqa
                oc, okhash, parent_ok = "EXC:" + type(e).__name__, None, True
            ops = REC
            REC = None
            touched = [a[0] for (nm, c, ok, a, _e) in ops if c in (READ, MUT) and a and a[0] != "<fd>"]
            esc = [t.replace(base, "{B}") for t in touched if os.path.dirname(t) != cache]
            fro.append((ref, oc, okhash, parent_ok, esc))
        uris = []
        basep = base + "/sb"
        for u in job["uris"]:
            try:
                p = hydrator.validate_source_uri(u, Path(basep))
                oc = "OK " + str(p).replace(base, "{B}")
                inside = (str(p) + "/").startswith(os.path.realpath(basep) + "/")
            except hydrator.SourceUriSecurityError:
                oc, inside = "REFUSED", True
            except BaseException as e:  # noqa
                oc, inside = "RAISE:" + type(e).__name__, True
            uris.append((u, oc, inside))
        return {"base": base, "digests": (dg, dbad), "frozen": fro, "uris": uris,
                "oracle": [(good.decode(), dg), (bad.decode(), hashlib.sha256(bad).hexdigest())]}
    finally:
        shutil.rmtree(base, ignore_errors=True)


def frozen_refs(dg, dbad):
    P = "frozen@sha256:"
    return [P + dg, P + dg.upper(), P + dbad, P + dg[:63], P + dg + "0", P + dg + "\n", P + "../" + dg[3:], P + "/" * 64,
            P + ("." * 64), P + dg[:16] + "/" * 48, P + "g" * 64, P + dg[:63] + "\u0660", P + dg[:63] + "\uff21",
            "frozen@sha256" + dg, "frozen@sha512:" + dg, "FROZEN@sha256:" + dg, " " + P + dg, P + " " + dg[1:],
            P + "0" * 64, P + dg[:16] + "0" * 48, P, "latest", "", "frozen@", P + dg[:32] + "\x00" + dg[33:], P + "A" * 64]


def gen_uris(ctx):
    segs = ["d", "e", "ld", "ldi", "dangd", "ldd", ".", "..", "", "f.md", "lf.md", "lfi.md", "dang.md", "loop.md", "up.md",
            "new.md", "lsd", "s2.oct.md", "secret.md", "deep.md", "x\x00", "C:", "sb", "out"]
    out = ["", "/etc/passwd", "C:/x", "c:", "a:b", "../out/secret.md", "ld/secret.md", "d/../../out/secret.md", "//x", "./f.md"]
    for a in segs:
        out.append(a)
        for b in segs:
            out.append(a + "/" + b)
    rng = ctx.rng
    for _ in range(ctx.scale(300, 6000)):
        out.append("/".join(rng.choice(segs) for _ in range(rng.choice((3, 4)))))
    return sorted(set(out))


TOOL_NAME = {"w": "octave_write", "v": "octave_validate", "f": "atomic_write_octave", "vp": "validate_octave_path", "cli": "cli write"}
MODEL_KEY = {"w": "w", "v": "v", "f": "f", "vp": "f", "cli": "f"}     # which validator configuration of the model a surface uses


def is_accepted(oc):
    return oc.endswith(":success") or oc in ("ACCEPT:read", "ACCEPT:valid")


def judge_call(ctx, case, tool, c, feat, m, oom):
    """Verdict vs model (m: model record for the CURRENT tree, or None) and the property itself (model-independent)."""
    oc = c["outcome"]
    forbidden = feat["dotdot"] or feat["bad_ext"] or bool(feat["links"])
    # ---- correspondence: verdict and refusing check ----
    if m is not None:
        mv = m[MODEL_KEY[tool]]
        want = model_expect(mv)
        got = oc if oc.startswith("E_PATH") else "ACCEPT"
        if oom:
            want, got = want.split(":")[0], got.split(":")[0]
        if want != got:
            ctx.correspondence_failure(dict(case, model=mv), "validator verdict / refusing check differs from the model")
        elif tool == "v" and got == "ACCEPT" and m["st"][0] != "R":
            if (oc == "ACCEPT:E_FILE") != (m["st"][0] == "F"):
                ctx.correspondence_failure(dict(case, model_exists=m["st"]), "E_FILE of octave_validate differs from the model's exists()")
    # ---- the property itself ----
    refused = not is_accepted(oc)
    changed = bool(c["diff"])
    touched = bool(c["io"])
    if c["out_changed"] or c["outside"]:
        ctx.property_failure(case, "a path outside the sandbox was created/modified")
        return
    if oc.startswith("E_PATH") and (changed or touched or c["tried"]):
        ctx.property_failure(case, "file-system read/mutation performed although the path was refused with E_PATH")
        return
    if forbidden and (not refused or changed or touched):
        links = feat["links"]
        unstat = (not feat["dotdot"] and not feat["bad_ext"] and links and all(not st for _, st in links))
        # no finding is listed any more: a link that cannot be stat'ed (dangling / ENOTDIR / >40 links) is a link
        ctx.hist("property_failures", "unstattable-symlink (fixed by %s: regression)" % FIXED_BY if unstat else "other")
        ctx.property_failure(case, "path with a '..'/symlink component/disallowed extension was not refused before touching files "
                             f"(outcome {oc}, changed={changed})"
                             + (f"; every link on the path is one for which stat fails -- the defect fixed by {FIXED_BY}" if unstat else ""))
    if forbidden and refused and c["tried"]:
        ctx.hist("refused_after_failed_attempt", oc)


# ------------------------------------------------------------------------------------------------
def run(ctx):
    have_model = ctx.build_status["drivers"].get("pathm", False)
    sys.path.insert(0, str(VERIF / "harness"))
    from translate import paths_t
    x = paths_t.extract(SRC)
    RN = {1: "DOTDOT", 2: "SYMLINK", 3: "EXT"}
    prefixes = {}
    for who in ("write", "validate", "fileops"):
        pl = []
        for c in x["checks"][who]:
            pl.append((c["msg"], RN[c["kind"]]))
            if c["exc_msg"]:
                pl.append((c["exc_msg"], "RESOLVE"))
        prefixes[who] = pl
    mutate = os.environ.get("VERIF_C19_MUTATE") or None
    n_random = ctx.scale(450, 14000)
    paths = gen_paths(ctx, n_random)
    jobs = []
    variants = [0, 1, 2]
    for vi, variant in enumerate(variants):
        # relative (cwd = sb, cwd = sb/d) and absolute forms
        rel = paths[vi::len(variants)]
        jobs.append({"variant": variant, "cwd": "sb", "paths": rel, "tools": ("w", "v", "f"), "prefixes": prefixes, "mutate": mutate})
        absf = ["{B}/sb/" + p for p in paths[(vi + 1) % 3::len(variants)]]
        absf += ["/" + "{B}/sb/f.md", "/" + "{B}/sb/lf.md", "//" + "{B}/sb/f.md", "{B}//sb///f.md", "{B}/sb/../out/secret.md"]
        jobs.append({"variant": variant, "cwd": "sb/d", "paths": absf, "tools": ("w", "v", "f"), "prefixes": prefixes, "mutate": mutate})
        jobs.append({"variant": variant, "cwd": "sb/d", "paths": ["../" + p for p in paths[(vi + 2) % 3::7]] + paths[vi::11],
                     "tools": ("w", "v", "f"), "prefixes": prefixes, "mutate": mutate})
    # corpus: finding witnesses and past failures first
    corpus = []
    cdir = VERIF / "corpus" / "C19"
    for f in sorted(cdir.glob("*.json")):
        corpus.append(json.loads(f.read_text()))
    groups = {}
    expect = {}          # (tree, cwd, path) -> corpus record that states what every tool must do
    for c in corpus:
        if "path" in c:
            groups.setdefault((c.get("tree", 0), c.get("cwd", "sb")), []).append(c["path"])
            if c.get("expect"):
                expect[(c.get("tree", 0), c.get("cwd", "sb"), c["path"])] = c
    # the witnesses of the fixed finding are replayed even if the corpus directory is emptied
    for pth in ("dang.md", "dangd/x.md", "nd.md"):
        groups.setdefault((0, "sb"), []).append(pth)
        expect.setdefault((0, "sb", pth), {"path": pth, "tree": 0, "cwd": "sb", "expect": "refused", "fixed": FIXED_BY})
    expect_seen = set()
    for (tv, tc), ps in sorted(groups.items(), reverse=True):      # inserted at the front: tree 0 (dang.md) ends up first
        jobs.insert(0, {"variant": tv, "cwd": tc, "paths": sorted(set(ps)), "tools": ("w", "v", "f"), "prefixes": prefixes, "mutate": mutate})
    # split big jobs for parallelism
    split = []
    for j in jobs:
        n = max(1, len(j["paths"]) // 120)
        for k in range(n):
            jj = dict(j)
            jj["paths"] = j["paths"][k::n]
            split.append(jj)
    with mp.Pool(min(16, max(2, len(split)))) as pool:
        batches = pool.map(worker, split)
        rng_names = ["META", "META\n", "DECOY", "DECOY\n", "../secret/DECOY", "/etc/passwd", "DECOY/../../secret/DECOY", "decoy", "A", "SESSION_LOG", "..", "", "D\u00c9COY"]
        se = pool.apply(schema_end_to_end, ({"names": rng_names},))
        fu = pool.apply(frozen_and_uri, ({"uris": gen_uris(ctx)},))
    ctx.extra["rule"] = (
        "corpus first (witnesses of the finding fixed by 039cc0c -- dangling link as last / as directory component, ENOTDIR link, "
        "41-link chain -- must be refused E_PATH by all three tools with an unchanged tree and no read/mutate attempt); then "
        "3 generated trees (sandbox sb/ with dirs, files, links to dir/file inside and outside, dangling, ENOTDIR and cyclic "
        "links; secrets in out/ beside the sandbox), path strings = every last-segment, every (dir-like x last) pair and random "
        "depth-3/4 strings over the segment pool (name, ., .., link-to-dir, link-to-file, dangling, loop, allowed/disallowed/"
        "compound/upper-case extension, empty, trailing slash, NUL, 300-char name), each relative to two working directories and "
        "absolute, each through WriteTool.execute, ValidateTool.execute and atomic_write_octave in a child process with os.*/open "
        "interposed and a full snapshot before/after. One evaluation = one tool call or one schema-name/frozen/URI decision. "
        "distinct non-trivial = distinct (tree, cwd, path, tool) whose path has a '..', link, bad extension, NUL, long or empty "
        "segment, plus accepted schema names and resolved frozen/URI cases")
    os_checked = os_bad = 0
    for b in batches:
        mres = model_batch(b) if have_model else [None] * len(b["results"])
        for r, m in zip(b["results"], mres):
            if "skipped" in r:
                ctx.hist("skipped", r["skipped"])
                continue
            cls = seg_class(r["path"])
            feat = r["feat"]
            depth = len([c for c in r["path"].replace("{B}", "").split("/") if c])
            ctx.hist("path_depth", min(depth, 6))
            ctx.hist("segment_classes", cls)
            ctx.hist("form", "absolute" if r["path"].startswith(("{B}", "/")) else "relative:" + b["cwd"])
            # ---- model of the OS ----
            # out of model: realpath hit a link cycle but CPython's lexical normalisation of the unresolved remainder ('..' after
            # the cyclic link) made Path.resolve return instead of raising; the model reports the cycle as a refusal
            oom = m is not None and m["loop"] and r["res"] != "ERR"
            if oom:
                ctx.hist("out_of_model", "cycle followed by '..' (CPython resolve returns, model refuses)")
            if m is not None and not oom:
                os_checked += 1
                ok = ((m["res"] == r["res"]) and (m["st"][0] == r["st"][0]) and (m["st"][1] == r["st"][1])
                      and (r["st"][2] == "?" or m["st"][2] == r["st"][2]))
                if not ok:
                    os_bad += 1
                    ctx.correspondence_failure({"tree": b["variant"], "cwd": b["cwd"], "path": r["path"], "os": [r["res"], r["st"]],
                                                "model": [m["res"].replace(b["base"], "{B}"), m["st"]]},
                                               "model-of-OS: resolve/exists/is_symlink of the model differ from pathlib on the real tree")
            forbidden = feat["dotdot"] or feat["bad_ext"] or bool(feat["links"])
            for tool, c in r["calls"].items():
                ctx.count()
                oc = c["outcome"]
                ctx.hist("outcome_" + tool, oc)
                case = {"tree": b["variant"], "cwd": b["cwd"], "path": r["path"], "tool": TOOL_NAME[tool],
                        "outcome": oc, "features": feat, "snapshot_diff": c["diff"], "io_ops": c["io"], "failed_io_attempts": c["tried"]}
                if forbidden or cls != "plain":
                    ctx.nontrivial((b["variant"], b["cwd"], r["path"], tool))
                # ---- corpus expectation (witnesses of fixed findings / past failures): refused, nothing read/created/replaced.
                # Exactly what the property text states (any refusal code; the E_PATH verdict itself is compared with the model
                # above), judged from the corpus record alone -- independent of the feature reader and of the model.
                exp = expect.get((b["variant"], b["cwd"], r["path"]))
                if exp is not None and exp.get("expect") == "refused":
                    expect_seen.add((b["variant"], b["cwd"], r["path"]))
                    ctx.hist("corpus_expect_refused", oc)
                    accepted = oc.endswith(":success") or oc == "ACCEPT:read"
                    if accepted or c["diff"] or c["io"]:
                        why = (f"regression of the defect fixed by {exp['fixed']}: " if exp.get("fixed") else "corpus case: ")
                        ctx.property_failure(dict(case, corpus=exp), why + "a path through a symbolic link (dangling / not stat-able / live) "
                                             f"was not refused before a file was read, created or replaced (outcome {oc}, "
                                             f"changed={bool(c['diff'])}, io={bool(c['io'])})")
                        continue
                judge_call(ctx, case, tool, c, feat, m, oom)
    for key in sorted(set(expect) - expect_seen):
        ctx.obligation_failure("corpus", f"corpus case {key} with an expectation was not executed")
    ctx.extra["corpus_expectations_replayed"] = len(expect_seen)
    ctx.extra["os_model_checked"] = os_checked
    ctx.extra["os_model_disagreements"] = os_bad
    # ---- finding witnesses (replayed on the implementation every run) ----
    for fid, f in ctx.known.items():
        w = f["witness"]
        still = False
        for b in batches:
            for r in b["results"]:
                if "skipped" not in r and r["path"] == w["path"] and b["variant"] == w.get("tree", 0) and b["cwd"] == w.get("cwd", "sb"):
                    c = r["calls"].get("w")
                    if c and c["outcome"] == "ACCEPT:success" and c["diff"]:
                        still = True
        ctx.finding_witness(fid, still)
    # samples
    for b in batches[:2]:
        for r in [q for q in b["results"] if "skipped" not in q][:2]:
            ctx.sample({"tree": b["variant"], "cwd": b["cwd"], "path": r["path"], "resolve": r["res"].replace(b["base"], "{B}"),
                        "outcomes": {t: c["outcome"] for t, c in r["calls"].items()}})
    # ---- schema names ----
    schema_names(ctx, have_model)
    for n, oc, nops, bad, acc in se["res"]:
        ctx.count()
        if bad:
            ctx.property_failure({"schema_name": n, "touched_outside_search_dirs": bad, "search_dirs": se["dirs"]},
                                 "load_schema_by_name touched a path outside the schema directories")
        if not acc and nops:
            ctx.property_failure({"schema_name": n, "ops": nops}, "refused schema name caused file-system access")
    ctx.sample({"schema_end_to_end": [(n, oc) for n, oc, _, _, _ in se["res"]], "search_dirs": se["dirs"]})
    # ---- frozen refs / URIs ----
    base = fu["base"]
    dg, dbad = fu["digests"]
    if have_model:
        spec = tree_spec(2, base) + [("sb/cache", "d", "")]
        ents = fs_line(base, spec)
        segs = [c for c in base.split("/") if c]
        orc = fu["oracle"]
        ents += " " + enc_path(segs + ["sb", "cache", dg[:16] + ".oct.md"]) + "|f|" + enc_str(orc[0][0])
        ents += " " + enc_path(segs + ["sb", "cache", dbad[:16] + ".oct.md"]) + "|f|" + enc_str(orc[1][0])
        tbl = " ".join(enc_str(b) + "=" + enc_str(h) for b, h in orc)
        lines = [ents]
        for ref, *_ in fu["frozen"]:
            lines.append("rfrozen " + enc_path(segs + ["sb", "cache"]) + " " + enc_str(ref) + " " + tbl)
        for u, *_ in fu["uris"]:
            lines.append("uri " + enc_path(segs + ["sb"]) + " " + enc_str(u))
        mres = run_driver("pathm", lines)[1:]
    else:
        mres = None
    for i, (ref, oc, okhash, parent_ok, esc) in enumerate(fu["frozen"]):
        ctx.count()
        ctx.hist("frozen", "resolved" if oc.startswith("{B}") else oc.split(":")[0])
        case = {"frozen_ref": ref, "outcome": oc}
        if oc.startswith("{B}"):
            ctx.nontrivial(("frozen", ref))
            want = ref[len("frozen@sha256:"):].lower() if ref.startswith("frozen@sha256:") else None
            if ref != "latest" and (not parent_ok or okhash != want):
                ctx.property_failure(case, "frozen reference resolved to a file outside the cache or with a different digest")
        if esc:
            ctx.property_failure(dict(case, touched=esc), "frozen reference made the resolver read outside the cache directory")
        if mres is not None and ref != "latest":
            m = mres[i]
            mm = "REFUSED" if m == "NONE" else dec_path(m).replace(base, "{B}")
            if mm != oc:
                ctx.correspondence_failure(dict(case, model=mm), "resolve_hermetic_standard differs from the model")
    off = len(fu["frozen"])
    for i, (u, oc, inside) in enumerate(fu["uris"]):
        ctx.count()
        ctx.hist("source_uri", oc.split(" ")[0].split(":")[0])
        case = {"source_uri": u, "outcome": oc}
        if oc.startswith("OK"):
            ctx.nontrivial(("uri", u))
            if not inside:
                ctx.property_failure(case, "source URI resolved outside its base directory")
        if mres is not None:
            m = mres[off + i]
            mm = ("OK " + dec_path(m.split(" ")[1]).replace(base, "{B}")) if m.startswith("OK") else m
            impl_u = "RAISE" if oc.startswith("RAISE") else oc
            cyc = mm == "RAISE" or oc.startswith("RAISE:RuntimeError")
            if mm != impl_u and cyc and ".." in u.split("/") and (mm in ("RAISE", "REFUSED")):
                # a link cycle followed by '..' (possibly swallowing a NUL component): CPython normalises the unresolved remainder
                ctx.hist("out_of_model", "source URI: cycle followed by '..' (CPython resolve returns, model raises)")
            elif mm != ("RAISE" if oc.startswith("RAISE") else oc):
                ctx.correspondence_failure(dict(case, model=mm), "validate_source_uri differs from the model")
    ctx.sample({"frozen": [(r, o) for r, o, *_ in fu["frozen"][:6]]})
    ctx.sample({"source_uri": [(u, o) for u, o, _ in fu["uris"][:8]]})
    ctx.assumptions += [
        "file-system model: tree of dirs/files/links; kernel walk with at most 40 followed links, NAME_MAX 255 code points (ASCII names in the generators), total path below PATH_MAX; validated against pathlib on every generated (tree, path) (os_model_checked / os_model_disagreements)",
        "Path.resolve(strict=False): a resolution needing more than 200 link expansions is treated as a cycle (out of model; CPython would resolve it or hit its recursion limit)",
        "os.getcwd() returns a normalised absolute path; no concurrent modification of the tree between the validator and the write block (races are C16/C17)",
        "refused_before_io is about the call-site order extracted by the translator (helper calls before the validator call site are IO-free: checked at run time by the interposition record, not proved)",
        "SHA-256 is an oracle passed as a table to the model (resolve_frozen)",
        "the /private carve-out (first path component resolving below /private/) is in the model and in the theorem statement; it cannot be exercised on this host without writing to /",
    ]
    ctx.trusted_base += ["interposition of os.* / builtins.open in the child process and os.walk snapshots (harness/props/c19.py)"]
