"""C19 -- tools cannot be steered outside the intended files.

Run order: corpus (incl. the witnesses of the FIXED finding C19-unstattable-symlink-last, repo fix 039cc0c: they must
be refused with nothing created/replaced) -> model-of-OS check (model `resolve`/`exists`/`is_symlink` vs pathlib on
real trees) -> correspondence (validator verdict + refusing check per tool vs the extracted model) -> the property
itself on the implementation (independent of the model): snapshot before/after + interposed record of os.* / open.
Then schema names (exhaustive small scope), frozen references, source URIs.
"""
from __future__ import annotations

import hashlib
import itertools
import json
import multiprocessing as mp
import os
import shutil
import sys
import tempfile

from lib.core import REPO, SRC, VERIF
from lib.model import enc_str, run_driver

LEVEL = "proof"
DRIVERS = ["pathm"]
# No known finding is left for C19.  The former C19-unstattable-symlink-last (links for which stat fails were accepted
# because the link test was `exists() and is_symlink()`) was repaired in /repo by 039cc0c; its witnesses are corpus
# cases with "expect": "refused" and a path with such a link that is not refused is an unattributed failure again.
FIXED_BY = "039cc0c"
FALLBACK_PREFIXES = [("Path traversal not allowed (..)", "DOTDOT"), ("Invalid path: ", "RESOLVE"),
                     ("Symlinks in path are not allowed for security reasons", "SYMLINK"), ("Symlink in path not allowed for security reasons", "SYMLINK"),
                     ("Path resolution failed: ", "RESOLVE"), ("Invalid file extension. Allowed: ", "EXT")]
# source URIs: CPython's realpath stops at a symlink loop and returns the remaining components UNRESOLVED (then normalised
# lexically), so a link inside the base that points outside could pass the containment check.  History:
#  * validate_source_uri did ONE resolution step (finding C19-source-uri-cycle-dotdot); ea316ac added os.path.realpath of the
#    result, which can stop at a loop again (finding C19-source-uri-second-loop); _check_single_snapshot still did one step
#    (finding C19-staleness-cycle-dotdot);  3bf4eb7: both use _resolve_without_links, which refuses any result with a link in a
#    component.  All three are `fixed:` now; their witnesses are corpus/C19/uri-cycle-*.json (expect: refused on every surface).
# The ids below are only used if such a record is listed again (nothing is attributed to an id that is not `known`);
# attribution would be by the step that stops: posixpath._joinrealpath (the interpreter's own function, used as an oracle)
# returns ok=False for the input of that surface's LAST resolution step.
URI2_FINDING = "C19-source-uri-second-loop"
URI2_WITNESS = ("sb", "loop.md/../k2")
STALE_FINDING = "C19-staleness-cycle-dotdot"
STALE_WITNESS = ("sb", "loop.md/../lf.md")

DOC = "===D===\nA::1\n===END===\n"
NEWDOC = "===D===\nA::2\n===END===\n"
# every file OUTSIDE a sandbox carries this marker; it must never appear in anything a tool returns
MARKER = "C19MARKER7f3a9c51"
SECRET = "===SECRET===\nK::\"outside-" + MARKER + "\"\n===END===\n"
# octave_write modes: content / normalize (neither content nor changes) / changes, each also as dry run (corrections_only)
W_MODES = {
    "w": {"content": NEWDOC}, "wd": {"content": NEWDOC, "corrections_only": True},
    "wn": {}, "wnd": {"corrections_only": True},
    "wc": {"changes": {"A": 3}}, "wcd": {"changes": {"A": 3}, "corrections_only": True},
}
LONG = "A" * 300 + ".md"
ALLOWED = (".oct.md", ".octave", ".md")


# ------------------------------------------------------------------------------------------------
# trees
# ------------------------------------------------------------------------------------------------
def tree_spec(variant: int, base: str):
    """[(relpath, kind, payload)] below `base`; links use absolute targets in odd variants."""
    def tgt(rel_from_sb, absolute):
        return absolute if variant % 2 else rel_from_sb
    t = [
        ("sb", "d", ""), ("out", "d", ""), ("out/secret.md", "f", SECRET), ("out/sd", "d", ""),
        ("out/sd/s2.oct.md", "f", SECRET),
        ("sb/d", "d", ""), ("sb/d/f.md", "f", DOC), ("sb/d/e", "d", ""), ("sb/d/e/h.octave", "f", DOC),
        ("sb/f.md", "f", DOC), ("sb/n.txt", "f", "x"), ("sb/U.MD", "f", DOC), ("sb/a.tar.md", "f", DOC),
        ("sb/b.oct.md.bak", "f", DOC), ("sb/g.oct.md", "f", DOC),
        ("sb/ld", "l", tgt("../out", base + "/out")),
        ("sb/ldi", "l", "d"),
        ("sb/lf.md", "l", tgt("../out/secret.md", base + "/out/secret.md")),
        ("sb/lfi.md", "l", "f.md"),
        ("sb/dang.md", "l", tgt("../out/nothing.md", base + "/out/nothing.md")),
        ("sb/dangd", "l", tgt("../out/nodir", base + "/out/nodir")),
        ("sb/loop.md", "l", "loop.md"),
        ("sb/la.md", "l", "lb.md"), ("sb/lb.md", "l", "la.md"),
        ("sb/d/up.md", "l", tgt("../../out/secret.md", base + "/out/secret.md")),
        ("sb/d/ldd", "l", ".."),
        ("sb/nd.md", "l", "f.md/x"),
        ("sb/l2.md", "l", "lfi.md"),
    ]
    if variant == 1:
        # pre-existing entries beside two write targets, named after them, each a link leaving the sandbox (see sibling_ops)
        import random
        r = random.Random(17)
        t += [("out/sibs", "d", ""), ("out/sibdir", "d", "")]
        for nm in ("new.md", "f.md"):
            for op in sibling_ops("sb", nm, r, nm.split(".")[0])[2:][:22]:
                if op[0] == "f":
                    t.append((op[1], "f", op[2]))
                elif op[0] == "l":
                    t.append((op[1], "l", op[2].replace("{H}", base)))
    if variant >= 2:
        t += [("sb/d/e/deep.md", "l", "../../../out/sd/s2.oct.md"), ("sb/d/dang2.octave", "l", "nowhere/x.octave"),
              ("sb/lsd", "l", tgt("../out/sd", base + "/out/sd"))]
        # link chains at the kernel's limit: ch/k0.md needs 40 follows (ok), ch2/k0.md needs 41 (ELOOP)
        t += [("sb/ch", "d", ""), ("sb/ch2", "d", "")]
        t += [("sb/ch/k%d.md" % i, "l", "k%d.md" % (i + 1)) for i in range(39)] + [("sb/ch/k39.md", "l", "../f.md")]
        t += [("sb/ch2/k%d.md" % i, "l", "k%d.md" % (i + 1)) for i in range(40)] + [("sb/ch2/k40.md", "l", "../f.md")]
    return t


def build_tree(base: str, spec):
    for rel, kind, payload in spec:
        p = os.path.join(base, rel)
        if kind == "d":
            os.makedirs(p, exist_ok=True)
        elif kind == "f":
            with open(p, "w", encoding="utf-8") as f:
                f.write(payload)
        else:
            os.symlink(payload, p)


def wipe_tree(base: str):
    for n in os.listdir(base):
        p = os.path.join(base, n)
        if os.path.isdir(p) and not os.path.islink(p):
            shutil.rmtree(p)
        else:
            os.unlink(p)


def snapshot(base: str):
    out = {}
    for dirpath, dirnames, filenames in os.walk(base):
        for n in dirnames + filenames:
            p = os.path.join(dirpath, n)
            st = os.lstat(p)
            rel = os.path.relpath(p, base)
            if os.path.islink(p):
                out[rel] = ("l", os.readlink(p), st.st_mtime_ns, st.st_ino)
            elif os.path.isdir(p):
                out[rel] = ("d", "", 0, st.st_ino)
            else:
                with open(p, "rb") as f:
                    out[rel] = ("f", f.read(), st.st_mtime_ns, st.st_ino)
    return out


def snap_diff(a, b):
    d = []
    for k in sorted(set(a) | set(b)):
        if a.get(k) != b.get(k):
            x, y = a.get(k), b.get(k)
            d.append((k, x[0] if x else "-", y[0] if y else "-"))
    return d


# ------------------------------------------------------------------------------------------------
# interposition (installed in the worker process; records only while REC is a list)
# ------------------------------------------------------------------------------------------------
REC = None
META, READ, MUT = "meta", "read", "mutate"


_INSTALLED = False


def _install_interposition():
    global _INSTALLED
    if _INSTALLED:          # pool processes are reused: wrap once
        return
    _INSTALLED = True
    import builtins
    import io

    def wrap(mod, name, cls, argidx=(0,)):
        orig = getattr(mod, name)

        def w(*a, **k):
            rec = REC
            if rec is None:
                return orig(*a, **k)
            c = cls
            if name == "open" and mod in (builtins, io):
                mode = a[1] if len(a) > 1 else k.get("mode", "r")
                c = MUT if any(ch in str(mode) for ch in "wax+") else READ
            if name == "open" and mod is os:
                flags = a[1] if len(a) > 1 else k.get("flags", 0)
                c = MUT if flags & (os.O_WRONLY | os.O_RDWR | os.O_CREAT | os.O_TRUNC | os.O_APPEND) else READ
            args = []
            for i in argidx:
                if i < len(a):
                    try:
                        args.append(os.fspath(a[i]) if not isinstance(a[i], int) else "<fd>")
                    except TypeError:
                        args.append(repr(a[i])[:40])
            try:
                r = orig(*a, **k)
            except BaseException as e:
                rec.append((name, c, False, args, type(e).__name__))
                raise
            rec.append((name, c, True, args, ""))
            return r
        setattr(mod, name, w)

    for nm in ("stat", "lstat", "readlink", "listdir", "scandir", "access"):
        wrap(os, nm, META)
    for nm in ("mkdir", "makedirs", "unlink", "remove", "rmdir", "chmod", "truncate", "utime", "symlink", "link", "chown"):
        wrap(os, nm, MUT)
    for nm in ("replace", "rename"):
        wrap(os, nm, MUT, (0, 1))
    wrap(os, "open", READ)
    wrap(builtins, "open", READ)
    io.open = builtins.open
    import pathlib
    if hasattr(pathlib, "io"):
        pathlib.io.open = builtins.open


# ------------------------------------------------------------------------------------------------
# worker: one tree, one cwd, many path strings
# ------------------------------------------------------------------------------------------------
def _msg_reason(msg, prefixes):
    for pre, r in prefixes:
        if msg.startswith(pre):
            return r
    return "?"


def _features(p: str, cwd: str):
    """Independent (no pathlib) reading of the property text on the real file system, before the call."""
    comps = p.split("/")
    has_dotdot = ".." in comps
    norm = [c for c in comps if c not in ("", ".")]
    name = norm[-1] if norm else ""
    bad_ext = not any(name.endswith(e) and len(name) > len(e) for e in ALLOWED)
    start = [] if p.startswith("/") else [c for c in cwd.split("/") if c]
    links = []
    cur = "/"
    allc = start + norm
    for i, c in enumerate(allc):
        cur = os.path.join(cur, c)
        try:
            if os.path.islink(cur):
                try:
                    os.stat(cur)
                    statable = True
                except OSError:
                    statable = False
                links.append((i - len(allc), statable))      # position from the end (-1 = last)
        except ValueError:
            break
    return {"dotdot": has_dotdot, "bad_ext": bad_ext, "links": links}


def _observe(p):
    """model-of-OS observations (pathlib on the real tree, current cwd): resolve() and exists/is_symlink/is_dir."""
    from pathlib import Path
    try:
        res = str(Path(p).absolute().resolve(strict=False))
    except Exception:  # noqa
        res = "ERR"
    try:
        ex = "T" if Path(p).absolute().exists() else "F"
    except OSError:
        ex = "R"
    try:
        sl = "1" if Path(p).absolute().is_symlink() else "0"     # lstat: a dangling link IS a link
    except OSError:
        sl = "R"
    try:
        dr = "1" if Path(p).absolute().is_dir() else "0"
    except OSError:
        dr = "?"
    return res, ex + sl + dr


def _one_call(tool, p, env):
    """One interposed call of a tool surface on path string `p` in the CURRENT process / tree / cwd.
    env: wt, vt (tool objects living as long as the worker), file_ops, prefixes, base (snapshot root), cwd, sandboxes
    (absolute directories inside which mutations are allowed), optional cli (click group) ."""
    global REC
    import asyncio
    base, cwd, prefixes, file_ops = env["base"], env["cwd"], env["prefixes"], env["file_ops"]
    before = env.get("snap") or snapshot(base)      # the harness only reads between two calls: reuse the previous `after`
    REC = []
    resp = None
    try:
        if tool in W_MODES:
            resp = r = asyncio.run(env["wt"].execute(target_path=p, **W_MODES[tool]))
            errs = r.get("errors") or []
            if r.get("status") == "success":
                oc = "ACCEPT:success"
            elif errs and errs[0].get("code") == "E_PATH":
                oc = "E_PATH:" + _msg_reason(errs[0].get("message", ""), prefixes["write"])
            else:
                oc = "ACCEPT:" + (errs[0].get("code", "?") if errs else "?")
        elif tool == "v":
            resp = r = asyncio.run(env["vt"].execute(file_path=p, schema="META"))
            errs = r.get("errors") or []
            code = errs[0].get("code") if errs and isinstance(errs[0], dict) else None
            if code == "E_PATH":
                oc = "E_PATH:" + _msg_reason(errs[0].get("message", ""), prefixes["validate"])
            elif code in ("E_FILE", "E_READ"):
                oc = "ACCEPT:" + code
            else:
                oc = "ACCEPT:read"
        elif tool == "vp":      # the bare verdict function used by the CLI and by atomic_write_octave
            ok, msg = file_ops.validate_octave_path(p)
            oc = "ACCEPT:valid" if ok else "E_PATH:" + _msg_reason(msg or "", prefixes["fileops"])
        elif tool in ("cli", "clic"):   # `octave write FILE --content ... | --changes ...` in-process (same interpreter state as an embedding)
            from click.testing import CliRunner
            r = CliRunner().invoke(env["cli"], ["write", p] + (["--content", NEWDOC] if tool == "cli" else ["--changes", '{"A": 3}']))
            text = (r.output or "")
            try:
                text += r.stderr or ""
            except (ValueError, AttributeError):
                pass
            resp = text
            if r.exit_code == 0:
                oc = "ACCEPT:success"
            else:
                rs = "?"
                for line in text.splitlines():
                    if line.startswith("Error: "):
                        rs = _msg_reason(line[len("Error: "):], prefixes["fileops"])
                        if rs != "?":
                            break
                oc = ("E_PATH:" + rs) if rs != "?" else "ACCEPT:error"
        else:
            resp = r = file_ops.atomic_write_octave(p, NEWDOC)
            if r.get("status") == "success":
                oc = "ACCEPT:success"
            else:
                rs = _msg_reason(r.get("error", ""), prefixes["fileops"])
                oc = ("E_PATH:" + rs) if rs != "?" else "ACCEPT:error"
    except BaseException as e:  # noqa
        oc = "ACCEPT:EXC:" + type(e).__name__
    ops = REC
    REC = None
    after = snapshot(base)
    env["snap"] = after
    diff = snap_diff(before, after)
    try:
        leak = MARKER in (resp if isinstance(resp, str) else json.dumps(resp, default=str, ensure_ascii=False))
    except Exception:  # noqa
        leak = MARKER in repr(resp)
    io_ops = [(n, c, a) for (n, c, ok, a, _e) in ops if ok and c in (READ, MUT)]
    tried = [(n, c, a, e) for (n, c, ok, a, e) in ops if (not ok) and c in (READ, MUT)]
    sand = env["sandboxes"]
    sand_rel = [os.path.relpath(sd, base) for sd in sand]
    outside = []
    for (n, c, a) in io_ops:
        if c == MUT:
            for x in a:
                if x != "<fd>":
                    ax = os.path.join(cwd, x)
                    rp = os.path.realpath(os.path.dirname(ax.rstrip("/")) or "/")
                    if not any((rp + "/").startswith(sd + "/") for sd in sand):
                        outside.append((n, x.replace(base, "{B}")))
    try:
        tp = os.path.join(cwd, p)
        tkind = ("l" if os.path.islink(tp) else "d" if os.path.isdir(tp) else "f") if os.path.lexists(tp) else None
    except ValueError:
        tkind = None
    return {
        "target_kind": tkind,
        "outcome": oc, "diff": diff, "n_meta": sum(1 for o in ops if o[1] == META),
        "io": [(n, c, [x.replace(base, "{B}") for x in a]) for (n, c, a) in io_ops][:8],
        "tried": [(n, c, [x.replace(base, "{B}") for x in a], e) for (n, c, a, e) in tried][:6],
        "outside": outside, "leak": leak,
        "out_changed": any(not any(k == sr or k.startswith(sr + "/") for sr in sand_rel) for k, _, _ in diff),
    }


def worker(job):
    global REC
    variant, cwd_rel, paths, tools, prefixes, mutate = job["variant"], job["cwd"], job["paths"], job["tools"], job["prefixes"], job.get("mutate")
    sys.path.insert(0, str(REPO / "src"))
    _install_interposition()
    import asyncio
    from pathlib import Path
    from octave_mcp.core import file_ops
    from octave_mcp.mcp.validate import ValidateTool
    from octave_mcp.mcp.write import WriteTool
    if mutate:
        _apply_mutation(mutate)
    base = os.path.realpath(tempfile.mkdtemp(prefix="c19_"))
    results = []
    try:
        spec = tree_spec(variant, base)
        build_tree(base, spec)
        cwd = os.path.join(base, cwd_rel)
        os.chdir(cwd)
        from octave_mcp.cli.main import cli
        env = {"wt": WriteTool(), "vt": ValidateTool(), "file_ops": file_ops, "prefixes": prefixes, "base": base, "cwd": cwd,
               "sandboxes": [base + "/sb"], "cli": cli}
        for praw in paths:
            p = praw.replace("{B}", base)
            rec = {"path": praw}
            # safety: the file named by the string (lexically and as the kernel resolves it) must lie inside the scratch tree
            try:
                tgt_lex = os.path.normpath(os.path.join(cwd, p))
                tgt_real = os.path.realpath(os.path.join(cwd, p))
                safe = all((t + "/").startswith(base + "/") for t in (tgt_lex, tgt_real))
            except ValueError:
                safe = True     # embedded NUL: no file can be named
            if not safe:
                results.append({"path": praw, "skipped": "names a file outside the scratch tree"})
                continue
            rec["res"], rec["st"] = _observe(p)
            rec["feat"] = _features(p, cwd)
            rec["calls"] = {}
            for tool in tools:
                if tool in ("cli", "clic") and "\x00" in p:
                    continue            # a NUL cannot be passed in argv (click raises ValueError before the command body runs)
                rec["calls"][tool] = c = _one_call(tool, p, env)
                diff = c["diff"]
                if diff:
                    os.chdir("/")
                    wipe_tree(base)
                    build_tree(base, spec)
                    os.chdir(cwd)
                    env["snap"] = None
            results.append(rec)
        return {"base": base, "variant": variant, "cwd": cwd_rel, "results": results}
    finally:
        os.chdir("/")
        shutil.rmtree(base, ignore_errors=True)


def _apply_mutation(kind):
    """Self-test only (VERIF_C19_MUTATE): perturb the implementation in the worker, never /repo."""
    from octave_mcp.core import file_ops
    from octave_mcp.mcp import validate as v
    from octave_mcp.mcp import write as w
    if kind == "ext":
        for o in (w.WriteTool, v.ValidateTool):
            o.ALLOWED_EXTENSIONS = {".oct.md", ".octave", ".md", ".txt"}
        file_ops.ALLOWED_EXTENSIONS = {".oct.md", ".octave", ".md", ".txt"}
    elif kind == "nosymlink":
        import pathlib
        w.Path = type("P", (pathlib.PosixPath,), {"is_symlink": lambda self: False})


# ------------------------------------------------------------------------------------------------
# path strings
# ------------------------------------------------------------------------------------------------
DIRLIKE = ["d", "e", "ld", "ldi", "dangd", "ldd", ".", "..", "", "newd", "f.md", "lsd", "loop.md"]
LAST = ["f.md", "n.txt", "U.MD", "a.tar.md", "b.oct.md.bak", "g.oct.md", "h.octave", "lf.md", "lfi.md", "dang.md",
        "loop.md", "la.md", "up.md", "nd.md", "l2.md", "deep.md", "dang2.octave", "new.md", "new.oct.md", "new.octave",
        "x.OCT.MD", "y.tar.gz", "v.md.", "..md", ".md", "md", "x\x00.md", LONG, "d", "ld", "ldi", "dangd", ".", "..", "",
        "newd", "ldd", "e", "lsd"]


def gen_paths(ctx, n_random):
    rng = ctx.rng
    out = []
    for s in LAST:
        out.append(s)
    for a in DIRLIKE:
        for b in LAST:
            out.append(a + "/" + b)
    for _ in range(n_random):
        k = rng.choice((3, 3, 4, 4, 2))
        segs = [rng.choice(DIRLIKE) for _ in range(k - 1)] + [rng.choice(LAST)]
        s = "/".join(segs)
        if rng.random() < 0.15:
            s += "/"
        out.append(s)
    seen, uniq = set(), []
    for s in out:
        if s.startswith("/"):
            continue            # a leading empty segment would make the string absolute at the real root
        if s not in seen:
            seen.add(s)
            uniq.append(s)
    return uniq


def seg_class(p):
    cs = p.split("/")
    tags = set()
    for c in cs:
        if c == "..":
            tags.add("dotdot")
        elif c == ".":
            tags.add("dot")
        elif c == "":
            tags.add("empty")
        elif c in ("ld", "ldi", "ldd", "lsd"):
            tags.add("link-dir")
        elif c in ("lf.md", "lfi.md", "up.md", "l2.md", "deep.md"):
            tags.add("link-file")
        elif c in ("dang.md", "dangd", "nd.md", "dang2.octave"):
            tags.add("dangling")
        elif c in ("loop.md", "la.md"):
            tags.add("loop")
        elif "\x00" in c:
            tags.add("nul")
        elif len(c) > 255:
            tags.add("long")
    return ",".join(sorted(tags)) or "plain"


# ------------------------------------------------------------------------------------------------
# model side
# ------------------------------------------------------------------------------------------------
def enc_path(segs):
    return "/".join(enc_str(s) for s in segs) if segs else "@"


def fs_line(base, spec):
    ents = []
    segs = [c for c in base.split("/") if c]
    for i in range(1, len(segs) + 1):
        ents.append(enc_path(segs[:i]) + "|d|-")
    for rel, kind, payload in spec:
        ents.append(enc_path(segs + rel.split("/")) + "|" + kind + "|" + enc_str(payload if kind == "l" else "x"))
    return "fs " + " ".join(ents)


def dec_path(tok):
    if tok == "@":
        return "/"
    return "/" + "/".join("".join(chr(int(x)) for x in s.split(".")) for s in tok.split("/"))


def model_batch(batch):
    base = batch["base"]
    spec = tree_spec(batch["variant"], base)
    lines = [fs_line(base, spec), "cwd " + enc_path([c for c in (base + "/" + batch["cwd"]).split("/") if c])]
    for r in batch["results"]:
        e = enc_str(r["path"].replace("{B}", base))
        lines += [f"val w {e}", f"val v {e}", f"val f {e}", f"res {e}", f"st {e}", f"late {e}"]
    res = run_driver("pathm", lines)
    out = []
    for i, r in enumerate(batch["results"]):
        w, v, f, rs, st, late = res[2 + 6 * i: 8 + 6 * i]
        out.append({"w": w, "v": v, "f": f, "res": "ERR" if rs.startswith("ERR") else dec_path(rs.split(" ")[1]), "st": st, "late": late,
                    "loop": rs == "ERR LOOP"})
    return out


def model_expect(mv):
    return "ACCEPT" if mv == "OK" else "E_PATH:" + mv[2:]


# ------------------------------------------------------------------------------------------------
# schema names, frozen refs, source URIs
# ------------------------------------------------------------------------------------------------
def schema_names(ctx, have_model):
    sys.path.insert(0, str(REPO / "src"))
    from pathlib import Path
    from octave_mcp.schemas import loader
    alpha = ["A", "Z", "a", "9", "_", ".", "/", "-", "\n", "\\", "\u00c9", "\u212a"]
    maxlen = ctx.scale(4, 5)
    names = [""]
    for k in range(1, maxlen + 1):
        names += ["".join(t) for t in itertools.product(alpha, repeat=k)]
    rng = ctx.rng
    for _ in range(ctx.scale(3000, 60000)):
        k = rng.choice((5, 6))
        names.append("".join(rng.choice(alpha + ["A", "B", "_", "0"]) for _ in range(k)))
    names += ["META", "META\n", "META\n\n", "\nMETA", "SESSION_LOG", "../META", "META/../X", "A" * 6, "M\r", "M\x00", "M\u2028"]
    ctx.extra["schema_name_strings"] = len(names)
    mres = run_driver("pathm", ["name " + enc_str(n) for n in names]) if have_model else None
    d = Path("/S/dir")
    acc = 0
    for i, n in enumerate(names):
        impl_ok = bool(loader.SCHEMA_NAME_PATTERN.match(n))
        ctx.count()
        if impl_ok:
            acc += 1
            ctx.nontrivial(("schema", n))
            files = [f"{n.lower()}.oct.md", f"{n}.oct.md"]
            for f in files:
                cand = d / f
                if cand.parent != d or "/" in f or f in ("..", "."):
                    ctx.property_failure({"schema_name": n, "file": f, "candidate": str(cand)},
                                         "schema name accepted by SCHEMA_NAME_PATTERN selects a file outside the schema directory")
        if mres is not None:
            m = mres[i].split(" ")
            if (m[0] == "1") != impl_ok:
                ctx.correspondence_failure({"schema_name": n, "impl": impl_ok, "model": mres[i]}, "SCHEMA_NAME_PATTERN.match differs from model name_ok")
            elif impl_ok:
                mf = ["".join(chr(int(x)) for x in t.split(".")) for t in m[1:]]
                if mf != files:
                    ctx.correspondence_failure({"schema_name": n, "impl": files, "model": mf}, "schema file names differ from model")
    ctx.hist("schema_names", "accepted", acc)
    ctx.hist("schema_names", "refused", len(names) - acc)
    ctx.sample({"schema_name": "META\n", "accepted": bool(loader.SCHEMA_NAME_PATTERN.match("META\n")),
                "candidate": str(d / "meta\n.oct.md"), "parent_is_dir": (d / "meta\n.oct.md").parent == d})


def schema_end_to_end(job):
    """load_schema_by_name under interposition in a project directory with decoys: every path touched lies in a search dir."""
    global REC
    sys.path.insert(0, str(REPO / "src"))
    _install_interposition()
    from octave_mcp.schemas import loader
    base = os.path.realpath(tempfile.mkdtemp(prefix="c19s_"))
    out = []
    try:
        os.makedirs(base + "/proj/specs/schemas")
        os.makedirs(base + "/secret")
        schema_doc = "===DECOY===\nMETA:\n  TYPE::\"X\"\n  VERSION::\"1\"\n===END===\n"
        for p in ("/proj/specs/schemas/decoy.oct.md", "/proj/specs/schemas/meta\n.oct.md", "/secret/decoy.oct.md", "/proj/decoy.oct.md"):
            with open(base + p, "w") as f:
                f.write(schema_doc)
        os.chdir(base + "/proj")
        dirs = [str(p) for p in loader.get_schema_search_paths()]
        pk = os.path.dirname(os.path.dirname(loader.__file__))
        cands = [pk + "/resources/specs/schemas", base + "/proj/src/octave_mcp/resources/specs/schemas",
                 base + "/proj/specs/schemas", os.path.dirname(loader.__file__) + "/builtin"]
        for n in job["names"]:
            REC = []
            try:
                r = loader.load_schema_by_name(n)
                oc = "none" if r is None else "loaded"
            except BaseException as e:  # noqa
                oc = "EXC:" + type(e).__name__
            ops = REC
            REC = None
            touched = [a[0] for (nm, c, ok, a, _e) in ops if a and a[0] != "<fd>"]
            bad = [t for t in touched if os.path.dirname(t) not in cands and t not in cands]
            out.append((n, oc, len(ops), bad, bool(loader.SCHEMA_NAME_PATTERN.match(n))))
        return {"dirs": [d.replace(base, "{B}") for d in dirs], "res": out}
    finally:
        os.chdir("/")
        shutil.rmtree(base, ignore_errors=True)


def frozen_and_uri(job):
    global REC
    sys.path.insert(0, str(REPO / "src"))
    _install_interposition()
    from pathlib import Path
    from octave_mcp.core import hydrator
    from octave_mcp.core.parser import parse
    base = os.path.realpath(tempfile.mkdtemp(prefix="c19f_"))
    try:
        spec = tree_spec(2, base) + sibling_spec(base)
        build_tree(base, spec)
        cache = base + "/sb/cache"
        os.mkdir(cache)
        good = b"===STD===\nA::1\n===END===\n"
        bad = b"===STD===\nA::2\n===END===\n"
        dg = hashlib.sha256(good).hexdigest()
        dbad = hashlib.sha256(b"other").hexdigest()
        files = {dg[:16] + ".oct.md": good, dbad[:16] + ".oct.md": bad}
        for n, b in files.items():
            with open(os.path.join(cache, n), "wb") as f:
                f.write(b)
        with open(base + "/out/" + dg[:16] + ".oct.md", "wb") as f:
            f.write(good)
        refs = job["refs"](dg, dbad) if callable(job.get("refs")) else frozen_refs(dg, dbad)
        fro = []
        for ref in refs:
            REC = []
            try:
                p = hydrator.resolve_hermetic_standard(ref, cache_dir=Path(cache))
                oc = str(p).replace(base, "{B}")
                byts = open(p, "rb").read()
                okhash = hashlib.sha256(byts).hexdigest()
                parent_ok = os.path.dirname(str(p)) == cache
            except hydrator.VocabularyError:
                oc, okhash, parent_ok = "REFUSED", None, True
            except BaseException as e:  # noqa
                oc, okhash, parent_ok = "EXC:" + type(e).__name__, None, True
            ops = REC
            REC = None
            touched = [a[0] for (nm, c, ok, a, _e) in ops if c in (READ, MUT) and a and a[0] != "<fd>"]
            esc = [t.replace(base, "{B}") for t in touched if os.path.dirname(t) != cache]
            fro.append((ref, oc, okhash, parent_ok, esc))
        # ---- content cases: one cache directory per case, the file is named after the pinned digest ----
        froc = []
        home = base + "/home"
        std = home + "/.octave/standards"
        os.makedirs(std)
        old_home = os.environ.get("HOME")
        os.environ["HOME"] = home
        from octave_mcp.mcp.write import WriteTool
        import asyncio
        wt = WriteTool()
        try:
            for k, (label, P, X) in enumerate(frozen_content_cases(job.get("seed", 0), job.get("n_random", 40))):
                D = hashlib.sha256(P).hexdigest()
                ref = "frozen@sha256:" + D
                cdir = base + "/sb/fz/%d" % k
                os.makedirs(cdir)
                fname = D[:16] + ".oct.md"
                with open(cdir + "/" + fname, "wb") as f:
                    f.write(X)
                REC = []
                try:
                    p = hydrator.resolve_hermetic_standard(ref, cache_dir=Path(cdir))
                    oc = str(p).replace(base, "{B}")
                    with open(p, "rb") as f:
                        real_hash = hashlib.sha256(f.read()).hexdigest()
                except hydrator.VocabularyError:
                    oc, real_hash = "REFUSED", None
                except BaseException as e:  # noqa
                    oc, real_hash = "EXC:" + type(e).__name__, None
                REC = None
                # octave_write(schema=frozen@sha256:D) with this file in the default cache ~/.octave/standards
                ow = None
                if len(X) < 4000 or k % 3 == 0:
                    with open(std + "/" + fname, "wb") as f:
                        f.write(X)
                    tgt = base + "/sb/fzdoc.oct.md"
                    try:
                        r = asyncio.run(wt.execute(target_path=tgt, content=PINNED_DOC, schema=ref))
                        ow = {"status": r.get("status"), "validation_status": r.get("validation_status"), "schema_name": r.get("schema_name")}
                    except BaseException as e:  # noqa
                        ow = {"status": "EXC:" + type(e).__name__, "validation_status": None, "schema_name": None}
                    os.unlink(std + "/" + fname)
                    if os.path.exists(tgt):
                        os.unlink(tgt)
                froc.append({"k": k, "label": label, "digest": D, "file_sha256": hashlib.sha256(X).hexdigest(), "len": len(X), "outcome": oc,
                             "returned_file_sha256": real_hash, "octave_write": ow,
                             "pinned_l1": P.decode("latin-1"), "file_l1": X.decode("latin-1")})
            # ---- hash histories: the SAME reference resolved again, in this process, after the file changed on disk ----
            hdoc = parse(HYDRATED.replace("{uri}", "placeholder"))
            hnodes = {getattr(ch, "key", None): ch for sec in hdoc.sections if getattr(sec, "key", None) == "MANIFEST"
                      for ch in getattr(sec, "children", [])}
            assert "SOURCE_URI" in hnodes and "SOURCE_HASH" in hnodes, "hydrated template: manifest fields"
            hhist = []
            for hi, steps in enumerate(job.get("hash_histories", [])):
                P = PINNED + ("// history %d\n" % hi).encode()
                D = hashlib.sha256(P).hexdigest()
                ref = "frozen@sha256:" + D
                fname = D[:16] + ".oct.md"
                cdir = base + "/sb/fh/%d" % hi
                vdir = base + "/sb/hv%d" % hi
                os.makedirs(cdir)
                os.makedirs(vdir)
                files = {"resolve_hermetic_standard": cdir + "/" + fname, "octave_write": std + "/" + fname,
                         "check_staleness": vdir + "/vocab.oct.md"}
                stamp = {}
                recs = []
                for si, (content, method) in enumerate(steps):
                    X = hash_history_bytes(P, content)
                    for fpath in files.values():
                        put_bytes(fpath, X, method, stamp)
                    actual = hashlib.sha256(X).hexdigest()
                    out_step = {"content": content, "method": method, "file_sha256": actual, "len": len(X), "matches": actual == D}
                    # compute_vocabulary_hash itself (what every hash-verified surface relies on)
                    try:
                        out_step["compute_vocabulary_hash"] = hydrator.compute_vocabulary_hash(Path(files["resolve_hermetic_standard"]))
                    except BaseException as e:  # noqa
                        out_step["compute_vocabulary_hash"] = "EXC:" + type(e).__name__
                    try:
                        pth = hydrator.resolve_hermetic_standard(ref, cache_dir=Path(cdir))
                        with open(pth, "rb") as f:
                            out_step["resolve"] = {"outcome": str(pth).replace(base, "{B}"), "returned_file_sha256": hashlib.sha256(f.read()).hexdigest()}
                    except hydrator.VocabularyError:
                        out_step["resolve"] = {"outcome": "REFUSED", "returned_file_sha256": None}
                    except BaseException as e:  # noqa
                        out_step["resolve"] = {"outcome": "EXC:" + type(e).__name__, "returned_file_sha256": None}
                    tgt = base + "/sb/fhdoc.oct.md"
                    try:
                        r = asyncio.run(wt.execute(target_path=tgt, content=PINNED_DOC, schema=ref))
                        out_step["octave_write"] = {"status": r.get("status"), "validation_status": r.get("validation_status"), "schema_name": r.get("schema_name")}
                    except BaseException as e:  # noqa
                        out_step["octave_write"] = {"status": "EXC:" + type(e).__name__, "validation_status": None, "schema_name": None}
                    if os.path.exists(tgt):
                        os.unlink(tgt)
                    hnodes["SOURCE_URI"].value = "hv%d/vocab.oct.md" % hi
                    hnodes["SOURCE_HASH"].value = "sha256:" + D
                    try:
                        rs = hydrator.check_staleness(hdoc, base_path=Path(base + "/sb"))
                        out_step["check_staleness"] = {"status": rs[0].status if rs else "NONE", "actual_hash": rs[0].actual_hash if rs else None}
                    except BaseException as e:  # noqa
                        out_step["check_staleness"] = {"status": "EXC:" + type(e).__name__, "actual_hash": None}
                    recs.append(out_step)
                os.unlink(files["octave_write"])
                hhist.append({"id": hi, "digest": D, "steps": [list(x) for x in steps], "results": recs,
                              "file_name": fname, "cache_dir": cdir.replace(base, "{B}")})
        finally:
            if old_home is None:
                os.environ.pop("HOME", None)
            else:
                os.environ["HOME"] = old_home
        # decoys beside the cache whose names have the cache directory's name as a proper prefix
        for sib in ("cache-private", "cache2"):
            os.mkdir(base + "/sb/" + sib)
            with open(base + "/sb/" + sib + "/" + dg[:16] + ".oct.md", "wb") as f:
                f.write(good)
        uris = []
        doc = parse(HYDRATED.replace("{uri}", "placeholder"))
        uri_nodes = [ch for sec in doc.sections if getattr(sec, "key", None) == "MANIFEST" for ch in getattr(sec, "children", [])
                     if getattr(ch, "key", None) == "SOURCE_URI"]
        assert len(uri_nodes) == 1, "hydrated template did not parse to one SOURCE_URI"

        def outside_reads(ops, root_real):
            bad = []
            for (nm, c, ok, a, _e) in ops:
                if c in (READ, MUT) and a and a[0] != "<fd>":
                    try:
                        rp = os.path.realpath(a[0])
                    except ValueError:
                        continue
                    if not (rp + "/").startswith(root_real + "/"):
                        bad.append((nm, a[0].replace(base, "{B}")))
            return bad

        for base_rel, uraw in job["uris"]:
            u = uraw.replace("{B}", base)
            basep = base + "/" + base_rel
            root_real = os.path.realpath(basep)
            try:
                escapes = not (os.path.realpath(os.path.join(basep, u)) + "/").startswith(root_real + "/")
            except ValueError:
                escapes = None
            try:
                p = hydrator.validate_source_uri(u, Path(basep))
                oc = "OK " + str(p).replace(base, "{B}")
                # the returned path claims to be resolved: both its text and the file the KERNEL opens for it must be inside
                kt = kernel_target(str(p))
                inside = (str(p) + "/").startswith(root_real + "/") and (kt is None or (kt + "/").startswith(root_real + "/"))
            except hydrator.SourceUriSecurityError:
                oc, inside = "REFUSED", True
            except BaseException as e:  # noqa
                oc, inside = "RAISE:" + type(e).__name__, True
            # check_staleness on a hydrated document whose manifest names this SOURCE_URI (value set in the AST: any string)
            uri_nodes[0].value = u
            REC = []
            try:
                rs = hydrator.check_staleness(doc, base_path=Path(basep))
                status = rs[0].status if rs else "NONE"
                got_hash = bool(rs and rs[0].actual_hash)
            except BaseException as e:  # noqa
                status, got_hash = "EXC:" + type(e).__name__, False
            ops = REC
            REC = None
            uris.append((base_rel, uraw, oc, inside, {"escapes": escapes, "cycle_then_dotdot": cycle_then_dotdot(basep, u), "step1_incomplete": step_incomplete(basep, u, 1),
                                                         "step2_incomplete": step_incomplete(basep, u, 2), "status": status, "hash": got_hash, "outside_reads": outside_reads(ops, root_real)}))
        # CLI: octave hydrate FILE --check --project-root <base dir>
        clis = []
        from click.testing import CliRunner
        from octave_mcp.cli.main import cli
        for base_rel, uraw in job.get("cli_uris", []):
            u = uraw.replace("{B}", base)
            basep = base + "/" + base_rel
            root_real = os.path.realpath(basep)
            docp = basep + "/zz_hydrated.oct.md"
            with open(docp, "w", encoding="utf-8") as f:
                f.write(HYDRATED.replace("{uri}", u))
            escapes = not (os.path.realpath(os.path.join(basep, u)) + "/").startswith(root_real + "/")
            REC = []
            try:
                r = CliRunner().invoke(cli, ["hydrate", docp, "--check", "--project-root", basep])
                text = r.output or ""
                words = sorted({w for w in ("FRESH:", "STALE:", "ERROR:", "Security violation", "No SNAPSHOT") if w in text})
                oc = "exit=%s %s" % (r.exit_code, ",".join(words))
            except BaseException as e:  # noqa
                oc = "EXC:" + type(e).__name__
            ops = REC
            REC = None
            os.unlink(docp)
            clis.append((base_rel, uraw, oc, {"escapes": escapes, "cycle_then_dotdot": cycle_then_dotdot(basep, u),
                                             "step1_incomplete": step_incomplete(basep, u, 1),
                                             "outside_reads": outside_reads(ops, root_real)}))
        return {"base": base, "digests": (dg, dbad), "frozen": fro, "frozen_content": froc, "hash_histories": hhist, "uris": uris, "cli": clis,
                "oracle": [(good.decode(), dg), (bad.decode(), hashlib.sha256(bad).hexdigest())]}
    finally:
        shutil.rmtree(base, ignore_errors=True)


PINNED = ('===PINNED_STD===\nMETA:\n  TYPE::SCHEMA\n  VERSION::"1.0.0"\n---\nPOLICY:\n  VERSION::"1.0"\n  UNKNOWN_FIELDS::REJECT\n---\n'
          'FIELDS:\n  NAME::["example_name"\u2227REQ]\n===END===\n').encode("utf-8")
PINNED_DOC = '===DOC===\nPINNED_STD:\n  NAME::"n"\n  EXTRA::1\n===END===\n'


def frozen_content_cases(seed, n_random):
    """[(label, pinned bytes P, bytes X of the cache file named sha256(P)[:16].oct.md)].  `frozen@sha256:sha256(P)` may resolve
    to that file only if sha256(X) == sha256(P), i.e. X == P: every other X -- in particular P with line endings, BOM, trailing
    white space or any single byte changed -- must be refused."""
    import random
    rng = random.Random(seed)
    P = PINNED
    LF, CR, CRLF = b"\n", b"\r", b"\r\n"
    lines = P.split(LF)[:-1]
    out = [("identical (control: must resolve)", P, P), ("LF->CRLF on all lines", P, P.replace(LF, CRLF))]
    for i in sorted({0, 1, len(lines) // 2, len(lines) - 2, len(lines) - 1} | {rng.randrange(len(lines)) for _ in range(3)}):
        out.append((f"LF->CRLF on line {i} only", P, LF.join(lines[:i] + [lines[i] + CR] + lines[i + 1:]) + LF))
    out.append(("LF->CRLF on alternate lines", P, b"".join(ln + (CRLF if k % 2 else LF) for k, ln in enumerate(lines))))
    Pc = P.replace(LF, CRLF)
    out += [("pinned has CRLF, file identical (control)", Pc, Pc), ("pinned has CRLF, file has LF", Pc, P),
            ("pinned has CRLF, file has LF on one line", Pc, Pc.replace(CRLF, LF, 1)),
            ("LF->CR (CR only)", P, P.replace(LF, CR)), ("LF->LF CR", P, P.replace(LF, LF + CR)), ("lone CR appended", P, P + CR),
            ("lone CR prepended", P, CR + P), ("CR inside a line", P, P.replace(b"REJECT", b"REJ\rECT")), ("CR CR LF on one line", P, P.replace(LF, CR + CRLF, 1)),
            ("UTF-8 BOM prepended", P, b"\xef\xbb\xbf" + P), ("final newline stripped", P, P[:-1]), ("extra final newline", P, P + LF),
            ("trailing space on one line", P, P.replace(b"REJECT\n", b"REJECT \n")), ("tab for two spaces", P, P.replace(b"  TYPE", b"\tTYPE")),
            ("one character changed", P, P.replace(b"REJECT", b"IGNORE")), ("empty file", P, b""), ("NUL appended", P, P + b"\x00")]
    # content crossing the 8 KiB read-chunk edge of compute_vocabulary_hash: the CR | LF pair straddles / precedes / follows the edge
    for k in (8191, 8192, 8193, 8194, 16384, 16385):
        pad = b"// " + b"x" * (k - 4) + LF            # k bytes, LF at offset k-1
        big = pad + P
        out += [(f"{k}-byte first line, file identical (control)", big, big),
                (f"{k}-byte first line ending CRLF in the file (CR at offset {k - 1})", big, pad[:-1] + CRLF + P),
                (f"{k}-byte first line, CRLF on all lines", big, big.replace(LF, CRLF))]
    big = (b"// " + b"y" * 60 + LF) * 300 + P         # many lines, several chunk edges
    out += [("19 KiB many lines identical (control)", big, big), ("19 KiB many lines, CRLF everywhere", big, big.replace(LF, CRLF)),
            ("19 KiB many lines, CRLF on every 7th line", big, b"".join(ln + (CRLF if k % 7 == 0 else LF) for k, ln in enumerate(big.split(LF)[:-1])))]
    for _ in range(n_random):
        x = bytearray(P)
        pos = rng.randrange(len(x) + 1)
        kind = rng.choice(("ins", "del", "rep"))
        b = rng.choice(b"\r\n \t\x00x\xc2")
        if kind == "ins":
            x[pos:pos] = bytes([b])
        elif kind == "del" and pos < len(x):
            del x[pos]
        elif pos < len(x):
            x[pos] = b
        out.append((f"random single-byte {kind} at {pos}", P, bytes(x)))
    return out


# ---- hash histories -------------------------------------------------------------------------------------------------
# content of the cache / vocabulary file at a step, and HOW it got there.  "returned => the bytes hash to D" is a statement about
# the bytes on disk NOW: a digest remembered for a path, an inode, a size, an mtime (or any combination) shows up here.
H_CONTENTS = ("honest", "same-length", "same-length-2", "longer", "shorter")
H_METHODS = ("in-place, mtime restored", "in-place", "replaced inode, mtime restored", "replaced inode", "touched only")


def hash_history_bytes(P, content):
    if content == "honest":
        return P
    if content == "same-length":
        return P.replace(b"UNKNOWN_FIELDS::REJECT", b"UNKNOWN_FIELDS::IGNORE")      # 6 bytes for 6 bytes: a different policy
    if content == "same-length-2":
        return P.replace(b'VERSION::"1.0.0"', b'VERSION::"9.9.9"')
    if content == "longer":
        return P + b"// appended\n"
    if content == "shorter":
        return P.replace(b"UNKNOWN_FIELDS::REJECT", b"UNKNOWN_FIELDS::WARN")
    raise ValueError(content)


def put_bytes(path, X, method, stamp):
    """Bring the file at `path` to content X by `method`; `stamp[path]` = (atime_ns, mtime_ns) of the FIRST version, restored when
    the method says so."""
    if not os.path.exists(path):
        with open(path, "wb") as f:
            f.write(X)
        st = os.stat(path)
        stamp[path] = (st.st_atime_ns, st.st_mtime_ns)
        return
    if method == "touched only":
        st = os.stat(path)
        os.utime(path, ns=(st.st_atime_ns, st.st_mtime_ns + 5_000_000_000))
        stamp[path] = (st.st_atime_ns, st.st_mtime_ns + 5_000_000_000)
        with open(path, "rb") as f:
            cur = f.read()
        if cur == X:
            return
        method = "in-place, mtime restored"       # a touch cannot change content: fall through to an in-place write
    if method.startswith("in-place"):
        with open(path, "r+b") as f:            # same inode
            f.seek(0)
            f.write(X)
            f.truncate(len(X))
    else:
        tmp = path + ".new"
        with open(tmp, "wb") as f:
            f.write(X)
        os.replace(tmp, path)                    # new inode
    if method.endswith("mtime restored"):
        os.utime(path, ns=stamp[path])


def gen_hash_histories(ctx):
    """[[(content, method), ...]]: the first step creates the file."""
    R = "in-place, mtime restored"
    hs = [
        [("honest", "new"), ("same-length", R), ("honest", R), ("same-length-2", R)],
        [("same-length", "new"), ("honest", R), ("same-length", R)],                      # refused first (negative memo), then honest
        [("honest", "new"), ("longer", R), ("honest", R), ("shorter", R)],
        [("honest", "new"), ("same-length", "replaced inode, mtime restored"), ("honest", "replaced inode, mtime restored")],
        [("honest", "new"), ("honest", "touched only"), ("same-length", R), ("honest", "touched only")],
        [("honest", "new"), ("same-length", "in-place"), ("honest", "in-place"), ("longer", "replaced inode")],
        [("longer", "new"), ("honest", R), ("same-length-2", R), ("same-length", R), ("honest", R)],
    ]
    rng = ctx.rng
    for _ in range(ctx.scale(6, 400)):
        h = [(rng.choice(H_CONTENTS), "new")]
        for _i in range(rng.choice((3, 4, 5, 6))):
            h.append((rng.choice(H_CONTENTS), rng.choice(H_METHODS)))
        hs.append(h)
    return hs


def frozen_refs(dg, dbad):
    P = "frozen@sha256:"
    return [P + dg, P + dg.upper(), P + dbad, P + dg[:63], P + dg + "0", P + dg + "\n", P + "../" + dg[3:], P + "/" * 64,
            P + ("." * 64), P + dg[:16] + "/" * 48, P + "g" * 64, P + dg[:63] + "\u0660", P + dg[:63] + "\uff21",
            "frozen@sha256" + dg, "frozen@sha512:" + dg, "FROZEN@sha256:" + dg, " " + P + dg, P + " " + dg[1:],
            P + "0" * 64, P + dg[:16] + "0" * 48, P, "latest", "", "frozen@", P + dg[:32] + "\x00" + dg[33:], P + "A" * 64]


VOCAB = '===VOCAB===\nMETA:\n  TYPE::"CAPSULE"\n  VERSION::"1.0"\nALPHA::"x"\n===END===\n'
HYDRATED = ('===HYDRATED_DOC===\nMETA:\n  TYPE::"SPEC"\n  VERSION::"1.0.0"\n\n\u00a7CONTEXT::SNAPSHOT["@test/vocabulary"]\n  ALPHA::"First letter"\n\n'
            '\u00a7SNAPSHOT::MANIFEST\n  SOURCE_URI::"{uri}"\n  SOURCE_HASH::"sha256:' + "0" * 64 + '"\n===END===\n')
# directories BESIDE a base directory whose names have the base directory's name as a proper prefix: a containment test on
# the characters of the resolved string (startswith / commonprefix) instead of on its components lets them through
SIB_SUFFIXES = ("-private", "2", "_old", ".bak")
URI_BASES = ("sb", "sb/d")


def kernel_target(p):
    """The file the kernel reaches for path p (all links followed by the kernel itself, not by os.path.realpath, which stops at
    loops): O_PATH open + /proc/self/fd; None if p cannot be opened (ENOENT / ELOOP / ENOTDIR ...)."""
    try:
        fd = os.open(p, os.O_PATH)
    except (OSError, ValueError):
        return None
    try:
        return os.readlink("/proc/self/fd/%d" % fd)
    except OSError:
        return None
    finally:
        os.close(fd)


def step_incomplete(basep, u, which):
    """Classifier of the two source-URI findings.  which = 1: the FIRST resolution step (realpath of base/u) stops at a symlink
    loop; which = 2: the first step returns (Path.resolve() does not raise) and the SECOND one (realpath of its result) stops at a
    loop.  Uses posixpath._joinrealpath, whose second result says whether every link was resolved."""
    import posixpath
    from pathlib import Path
    try:
        cand = str(Path(basep) / u)
        if which == 1:
            return not posixpath._joinrealpath("", cand, False, {})[1]
        q = str(Path(cand).resolve())
        return not posixpath._joinrealpath("", q, False, {})[1]
    except Exception:  # noqa   (NUL, RuntimeError of resolve(): the surface refuses or raises, nothing to attribute)
        return False


def cycle_then_dotdot(basep, u):
    """Classifier of finding C19-source-uri-cycle-dotdot, read off the real tree without pathlib: walking the components of
    `u` from `basep` lexically, some component is a symbolic link for which stat gives ELOOP (a link cycle) and a LATER component
    is '..'."""
    import errno
    cur, seen_loop = basep, False
    for c in u.split("/"):
        if c in ("", "."):
            continue
        if c == "..":
            if seen_loop:
                return True
            cur = os.path.dirname(cur)
            continue
        cur = os.path.join(cur, c)
        try:
            if os.path.islink(cur):
                try:
                    os.stat(cur)
                except OSError as e:
                    if e.errno == errno.ELOOP:
                        seen_loop = True
        except ValueError:
            return False
    return False


def sibling_spec(base):
    t = [("sb/x.oct.md", "f", VOCAB), ("sb/d/x.oct.md", "f", VOCAB)]
    for suf in SIB_SUFFIXES:
        for parent, nm in (("", "sb"), ("sb/", "d")):
            sib = parent + nm + suf
            t += [(sib, "d", ""), (sib + "/x.oct.md", "f", VOCAB), (sib + "/secret.oct.md", "f", SECRET)]
    t += [("sb/lsib", "l", "../sb-private"), ("sb/lsiba", "l", base + "/sb_old"), ("sb/lsibf.oct.md", "l", "../sb2/x.oct.md"),
          ("sb/d/ldsib", "l", "../d2"), ("sb/d/ldsibf.oct.md", "l", base + "/sb/d.bak/secret.oct.md"),
          # a link whose target walks through a missing name, a cyclic link and '..' before a link that leaves the base
          ("sb/k2", "l", "missing/../loop.md/../lf.md"), ("sb/k3", "l", "loop.md/../k2")]
    return t


def gen_uris(ctx):
    """[(base dir relative to the scratch root, uri)]; {B} = scratch root."""
    segs = ["d", "e", "ld", "ldi", "dangd", "ldd", ".", "..", "", "f.md", "lf.md", "lfi.md", "dang.md", "loop.md", "up.md",
            "new.md", "lsd", "s2.oct.md", "secret.md", "deep.md", "x\x00", "C:", "sb", "out", "k2", "k3", "la.md",
            "sb-private", "sb2", "sb_old", "sb.bak", "x.oct.md", "secret.oct.md", "lsib", "lsiba", "lsibf.oct.md"]
    out = ["", "/etc/passwd", "C:/x", "c:", "a:b", "../out/secret.md", "ld/secret.md", "d/../../out/secret.md", "//x", "./f.md"]
    for a in segs:
        out.append(a)
        for b in segs:
            out.append(a + "/" + b)
    rng = ctx.rng
    for _ in range(ctx.scale(300, 6000)):
        out.append("/".join(rng.choice(segs) for _ in range(rng.choice((3, 4)))))
    res = [("sb", u) for u in sorted(set(out))]
    res += sibling_uris()
    dsegs = ["..", ".", "", "e", "d", "d2", "d-private", "d_old", "d.bak", "x.oct.md", "secret.oct.md", "ldsib", "ldsibf.oct.md", "sb", "sb2"]
    dset = set()
    for a in dsegs:
        dset.add(a)
        for b in dsegs:
            dset.add(a + "/" + b)
            if a == "..":
                for c in dsegs:
                    dset.add(a + "/" + b + "/" + c)
    res += [("sb/d", u) for u in sorted(dset)]
    seen, uniq = set(), []
    for x in res:
        if x not in seen:
            seen.add(x)
            uniq.append(x)
    return uniq


def sibling_uris():
    """explicit prefix-sibling escapes: via '..', via an absolute path, via a link inside the base (also used for the CLI)."""
    out = []
    for suf in SIB_SUFFIXES:
        for f in ("x.oct.md", "secret.oct.md"):
            out += [("sb", "../sb%s/%s" % (suf, f)), ("sb", "d/../../sb%s/%s" % (suf, f)), ("sb", "./../sb%s/./%s" % (suf, f)),
                    ("sb", "{B}/sb%s/%s" % (suf, f)), ("sb", "../sb/../sb%s/%s" % (suf, f)),
                    ("sb/d", "../d%s/%s" % (suf, f)), ("sb/d", "../../sb%s/%s" % (suf, f)), ("sb/d", "e/../../d%s/%s" % (suf, f)),
                    ("sb/d", "{B}/sb/d%s/%s" % (suf, f))]
    out += [("sb", "lsib/x.oct.md"), ("sb", "lsib/secret.oct.md"), ("sb", "lsiba/x.oct.md"), ("sb", "lsibf.oct.md"), ("sb", "lsib"),
            ("sb/d", "ldsib/x.oct.md"), ("sb/d", "ldsibf.oct.md"), ("sb/d", "../lsib/x.oct.md"),
            # controls: inside the base (must be accepted / hashed), and an unrelated outside directory
            ("sb", "x.oct.md"), ("sb", "d/x.oct.md"), ("sb", "d/../x.oct.md"), ("sb/d", "x.oct.md"), ("sb/d", "e/../x.oct.md"),
            ("sb", "../out/secret.md"), ("sb/d", "../../out/secret.md"), ("sb/d", "../x.oct.md"),
            STALE_WITNESS, ("sb", "loop.md/x/../../lf.md"), ("sb", "la.md/../d/up.md"), ("sb", "loop.md/../lsib/secret.oct.md"),
            URI2_WITNESS, ("sb", "k2"), ("sb", "k3"), ("sb", "la.md/../k2"), ("sb", "loop.md/../k3"), ("sb", "d/../loop.md/../k2"),
            ("sb/d", "../loop.md/../k2"), ("sb", "loop.md"), ("sb", "loop.md/x"), ("sb", "la.md")]
    return out


# ------------------------------------------------------------------------------------------------
# history stream: the IDENTICAL call repeated in ONE process while the tree (or the cwd) changes in between.
# A verdict is a statement about the file system NOW; anything remembered from an earlier call with the same string
# (positive or negative) shows up here.  The model has no memory: for every step it is evaluated on the tree as it is
# immediately before that step's call (tree_to_spec of the real directory) and on that step's cwd.
# ------------------------------------------------------------------------------------------------
H_TOOLS = ("w", "wnd", "wc", "wcd", "v", "f", "vp", "cli", "clic")
H_NEED_FILE = ("v", "wn", "wnd", "wc", "wcd", "clic")
H_KINDS = ("out-abs", "out-rel", "in-rel", "dangling")
H_EXTS = (".oct.md", ".md", ".octave")


def tree_to_spec(root):
    out = []
    for dirpath, dirnames, filenames in os.walk(root):
        dirnames.sort()
        for n in sorted(dirnames + filenames):
            p = os.path.join(dirpath, n)
            rel = os.path.relpath(p, root)
            if os.path.islink(p):
                out.append((rel, "l", os.readlink(p)))
            elif os.path.isdir(p):
                out.append((rel, "d", ""))
            else:
                out.append((rel, "f", "x"))
    return out


def apply_ops(root, ops):
    for op in ops:
        p = os.path.join(root, op[1])
        if op[0] == "rm":
            if os.path.islink(p) or os.path.isfile(p):
                os.unlink(p)
            elif os.path.isdir(p):
                shutil.rmtree(p)
        elif op[0] == "d":
            os.makedirs(p, exist_ok=True)
        elif op[0] == "f":
            with open(p, "w", encoding="utf-8") as f:
                f.write(op[2])
        elif op[0] == "l":
            os.symlink(op[2].replace("{H}", root), p)
        else:
            raise ValueError(op)


def h_init_ops(sb, name):
    """sandbox `sb` (relative to the history root) with in-sandbox mirror dirs; outside dir out/ with secrets and mirrors."""
    return [("d", sb), ("d", "out"), ("f", "out/secret.md", SECRET), ("d", "out/ma/b"), ("f", "out/ma/b/" + name, SECRET),
            ("d", "out/mb"), ("f", "out/mb/" + name, SECRET), ("d", sb + "/oa/b"), ("f", sb + "/oa/b/" + name, DOC),
            ("d", sb + "/ob"), ("f", sb + "/ob/" + name, DOC)]


def h_config_ops(sb, cfg, name, need_file):
    """ops that REPLACE the directory sb/a by the configuration cfg = ("real",) | ("link", position a|b|last, kind):
    sb/a/b/<name> with every component real, or with the component at `position` swapped for a symbolic link."""
    a = sb + "/a"
    ops = [("rm", a)]
    if cfg[0] == "real":
        ops.append(("d", a + "/b"))
        if need_file:
            ops.append(("f", a + "/b/" + name, DOC))
        return ops
    _, pos, kind = cfg
    link = {"a": a, "b": a + "/b", "last": a + "/b/" + name}[pos]
    outside = {"a": "out/ma", "b": "out/mb", "last": "out/secret.md"}[pos]
    inside = {"a": sb + "/oa", "b": sb + "/ob", "last": sb + "/oa/b/" + name}[pos]
    if kind == "out-abs":
        tgt = "{H}/" + outside
    elif kind == "out-rel":
        tgt = os.path.relpath(outside, os.path.dirname(link))
    elif kind == "in-rel":
        tgt = os.path.relpath(inside, os.path.dirname(link))
    else:
        tgt = os.path.relpath("out/nowhere", os.path.dirname(link))
    if pos == "b":
        ops.append(("d", a))
    elif pos == "last":
        ops.append(("d", a + "/b"))
    ops.append(("l", link, tgt))
    return ops


def sibling_names(name, rng):
    """Names a writer might stage its output under, derived from the target's name (never a fixed list of one): suffixes,
    dot-prefixed, editor/backup/lock conventions, random-suffix forms, tmp-prefixed forms as mkstemp would give with a guessable
    random part."""
    r6 = "".join(rng.choice("abcdefghijklmnopqrstuvwxyz0123456789_") for _ in range(6))
    r8 = "".join(rng.choice("abcdefghijklmnopqrstuvwxyz0123456789_") for _ in range(8))
    stem = name.split(".")[0]
    return [name + ".tmp", "." + name + ".tmp", name + "~", name + ".bak", name + ".lock", name + ".swp", "." + name + ".swp",
            "." + name + "." + r6, name + "." + r6, name + ".new", name + ".orig", name + ".part", name + ".tmp~", "#" + name + "#",
            ".~lock." + name + "#", "tmp" + name, "tmp" + name + ".tmp", "tmp.tmp", ".tmp", "tmp00000000.tmp", "tmpaaaaaaaa.tmp",
            "tmp" + r8 + ".tmp", stem + ".tmp", "." + stem + ".tmp", name + ".1", name + ".old"]


def sibling_ops(dir_rel, name, rng, tag):
    """Pre-existing entries beside the target `dir_rel/name`: each a symbolic link -- to its OWN file outside the sandbox (absolute
    or relative target), to an outside directory, or dangling into the outside directory."""
    ops = [("d", "out/sibs"), ("d", "out/sibdir")]
    for i, sn in enumerate(sibling_names(name, rng)):
        link = dir_rel + "/" + sn
        kind = i % 4
        if kind == 0:
            tgt_rel = "out/sibs/%s_%d.md" % (tag, i)
            ops += [("f", tgt_rel, SECRET), ("l", link, "{H}/" + tgt_rel)]
        elif kind == 1:
            tgt_rel = "out/sibs/%s_%d.oct.md" % (tag, i)
            ops += [("f", tgt_rel, SECRET), ("l", link, os.path.relpath(tgt_rel, dir_rel))]
        elif kind == 2:
            ops.append(("l", link, os.path.relpath("out/sibs/absent_%s_%d.md" % (tag, i), dir_rel)))      # dangling: a write would CREATE it
        else:
            ops.append(("l", link, "{H}/out/sibdir"))
    return ops


def gen_histories(ctx):
    rng = ctx.rng
    hs = []

    def add(tool, kind, name, form, cfgs, chdir=False):
        need_file = tool in H_NEED_FILE or rng.random() < 0.5
        if chdir:
            # two sandboxes under one root; the same RELATIVE string, the cwd alternates; no tree change between the calls
            real_sb, link_sb = "t1/sb", "t2/sb"
            link_cfg = [c for c in cfgs if c[0] == "link"][0]
            init = (h_init_ops(real_sb, name) + h_init_ops(link_sb, name) + h_config_ops(real_sb, ("real",), name, need_file)
                    + h_config_ops(link_sb, link_cfg, name, need_file))
            steps = [{"ops": [], "cwd": real_sb if c[0] == "real" else link_sb, "path": "a/b/" + name, "state": c[0], "cfg": list(c)} for c in cfgs]
            sand = [real_sb, link_sb]
        else:
            init = h_init_ops("sb", name)
            path = {"abs": "{H}/sb/a/b/" + name, "rel": "a/b/" + name, "rel-dot": "./a//b/" + name}[form]
            steps = [{"ops": h_config_ops("sb", c, name, need_file), "cwd": "sb", "path": path, "state": c[0], "cfg": list(c)} for c in cfgs]
            sand = ["sb"]
        hs.append({"id": len(hs), "tool": tool, "kind": kind, "form": "rel+chdir" if chdir else form, "init": init, "steps": steps, "sandboxes": sand})

    k = 0
    for tool in H_TOOLS:
        for pos in ("a", "b", "last"):
            for kind in H_KINDS:
                link = ("link", pos, kind)
                for order in ((("real",), link, ("real",)), (link, ("real",), link)):
                    name = "n" + H_EXTS[k % 3]
                    k += 1
                    for form in ("abs", "rel"):
                        add(tool, ("last-swap" if pos == "last" else "mid-swap") + ":" + ("accept-first" if order[0][0] == "real" else "refuse-first"),
                            name, form, order)
                    if kind in ("out-abs", "in-rel"):
                        add(tool, "chdir:" + ("accept-first" if order[0][0] == "real" else "refuse-first"), name, "rel", order, chdir=True)
    # ---- pre-existing sibling entries: the target path is clean, its directory holds links named after it ----
    for tool in ("w", "wd", "wn", "wnd", "wc", "wcd", "f", "cli", "clic"):
        for ni, name in enumerate(("n" + H_EXTS[k % 3], "report.v2" + H_EXTS[(k + 1) % 3], "UPPER" + H_EXTS[(k + 2) % 3])):
            k += 1
            for present in ((True,) if tool in H_NEED_FILE else (False, True)):
                init = h_init_ops("sb", name)
                first = h_config_ops("sb", ("real",), name, present) + sibling_ops("sb/a/b", name, rng, "h%d" % len(hs))
                for form in (("abs", "{H}/sb/a/b/" + name), ("rel", "a/b/" + name)):
                    steps = [{"ops": first, "cwd": "sb", "path": form[1], "state": "real", "cfg": ["real", "siblings", present]},
                             {"ops": [], "cwd": "sb", "path": form[1], "state": "real", "cfg": ["real", "siblings", "again"]}]
                    hs.append({"id": len(hs), "tool": tool, "kind": "siblings:" + ("target-present" if present else "target-absent"),
                               "form": form[0], "init": init, "steps": steps, "sandboxes": ["sb"]})
    for _ in range(ctx.scale(0, 2500)):
        tool = rng.choice(H_TOOLS)
        name = rng.choice(("n", "report", "x.tar")) + rng.choice(H_EXTS)
        cfgs = []
        for _i in range(rng.choice((4, 5, 6, 7))):
            cfgs.append(("real",) if rng.random() < 0.45 else ("link", rng.choice(("a", "b", "last")), rng.choice(H_KINDS)))
        if rng.random() < 0.2 and any(c[0] == "link" for c in cfgs):
            lc = [c for c in cfgs if c[0] == "link"][0]
            cfgs = [c if c[0] == "real" else lc for c in cfgs]
            add(tool, "random-chdir", name, "rel", cfgs, chdir=True)
        else:
            add(tool, "random-swap", name, rng.choice(("abs", "rel", "rel-dot")), cfgs)
    return hs


def history_worker(job):
    sys.path.insert(0, str(REPO / "src"))
    _install_interposition()
    from octave_mcp.cli.main import cli
    from octave_mcp.core import file_ops
    from octave_mcp.mcp.validate import ValidateTool
    from octave_mcp.mcp.write import WriteTool
    if job.get("mutate"):
        _apply_mutation(job["mutate"])
    base = os.path.realpath(tempfile.mkdtemp(prefix="c19h_"))
    wt, vt = WriteTool(), ValidateTool()       # ONE process, ONE set of tool objects for all steps of all histories of the job
    out = []
    try:
        for h in job["histories"]:
            H = os.path.join(base, "h%d" % h["id"])
            os.makedirs(H)
            apply_ops(H, h["init"])
            steps = []
            for st in h["steps"]:
                os.chdir("/")
                apply_ops(H, st["ops"])
                cwd = os.path.join(H, st["cwd"])
                os.chdir(cwd)
                p = st["path"].replace("{H}", H)
                tgt_lex = os.path.normpath(os.path.join(cwd, p))
                tgt_real = os.path.realpath(os.path.join(cwd, p))
                if not all((t + "/").startswith(H + "/") for t in (tgt_lex, tgt_real)):
                    steps.append({"skipped": "names a file outside the scratch tree"})
                    continue
                spec = tree_to_spec(H)
                res, stt = _observe(p)
                feat = _features(p, cwd)
                env = {"wt": wt, "vt": vt, "file_ops": file_ops, "prefixes": job["prefixes"], "base": H, "cwd": cwd,
                       "sandboxes": [os.path.join(H, x) for x in h["sandboxes"]], "cli": cli}
                c = _one_call(h["tool"], p, env)
                steps.append({"spec": spec, "res": res.replace(H, "{H}"), "st": stt, "feat": feat, "call": c})
            os.chdir("/")
            shutil.rmtree(H, ignore_errors=True)
            out.append({"h": h, "H": H, "steps": steps})
        return out
    finally:
        os.chdir("/")
        shutil.rmtree(base, ignore_errors=True)


def model_history(hres):
    """Model verdicts per step, each on the tree snapshot taken immediately before that step's call."""
    lines, idx = [], []
    for i, hr in enumerate(hres):
        H = hr["H"]
        for j, (st, sr) in enumerate(zip(hr["h"]["steps"], hr["steps"])):
            if "skipped" in sr:
                continue
            e = enc_str(st["path"].replace("{H}", H))
            lines += [fs_line(H, sr["spec"]), "cwd " + enc_path([c for c in (H + "/" + st["cwd"]).split("/") if c]),
                      f"val w {e}", f"val v {e}", f"val f {e}", f"res {e}", f"st {e}"]
            idx.append((i, j))
    res = run_driver("pathm", lines) if lines else []
    out = {}
    for k, key in enumerate(idx):
        _ok1, _ok2, w, v, f, rs, st = res[7 * k: 7 * k + 7]
        H = hres[key[0]]["H"]
        out[key] = {"w": w, "v": v, "f": f, "res": "ERR" if rs.startswith("ERR") else dec_path(rs.split(" ")[1]).replace(H, "{H}"),
                    "st": st, "loop": rs == "ERR LOOP"}
    return out


def judge_histories(ctx, hres, have_model):
    mm = model_history(hres) if have_model else {}
    nsteps = 0
    for i, hr in enumerate(hres):
        h = hr["h"]
        tool = h["tool"]
        prev = []
        for j, (st, sr) in enumerate(zip(h["steps"], hr["steps"])):
            if "skipped" in sr:
                ctx.obligation_failure("history", f"history {h['id']} step {j} skipped: {sr['skipped']}")
                continue
            nsteps += 1
            ctx.count()
            c, feat = sr["call"], sr["feat"]
            oc = c["outcome"]
            ctx.hist("history_" + tool, st["state"] + " -> " + oc)
            ctx.hist("history_kinds", h["kind"])
            ctx.nontrivial(("history", h["id"], tool, h["kind"], h["form"], j, json.dumps(st["cfg"])))
            m = mm.get((i, j))
            oom = m is not None and m["loop"] and sr["res"] != "ERR"
            case = {"stream": "history (one process; the identical call is repeated after the tree / the cwd changed)",
                    "history": {"kind": h["kind"], "form": h["form"], "init_ops": h["init"], "steps": h["steps"], "sandboxes": h["sandboxes"]},
                    "step": j, "tool": TOOL_NAME[tool], "path": st["path"], "cwd": st["cwd"], "tree_before_call": sr["spec"],
                    "outcomes_of_earlier_steps": list(prev), "outcome": oc, "features": feat, "snapshot_diff": c["diff"],
                    "io_ops": c["io"], "failed_io_attempts": c["tried"]}
            forbidden = feat["dotdot"] or feat["bad_ext"] or bool(feat["links"])
            if (st["state"] == "link") != forbidden:
                ctx.obligation_failure("history", f"history {h['id']} step {j}: generator state {st['state']} but features {feat}")
            if m is not None and not oom:
                if not (m["res"] == sr["res"] and m["st"][0] == sr["st"][0] and m["st"][1] == sr["st"][1]):
                    ctx.correspondence_failure(dict(case, os=[sr["res"], sr["st"]], model=[m["res"], m["st"]]),
                                               "model-of-OS (history stream): resolve/exists/is_symlink differ from pathlib on the current tree")
            judge_call(ctx, case, tool, c, feat, m, oom)
            if not forbidden and oc.startswith("E_PATH") and m is None:
                # without the model: a clean path (every component a real directory, allowed extension) must not be refused
                ctx.correspondence_failure(case, "clean path refused with E_PATH after an earlier refusal of the same string (stale negative verdict)")
            prev.append(st["state"] + " -> " + oc)
    return nsteps


TOOL_NAME = {"w": "octave_write(content)", "wd": "octave_write(content, corrections_only)", "wn": "octave_write(normalize)",
             "wnd": "octave_write(normalize, corrections_only)", "wc": "octave_write(changes)", "wcd": "octave_write(changes, corrections_only)",
             "v": "octave_validate(file_path)", "f": "atomic_write_octave", "vp": "validate_octave_path",
             "cli": "cli write --content", "clic": "cli write --changes"}
MODEL_KEY = {"w": "w", "wd": "w", "wn": "w", "wnd": "w", "wc": "w", "wcd": "w", "v": "v", "f": "f", "vp": "f", "cli": "f", "clic": "f"}
MAIN_TOOLS = ("w", "wd", "wn", "wnd", "wc", "wcd", "v", "f", "cli", "clic")     # which validator configuration of the model a surface uses


def is_accepted(oc):
    return oc.endswith(":success") or oc in ("ACCEPT:read", "ACCEPT:valid")


def judge_call(ctx, case, tool, c, feat, m, oom):
    """Verdict vs model (m: model record for the CURRENT tree, or None) and the property itself (model-independent)."""
    oc = c["outcome"]
    forbidden = feat["dotdot"] or feat["bad_ext"] or bool(feat["links"])
    # ---- correspondence: verdict and refusing check ----
    if m is not None:
        mv = m[MODEL_KEY[tool]]
        want = model_expect(mv)
        got = oc if oc.startswith("E_PATH") else "ACCEPT"
        if oom:
            want, got = want.split(":")[0], got.split(":")[0]
        if want != got:
            ctx.correspondence_failure(dict(case, model=mv), "validator verdict / refusing check differs from the model")
        elif tool == "v" and got == "ACCEPT" and m["st"][0] != "R":
            if (oc == "ACCEPT:E_FILE") != (m["st"][0] == "F"):
                ctx.correspondence_failure(dict(case, model_exists=m["st"]), "E_FILE of octave_validate differs from the model's exists()")
    # ---- the property itself ----
    refused = not is_accepted(oc)
    changed = bool(c["diff"])
    touched = bool(c["io"])
    if c.get("leak"):
        ctx.property_failure(case, "content of a file outside the sandbox (marker string planted in every outside file) appears in what the tool returned")
        return
    if c["out_changed"] or c["outside"]:
        ctx.property_failure(case, "a path outside the sandbox was created/modified")
        return
    made_links = [d for d in c["diff"] if d[2] == "l"]
    if made_links:
        ctx.property_failure(dict(case, links_created_or_changed=made_links),
                             "after the call a path in the tree IS a symbolic link that was not there (or pointed elsewhere) before: the tool "
                             "created / moved / retargeted a link (a written target must be a regular file inside the base: lstat)")
        return
    if c.get("target_kind") not in (None, "f") and is_accepted(c["outcome"]) and tool != "vp" and tool != "v":
        ctx.property_failure(dict(case, target_lstat=c.get("target_kind")), "the call reports success but the target is not a regular file (lstat)")
        return
    if oc.startswith("E_PATH") and (changed or touched or c["tried"]):
        ctx.property_failure(case, "file-system read/mutation performed although the path was refused with E_PATH")
        return
    if forbidden and (not refused or changed or touched):
        links = feat["links"]
        unstat = (not feat["dotdot"] and not feat["bad_ext"] and links and all(not st for _, st in links))
        # no finding is listed any more: a link that cannot be stat'ed (dangling / ENOTDIR / >40 links) is a link
        ctx.hist("property_failures", "unstattable-symlink (fixed by %s: regression)" % FIXED_BY if unstat else "other")
        ctx.property_failure(case, "path with a '..'/symlink component/disallowed extension was not refused before touching files "
                             f"(outcome {oc}, changed={changed})"
                             + (f"; every link on the path is one for which stat fails -- the defect fixed by {FIXED_BY}" if unstat else ""))
    if forbidden and refused and c["tried"]:
        ctx.hist("refused_after_failed_attempt", oc)


# ------------------------------------------------------------------------------------------------
def run(ctx):
    have_model = ctx.build_status["drivers"].get("pathm", False)
    sys.path.insert(0, str(VERIF / "harness"))
    from translate import paths_t
    RN = {1: "DOTDOT", 2: "SYMLINK", 3: "EXT"}
    uri_second = True
    try:
        x = paths_t.extract(SRC)
        uri_second = x["uri_resolution"] >= 1
        prefixes = {}
        for who in ("write", "validate", "fileops"):
            pl = []
            for c in x["checks"][who]:
                pl.append((c["msg"], RN[c["kind"]]))
                if c["exc_msg"]:
                    pl.append((c["exc_msg"], "RESOLVE"))
            prefixes[who] = pl
    except Exception as e:  # noqa
        # the translator fails closed on a source it does not understand (the build already reports that); the search on the
        # implementation must run all the same: name the refusing check with the message prefixes of the last understood source
        ctx.extra["message_prefixes"] = f"fallback (translator: {type(e).__name__}: {e})"
        prefixes = {who: list(FALLBACK_PREFIXES) for who in ("write", "validate", "fileops")}
    mutate = os.environ.get("VERIF_C19_MUTATE") or None
    n_random = ctx.scale(450, 14000)
    paths = gen_paths(ctx, n_random)
    jobs = []
    variants = [0, 1, 2]
    for vi, variant in enumerate(variants):
        # relative (cwd = sb, cwd = sb/d) and absolute forms
        rel = paths[vi::len(variants)]
        jobs.append({"variant": variant, "cwd": "sb", "paths": rel, "tools": MAIN_TOOLS, "prefixes": prefixes, "mutate": mutate})
        absf = ["{B}/sb/" + p for p in paths[(vi + 1) % 3::len(variants)]]
        absf += ["/" + "{B}/sb/f.md", "/" + "{B}/sb/lf.md", "//" + "{B}/sb/f.md", "{B}//sb///f.md", "{B}/sb/../out/secret.md"]
        jobs.append({"variant": variant, "cwd": "sb/d", "paths": absf, "tools": MAIN_TOOLS, "prefixes": prefixes, "mutate": mutate})
        jobs.append({"variant": variant, "cwd": "sb/d", "paths": ["../" + p for p in paths[(vi + 2) % 3::7]] + paths[vi::11],
                     "tools": MAIN_TOOLS, "prefixes": prefixes, "mutate": mutate})
    # corpus: finding witnesses and past failures first
    corpus = []
    cdir = VERIF / "corpus" / "C19"
    for f in sorted(cdir.glob("*.json")):
        corpus.append(json.loads(f.read_text()))
    groups = {}
    expect = {}          # (tree, cwd, path) -> corpus record that states what every tool must do
    for c in corpus:
        if "path" in c:
            groups.setdefault((c.get("tree", 0), c.get("cwd", "sb")), []).append(c["path"])
            if c.get("expect"):
                expect[(c.get("tree", 0), c.get("cwd", "sb"), c["path"])] = c
    # the witnesses of the fixed finding are replayed even if the corpus directory is emptied
    for pth in ("dang.md", "dangd/x.md", "nd.md"):
        groups.setdefault((0, "sb"), []).append(pth)
        expect.setdefault((0, "sb", pth), {"path": pth, "tree": 0, "cwd": "sb", "expect": "refused", "fixed": FIXED_BY})
    expect_seen = set()
    for (tv, tc), ps in sorted(groups.items(), reverse=True):      # inserted at the front: tree 0 (dang.md) ends up first
        jobs.insert(0, {"variant": tv, "cwd": tc, "paths": sorted(set(ps)), "tools": MAIN_TOOLS, "prefixes": prefixes, "mutate": mutate})
    # split big jobs for parallelism
    split = []
    for j in jobs:
        n = max(1, len(j["paths"]) // 120)
        for k in range(n):
            jj = dict(j)
            jj["paths"] = j["paths"][k::n]
            split.append(jj)
    with mp.Pool(min(16, max(2, len(split)))) as pool:
        batches = pool.map(worker, split)
        hists = gen_histories(ctx)
        nchunk = min(16, max(1, len(hists) // 25))
        hres = [x for part in pool.map(history_worker, [{"histories": hists[k::nchunk], "prefixes": prefixes, "mutate": mutate}
                                                         for k in range(nchunk)]) for x in part]
        rng_names = ["META", "META\n", "DECOY", "DECOY\n", "../secret/DECOY", "/etc/passwd", "DECOY/../../secret/DECOY", "decoy", "A", "SESSION_LOG", "..", "", "D\u00c9COY"]
        se = pool.apply(schema_end_to_end, ({"names": rng_names},))
        uri_list = [(c.get("base", "sb"), c["source_uri"]) for c in corpus if "source_uri" in c]       # corpus first
        uri_list += [x for x in gen_uris(ctx) if x not in uri_list]
        fu = pool.apply(frozen_and_uri, ({"uris": uri_list, "cli_uris": [x for x in sibling_uris() if "\x00" not in x[1]] + [(c.get("base", "sb"), c["source_uri"]) for c in corpus if "source_uri" in c],
                                           "seed": ctx.rng.randrange(1 << 30), "n_random": ctx.scale(60, 3000),
                                           "hash_histories": gen_hash_histories(ctx)},))
    ctx.extra["rule"] = (
        "corpus first (witnesses of the finding fixed by 039cc0c -- dangling link as last / as directory component, ENOTDIR link, "
        "41-link chain -- must be refused E_PATH by all three tools with an unchanged tree and no read/mutate attempt); then "
        "3 generated trees (sandbox sb/ with dirs, files, links to dir/file inside and outside, dangling, ENOTDIR and cyclic "
        "links; secrets in out/ beside the sandbox), path strings = every last-segment, every (dir-like x last) pair and random "
        "depth-3/4 strings over the segment pool (name, ., .., link-to-dir, link-to-file, dangling, loop, allowed/disallowed/"
        "compound/upper-case extension, empty, trailing slash, NUL, 300-char name), each relative to two working directories and "
        "absolute, each through WriteTool.execute in all six modes (content / normalize / changes, each also with corrections_only), "
        "ValidateTool.execute(file_path), atomic_write_octave and CLI `write --content` / `write --changes` in a child process with "
        "os.*/open interposed and a full snapshot before/after; every file outside the sandbox carries a marker string that must not "
        "occur in any response. One evaluation = one tool call or one schema-name/frozen/URI decision. "
        "distinct non-trivial = distinct (tree, cwd, path, tool) whose path has a '..', link, bad extension, NUL, long or empty "
        "segment, plus accepted schema names and resolved frozen/URI cases")
    os_checked = os_bad = 0
    for b in batches:
        mres = model_batch(b) if have_model else [None] * len(b["results"])
        for r, m in zip(b["results"], mres):
            if "skipped" in r:
                ctx.hist("skipped", r["skipped"])
                continue
            cls = seg_class(r["path"])
            feat = r["feat"]
            depth = len([c for c in r["path"].replace("{B}", "").split("/") if c])
            ctx.hist("path_depth", min(depth, 6))
            ctx.hist("segment_classes", cls)
            ctx.hist("form", "absolute" if r["path"].startswith(("{B}", "/")) else "relative:" + b["cwd"])
            # ---- model of the OS ----
            # out of model: realpath hit a link cycle but CPython's lexical normalisation of the unresolved remainder ('..' after
            # the cyclic link) made Path.resolve return instead of raising; the model reports the cycle as a refusal
            oom = m is not None and m["loop"] and r["res"] != "ERR"
            if oom:
                ctx.hist("out_of_model", "cycle followed by '..' (CPython resolve returns, model refuses)")
            if m is not None and not oom:
                os_checked += 1
                ok = ((m["res"] == r["res"]) and (m["st"][0] == r["st"][0]) and (m["st"][1] == r["st"][1])
                      and (r["st"][2] == "?" or m["st"][2] == r["st"][2]))
                if not ok:
                    os_bad += 1
                    ctx.correspondence_failure({"tree": b["variant"], "cwd": b["cwd"], "path": r["path"], "os": [r["res"], r["st"]],
                                                "model": [m["res"].replace(b["base"], "{B}"), m["st"]]},
                                               "model-of-OS: resolve/exists/is_symlink of the model differ from pathlib on the real tree")
            forbidden = feat["dotdot"] or feat["bad_ext"] or bool(feat["links"])
            for tool, c in r["calls"].items():
                ctx.count()
                oc = c["outcome"]
                ctx.hist("outcome_" + tool, oc)
                case = {"tree": b["variant"], "cwd": b["cwd"], "path": r["path"], "tool": TOOL_NAME[tool],
                        "outcome": oc, "features": feat, "snapshot_diff": c["diff"], "io_ops": c["io"], "failed_io_attempts": c["tried"]}
                if forbidden or cls != "plain":
                    ctx.nontrivial((b["variant"], b["cwd"], r["path"], tool))
                # ---- corpus expectation (witnesses of fixed findings / past failures): refused, nothing read/created/replaced.
                # Exactly what the property text states (any refusal code; the E_PATH verdict itself is compared with the model
                # above), judged from the corpus record alone -- independent of the feature reader and of the model.
                exp = expect.get((b["variant"], b["cwd"], r["path"]))
                if exp is not None and exp.get("expect") == "refused":
                    expect_seen.add((b["variant"], b["cwd"], r["path"]))
                    ctx.hist("corpus_expect_refused", oc)
                    accepted = oc.endswith(":success") or oc == "ACCEPT:read"
                    if accepted or c["diff"] or c["io"]:
                        why = (f"regression of the defect fixed by {exp['fixed']}: " if exp.get("fixed") else "corpus case: ")
                        ctx.property_failure(dict(case, corpus=exp), why + "a path through a symbolic link (dangling / not stat-able / live) "
                                             f"was not refused before a file was read, created or replaced (outcome {oc}, "
                                             f"changed={bool(c['diff'])}, io={bool(c['io'])})")
                        continue
                judge_call(ctx, case, tool, c, feat, m, oom)
    for key in sorted(set(expect) - expect_seen):
        ctx.obligation_failure("corpus", f"corpus case {key} with an expectation was not executed")
    # ---- history stream ----
    hsteps = judge_histories(ctx, hres, have_model)
    ctx.extra["history_stream"] = {
        "histories": len(hres), "steps": hsteps, "surfaces": [TOOL_NAME[t] for t in H_TOOLS],
        "rule": ("per surface: sb/a/b/<name> written/validated while every component is a real directory, then sb/a is REPLACED so that the "
                 "component a, b or the last one is a symbolic link (to an outside dir by absolute / relative target, to a dir inside the "
                 "sandbox, dangling), or the cwd moves to a second sandbox where the same relative string crosses such a link; then the "
                 "IDENTICAL call is repeated in the same process (same tool objects): it must be refused, the tree outside the sandbox "
                 "byte-identical, nothing read; and the reverse order (refused first, link replaced by a real directory, then accepted); "
                 "thorough adds random histories of 4-7 configurations"),
        "model": ("the model has no memory: the verdict expected at step k is validate_* evaluated on the tree as it is immediately "
                  "before step k's call (walk of the real directory) and on step k's cwd -- a function of the CURRENT tree only"),
    }
    ctx.extra["corpus_expectations_replayed"] = len(expect_seen)
    ctx.extra["os_model_checked"] = os_checked
    ctx.extra["os_model_disagreements"] = os_bad
    # ---- finding witnesses (replayed on the implementation every run) ----
    for fid, f in ctx.known.items():
        w = f["witness"]
        if "path" not in w:          # source-URI findings are replayed in the URI stream below
            continue
        still = False
        for b in batches:
            for r in b["results"]:
                if "skipped" not in r and r["path"] == w["path"] and b["variant"] == w.get("tree", 0) and b["cwd"] == w.get("cwd", "sb"):
                    c = r["calls"].get("w")
                    if c and c["outcome"] == "ACCEPT:success" and c["diff"]:
                        still = True
        ctx.finding_witness(fid, still)
    # samples
    for b in batches[:2]:
        for r in [q for q in b["results"] if "skipped" not in q][:2]:
            ctx.sample({"tree": b["variant"], "cwd": b["cwd"], "path": r["path"], "resolve": r["res"].replace(b["base"], "{B}"),
                        "outcomes": {t: c["outcome"] for t, c in r["calls"].items()}})
    # ---- schema names ----
    schema_names(ctx, have_model)
    for n, oc, nops, bad, acc in se["res"]:
        ctx.count()
        if bad:
            ctx.property_failure({"schema_name": n, "touched_outside_search_dirs": bad, "search_dirs": se["dirs"]},
                                 "load_schema_by_name touched a path outside the schema directories")
        if not acc and nops:
            ctx.property_failure({"schema_name": n, "ops": nops}, "refused schema name caused file-system access")
    ctx.sample({"schema_end_to_end": [(n, oc) for n, oc, _, _, _ in se["res"]], "search_dirs": se["dirs"]})
    # ---- frozen refs / URIs ----
    base = fu["base"]
    dg, dbad = fu["digests"]
    if have_model:
        spec = tree_spec(2, base) + sibling_spec(base) + [("sb/cache", "d", "")]
        ents = fs_line(base, spec)
        segs = [c for c in base.split("/") if c]
        orc = fu["oracle"]
        ents += " " + enc_path(segs + ["sb", "cache", dg[:16] + ".oct.md"]) + "|f|" + enc_str(orc[0][0])
        ents += " " + enc_path(segs + ["sb", "cache", dbad[:16] + ".oct.md"]) + "|f|" + enc_str(orc[1][0])
        tbl = " ".join(enc_str(b) + "=" + enc_str(h) for b, h in orc)
        lines = [ents]
        for ref, *_ in fu["frozen"]:
            lines.append("rfrozen " + enc_path(segs + ["sb", "cache"]) + " " + enc_str(ref) + " " + tbl)
        for base_rel, u, *_ in fu["uris"]:
            lines.append("uri " + enc_path(segs + base_rel.split("/")) + " " + enc_str(u.replace("{B}", base)))
        for base_rel, u, *_ in fu["uris"]:
            lines.append("stale " + enc_path(segs + base_rel.split("/")) + " " + enc_str(u.replace("{B}", base)))
        mres = run_driver("pathm", lines)[1:]
    else:
        mres = None
    for i, (ref, oc, okhash, parent_ok, esc) in enumerate(fu["frozen"]):
        ctx.count()
        ctx.hist("frozen", "resolved" if oc.startswith("{B}") else oc.split(":")[0])
        case = {"frozen_ref": ref, "outcome": oc}
        if oc.startswith("{B}"):
            ctx.nontrivial(("frozen", ref))
            want = ref[len("frozen@sha256:"):].lower() if ref.startswith("frozen@sha256:") else None
            if ref != "latest" and (not parent_ok or okhash != want):
                ctx.property_failure(case, "frozen reference resolved to a file outside the cache or with a different digest")
        if esc:
            ctx.property_failure(dict(case, touched=esc), "frozen reference made the resolver read outside the cache directory")
        if mres is not None and ref != "latest":
            m = mres[i]
            mm = "REFUSED" if m == "NONE" else dec_path(m).replace(base, "{B}")
            if mm != oc:
                ctx.correspondence_failure(dict(case, model=mm), "resolve_hermetic_standard differs from the model")
    # ---- frozen content cases: H(bytes of the returned file) = digest, exactly as in frozen_confined ----
    fc = fu["frozen_content"]
    fmod = None
    if have_model:
        lines = []
        for cse in fc:
            cpath = segs + ["sb", "fz", str(cse["k"])]
            ents = ["fs"] + [enc_path(cpath[:i]) + "|d|-" for i in range(1, len(cpath) + 1)]
            ents.append(enc_path(cpath + [cse["digest"][:16] + ".oct.md"]) + "|f|" + enc_str(cse["file_l1"]))
            lines.append(" ".join(ents))
            lines.append("rfrozen " + enc_path(cpath) + " " + enc_str("frozen@sha256:" + cse["digest"]) + " "
                         + enc_str(cse["file_l1"]) + "=" + enc_str(cse["file_sha256"]))
        fmod = run_driver("pathm", lines)[1::2]
    for j, cse in enumerate(fc):
        ctx.count(2 if cse["octave_write"] else 1)
        same = cse["file_sha256"] == cse["digest"]
        oc = cse["outcome"]
        ctx.hist("frozen_content", ("bytes hash to digest" if same else "bytes do NOT hash to digest") + " -> " + ("resolved" if oc.startswith("{B}") else oc))
        ctx.nontrivial(("frozen-content", cse["label"], cse["file_sha256"]))
        case = {"surface": "resolve_hermetic_standard(ref, cache_dir)", "label": cse["label"], "frozen_ref": "frozen@sha256:" + cse["digest"],
                "cache_file": cse["digest"][:16] + ".oct.md", "cache_file_bytes_latin1": cse["file_l1"] if cse["len"] < 3000 else cse["file_l1"][:200] + "...(%d bytes; see label)" % cse["len"],
                "pinned_bytes_latin1": cse["pinned_l1"] if cse["len"] < 3000 else "(see label)", "sha256_of_cache_file_bytes": cse["file_sha256"],
                "outcome": oc, "sha256_of_returned_file_bytes": cse["returned_file_sha256"]}
        if oc.startswith("{B}") and cse["returned_file_sha256"] != cse["digest"]:
            ctx.property_failure(case, "frozen@sha256 reference resolved to a cache file whose BYTES do not hash to the digest")
        ow = cse["octave_write"]
        if ow is not None:
            ctx.hist("frozen_octave_write", ("match" if same else "mismatch") + " -> " + str(ow["validation_status"]))
            if not same and ow["validation_status"] != "UNVALIDATED":
                ctx.property_failure(dict(case, surface="octave_write(schema=frozen@sha256:D), cache ~/.octave/standards", octave_write=ow),
                                     "octave_write validated against a frozen standard whose cached bytes do not hash to the pinned digest")
            if same and ow["validation_status"] == "UNVALIDATED":
                ctx.correspondence_failure(dict(case, octave_write=ow), "octave_write did not use a frozen standard whose cached bytes hash to the digest")
        if fmod is not None:
            mm = "REFUSED" if fmod[j] == "NONE" else dec_path(fmod[j]).replace(base, "{B}")
            if mm != oc:
                ctx.correspondence_failure(dict(case, model=mm), "resolve_hermetic_standard differs from the model (resolve_frozen with H = SHA-256 of the file's bytes)")
    # ---- hash histories: after EVERY call, "returned / validated / FRESH  =>  the bytes on disk hash to D" ----
    hh = fu["hash_histories"]
    hmod = None
    if have_model:
        lines = []
        for h in hh:
            cpath = segs + h["cache_dir"].replace("{B}/", "").split("/")
            for st in h["results"]:
                # the model has no memory: resolve_frozen on the file as it is at this step (H = SHA-256 of its bytes)
                ents = ["fs"] + [enc_path(cpath[:i]) + "|d|-" for i in range(1, len(cpath) + 1)]
                ents.append(enc_path(cpath + [h["file_name"]]) + "|f|" + enc_str(st["file_sha256"]))
                lines.append(" ".join(ents))
                lines.append("rfrozen " + enc_path(cpath) + " " + enc_str("frozen@sha256:" + h["digest"]) + " "
                             + enc_str(st["file_sha256"]) + "=" + enc_str(st["file_sha256"]))
        hmod = run_driver("pathm", lines)[1::2] if lines else []
    hk = 0
    n_hsteps = 0
    for h in hh:
        D = h["digest"]
        for j, st in enumerate(h["results"]):
            n_hsteps += 1
            ctx.count(4)
            same = st["matches"]
            ctx.nontrivial(("hash-history", h["id"], j, st["content"], st["method"]))
            tag = ("bytes hash to D" if same else "bytes do NOT hash to D") + " [" + st["method"] + "]"
            case = {"stream": "hash history (one process; the same reference / manifest is checked again after the file changed on disk)",
                    "frozen_ref": "frozen@sha256:" + D, "history": h["steps"], "step": j, "content_at_step": st["content"],
                    "how_written": st["method"], "sha256_of_file_bytes_now": st["file_sha256"], "pinned_digest": D,
                    "results_of_earlier_steps": [{k: r[k] for k in ("content", "method", "resolve", "octave_write", "check_staleness")}
                                                 for r in h["results"][:j]]}
            cvh = st["compute_vocabulary_hash"]
            ctx.hist("hash_history_compute", tag + " -> " + ("correct" if cvh == "sha256:" + st["file_sha256"] else "WRONG"))
            if cvh != "sha256:" + st["file_sha256"]:
                ctx.property_failure(dict(case, surface="compute_vocabulary_hash(path)", returned=cvh),
                                     "compute_vocabulary_hash returned a digest that is not the SHA-256 of the file's bytes")
            rv = st["resolve"]
            ctx.hist("hash_history_resolve", tag + " -> " + ("resolved" if rv["outcome"].startswith("{B}") else rv["outcome"]))
            if rv["outcome"].startswith("{B}") and rv["returned_file_sha256"] != D:
                ctx.property_failure(dict(case, surface="resolve_hermetic_standard(ref, cache_dir)", result=rv),
                                     "frozen@sha256 reference resolved to a cache file whose BYTES do not hash to the digest")
            if hmod is not None:
                mm = "REFUSED" if hmod[hk] == "NONE" else "resolved"
                got = "resolved" if rv["outcome"].startswith("{B}") else rv["outcome"]
                if mm != got:
                    ctx.correspondence_failure(dict(case, surface="resolve_hermetic_standard", result=rv, model=mm),
                                               "resolve_hermetic_standard differs from the model evaluated on the file as it is at this step")
            hk += 1
            ow = st["octave_write"]
            ctx.hist("hash_history_octave_write", tag + " -> " + str(ow["validation_status"]))
            if not same and ow["validation_status"] != "UNVALIDATED":
                ctx.property_failure(dict(case, surface="octave_write(schema=frozen@sha256:D), cache ~/.octave/standards", result=ow),
                                     "octave_write validated against a frozen standard whose cached bytes do not hash to the pinned digest")
            elif same and ow["validation_status"] == "UNVALIDATED":
                ctx.correspondence_failure(dict(case, surface="octave_write", result=ow),
                                           "octave_write did not use a frozen standard whose cached bytes hash to the digest (stale refusal)")
            cs = st["check_staleness"]
            ctx.hist("hash_history_staleness", tag + " -> " + cs["status"])
            if cs["status"] == "FRESH" and not same:
                ctx.property_failure(dict(case, surface="check_staleness (SOURCE_HASH = sha256:D)", result=cs),
                                     "check_staleness reported FRESH although the source file's bytes do not hash to SOURCE_HASH")
            elif cs["actual_hash"] is not None and cs["actual_hash"] != "sha256:" + st["file_sha256"]:
                ctx.property_failure(dict(case, surface="check_staleness (SOURCE_HASH = sha256:D)", result=cs),
                                     "check_staleness reported an actual_hash that is not the SHA-256 of the source file's bytes")
            elif same and cs["status"] != "FRESH":
                ctx.correspondence_failure(dict(case, surface="check_staleness", result=cs), "check_staleness not FRESH although the bytes hash to SOURCE_HASH")
    ctx.extra["hash_history_stream"] = {
        "histories": len(hh), "steps": n_hsteps,
        "surfaces": ["compute_vocabulary_hash", "resolve_hermetic_standard", "octave_write(schema=frozen@sha256:D)", "check_staleness"],
        "rule": ("one process; per history a fresh pinned text P (digest D) and three files (cache dir, ~/.octave/standards, vocabulary): "
                 "step 1 creates them, every further step rewrites them -- content honest / same length (two variants) / longer / shorter; "
                 "written in place or through a new inode, with the first version's mtime restored (os.utime) or not, or only touched -- "
                 "and then repeats the IDENTICAL calls. After every call: resolved => sha256(bytes of the returned file now) == D; "
                 "bytes != D => octave_write UNVALIDATED; FRESH => bytes hash to SOURCE_HASH; compute_vocabulary_hash == sha256(bytes). "
                 "Orders include refused-first (negative memo). The model is evaluated on the bytes as they are at that step (no memory)")}
    off = len(fu["frozen"])
    def sib_class(u):
        cs = u.replace("{B}", "").split("/")
        if any(c in ("lsib", "lsiba", "lsibf.oct.md", "ldsib", "ldsibf.oct.md") for c in cs):
            return "link-to-prefix-sibling"
        if any(c.startswith(("sb", "d")) and c[len("sb") if c.startswith("sb") else 1:] in SIB_SUFFIXES for c in cs):
            return "abs-prefix-sibling" if u.startswith(("/", "{B}")) else "dotdot-prefix-sibling"
        return "other"

    # corpus records for source URIs: {"base", "source_uri", "expect": "refused", "surfaces": [...], "fixed": commit}
    uri_expect = {}
    for c in corpus:
        if "source_uri" in c and c.get("expect") == "refused":
            uri_expect[(c.get("base", "sb"), c["source_uri"])] = c
    uri_expect_seen = set()
    witness_seen = {}
    nuri = len(fu["uris"])
    for i, (base_rel, u, oc, inside, stale) in enumerate(fu["uris"]):
        ctx.count(2)
        ctx.hist("source_uri", oc.split(" ")[0].split(":")[0])
        sc = sib_class(u)
        ctx.hist("source_uri_class", sc + (":escapes" if stale["escapes"] else ":inside" if stale["escapes"] is False else ":nul"))
        ctx.hist("staleness", ("escaping" if stale["escapes"] else "inside") + " -> " + stale["status"])
        if stale["step1_incomplete"] or stale["step2_incomplete"]:
            ctx.hist("source_uri_loop", ("step1 " if stale["step1_incomplete"] else "") + ("step2" if stale["step2_incomplete"] else ""))
        case = {"source_uri": u, "base": "{B}/" + base_rel, "outcome": oc, "escapes_base(os.path.realpath)": stale["escapes"],
                "first_resolution_step_stops_at_loop": stale["step1_incomplete"], "second_resolution_step_stops_at_loop": stale["step2_incomplete"]}
        if oc.startswith("OK") or sc != "other" or stale["step1_incomplete"]:
            ctx.nontrivial(("uri", base_rel, u))
        scase = dict(case, surface="check_staleness(doc, base_path=base)", staleness=stale)
        # ---- corpus expectations (witnesses of fixed findings): judged from the corpus record alone ----
        exp = uri_expect.get((base_rel, u))
        if exp is not None:
            uri_expect_seen.add((base_rel, u))
            why = f"regression of the defect fixed by {exp.get('fixed', '?')}: "
            surf = exp.get("surfaces", ["validate_source_uri"])
            if "validate_source_uri" in surf and oc.startswith("OK"):
                ctx.property_failure(dict(case, corpus=exp), why + "validate_source_uri accepted a SOURCE_URI that must be refused "
                                     "(cyclic link + '..' + link to a file outside the base)")
            if "check_staleness" in surf and (stale["status"] in ("FRESH", "STALE") or stale["hash"] or stale["outside_reads"]):
                ctx.property_failure(dict(scase, corpus=exp), why + "check_staleness opened / hashed the file behind a SOURCE_URI that must be refused")
        # ---- the property, by surface ----
        fid_uri = URI2_FINDING if stale["step2_incomplete"] else None
        fid_stale = STALE_FINDING if stale["step1_incomplete"] else None
        if (base_rel, u) == URI2_WITNESS:
            witness_seen[URI2_FINDING] = oc.startswith("OK") and not inside
        if (base_rel, u) == STALE_WITNESS:
            witness_seen[STALE_FINDING] = stale["status"] in ("FRESH", "STALE") or bool(stale["outside_reads"])
        if oc.startswith("OK") and not inside:
            ctx.property_failure(case, "source URI resolved outside its base directory (the returned path, links followed, names a file outside)",
                                 finding=fid_uri)
        # check_staleness on a manifest naming this URI: an escaping URI must end in ERROR without a hash, and no file outside the
        # base may be opened for any URI
        if stale["outside_reads"]:
            ctx.property_failure(scase, "check_staleness opened a file outside the base directory of the SOURCE_URI", finding=fid_stale)
        elif stale["escapes"] and (stale["status"] in ("FRESH", "STALE") or stale["hash"]):
            ctx.property_failure(scase, "check_staleness hashed a SOURCE_URI that resolves outside its base directory", finding=fid_stale)
        if mres is not None:
            # validate_source_uri vs validate_uri_src: CPython's realpath incl. its symlink-loop branch is IN the model
            m = mres[off + i]
            mm = ("OK " + dec_path(m.split(" ")[1]).replace(base, "{B}")) if m.startswith("OK") else m
            impl_u = "RAISE" if oc.startswith("RAISE") else oc
            if mm != impl_u:
                ctx.correspondence_failure(dict(case, model=mm), "validate_source_uri differs from the model")
            elif m.startswith("OK") and (m.split(" ")[2] == "0") != bool(stale["step2_incomplete"] if uri_second else stale["step1_incomplete"]):
                ctx.correspondence_failure(dict(case, model=m), "model's `complete` flag differs from posixpath._joinrealpath's ok flag")
            # check_staleness vs stale_uri_src
            ms = mres[off + nuri + i]
            ms_cls = "HASHED" if ms.startswith("HASHED") else ms
            st_cls = "HASHED" if stale["status"] in ("FRESH", "STALE") else "RAISE" if stale["status"].startswith("EXC") else "ERROR"
            if stale["status"] != "NONE" and ms_cls != st_cls:
                ctx.correspondence_failure(dict(scase, model=ms), "check_staleness differs from the model (stale_uri_src)")
    for key in sorted(set(uri_expect) - uri_expect_seen):
        ctx.obligation_failure("corpus", f"corpus source-URI case {key} was not executed")
    ctx.extra["corpus_uri_expectations_replayed"] = len(uri_expect_seen)
    for fid in (URI2_FINDING, STALE_FINDING):
        if fid in ctx.known:
            if fid not in witness_seen:
                ctx.obligation_failure("finding-witness", f"witness of {fid} was not executed")
            ctx.finding_witness(fid, witness_seen.get(fid, False))
    for base_rel, u, oc, info in fu["cli"]:
        ctx.count()
        ctx.hist("cli_hydrate_check", ("escaping" if info["escapes"] else "inside") + " -> " + oc)
        ctx.nontrivial(("cli-hydrate", base_rel, u))
        case = {"surface": "octave hydrate FILE --check --project-root <base>", "source_uri": u, "base": "{B}/" + base_rel, "outcome": oc,
                "escapes_base(os.path.realpath)": info["escapes"], "first_resolution_step_stops_at_loop": info["step1_incomplete"],
                "outside_reads": info["outside_reads"]}
        exp = uri_expect.get((base_rel, u))
        if exp is not None and "hydrate --check" in exp.get("surfaces", []) and (info["outside_reads"] or "FRESH:" in oc or "STALE:" in oc):
            ctx.property_failure(dict(case, corpus=exp), f"regression of the defect fixed by {exp.get('fixed', '?')}: octave hydrate --check "
                                 "opened / hashed the file behind a SOURCE_URI that must be refused")
            continue
        fid = STALE_FINDING if info["step1_incomplete"] else None
        if info["outside_reads"]:
            ctx.property_failure(case, "octave hydrate --check opened a file outside --project-root", finding=fid)
        elif info["escapes"] and ("FRESH:" in oc or "STALE:" in oc):
            ctx.property_failure(case, "octave hydrate --check hashed a SOURCE_URI that resolves outside --project-root", finding=fid)
    ctx.extra["frozen_rule"] = (
        "26 reference strings against one cache; plus content cases (pinned bytes P, cache file X named sha256(P)[:16].oct.md, one cache "
        "dir per case): X = P, CRLF/CR/BOM/newline/white-space variants, first lines crossing the 8 KiB read edge, random single-byte "
        "edits; demanded: sha256(real bytes of the file resolve_hermetic_standard returns) == digest (frozen_confined: H (bytes p) = "
        "digest), model agreement, and octave_write(schema=frozen@sha256:D) stays UNVALIDATED when sha256(X) != D")
    ctx.extra["source_uri_rule"] = (
        "two base directories (sb, sb/d); beside each, sibling directories whose names have the base name as a proper prefix "
        "(<base>-private, <base>2, <base>_old, <base>.bak) with readable .oct.md files, reached via '..', via absolute paths and via "
        "links inside the base (to a sibling dir by relative / absolute target, to a sibling file); each URI through "
        "validate_source_uri (result must be component-wise inside realpath(base); compared with the model, whose containment test "
        "is path_prefixb on COMPONENT lists) and through check_staleness on a manifest naming it (escaping URI => ERROR, no hash; no "
        "open() outside the base under interposition); the explicit sibling URIs also through `octave hydrate --check --project-root`")
    ctx.sample({"frozen": [(r, o) for r, o, *_ in fu["frozen"][:6]]})
    ctx.sample({"source_uri": [(bb, u, o, st["status"]) for bb, u, o, _, st in fu["uris"] if "sb-private" in u or "sb2" in u][:8]})
    ctx.sample({"cli_hydrate_check": [(bb, u, o) for bb, u, o, _ in fu["cli"][:6]]})
    ctx.assumptions += [
        "file-system model: tree of dirs/files/links; kernel walk with at most 40 followed links, NAME_MAX 255 code points (ASCII names in the generators), total path below PATH_MAX; validated against pathlib on every generated (tree, path) (os_model_checked / os_model_disagreements)",
        "Path.resolve(strict=False): a resolution needing more than 200 link expansions is treated as a cycle (out of model; CPython would resolve it or hit its recursion limit)",
        "os.getcwd() returns a normalised absolute path; no concurrent modification of the tree between the validator and the write block (races are C16/C17)",
        "refused_before_io is about the call-site order extracted by the translator (helper calls before the validator call site are IO-free: checked at run time by the interposition record, not proved)",
        "SHA-256 is an oracle passed as a table to the model (resolve_frozen)",
        "the /private carve-out (first path component resolving below /private/) is in the model and in the theorem statement; it cannot be exercised on this host without writing to /",
    ]
    ctx.trusted_base += ["interposition of os.* / builtins.open in the child process and os.walk snapshots (harness/props/c19.py)"]
