"""C04 -- every scalar survives write-then-read with value and type intact."""
from __future__ import annotations

import itertools
import math
import unicodedata

from lib import corefrag, lexcorr
from lib.model import enc_str, dec_str, run_driver

LEVEL = "proof"
DRIVERS = ["syn"]

ALPHA = list('aZ_9.-/ \n\r"\\:[],<>{}$#\u00a7\u2192\u2295\u29fa\u21cc\u2227\u2228@~|&+%=`;()\t!\u00e9') + \
    ['\u0301', '\U0001F600', '\x01', 'true', 'false', 'null', 'vs', '//', '::', '->', '<->', '===', 'n', 't']
POSITIONS = ("assign", "meta", "list", "map")
FINDING_OF_CLASS = {3: "C04-reserved-segment", 4: "C04-annotation-qualifier"}


def build_doc(v, pos, key):
    from octave_mcp.core.ast_nodes import Assignment, Document, InlineMap, ListValue
    if pos == "assign":
        return Document(name="D", sections=[Assignment(key=key, value=v)])
    if pos == "meta":
        return Document(name="D", meta={key: v})
    if pos == "list":
        return Document(name="D", sections=[Assignment(key="L", value=ListValue(items=[v]))])
    return Document(name="D", sections=[Assignment(key="L", value=ListValue(items=[InlineMap(pairs={key: v})]))])


def read_back(v, pos, key):
    """-> (status, value, emitted_text)"""
    from octave_mcp.core.emitter import emit
    from octave_mcp.core.parser import parse
    t = emit(build_doc(v, pos, key))
    try:
        d2 = parse(t)
    except Exception as e:  # noqa
        return ("EXC:" + type(e).__name__, None, t)
    try:
        if pos == "assign":
            r = d2.sections[0].value
        elif pos == "meta":
            r = d2.meta[key]
        elif pos == "list":
            r = d2.sections[0].value.items[0]
        else:
            r = d2.sections[0].value.items[0].pairs[key]
    except Exception as e:  # noqa
        return ("SHAPE:" + type(e).__name__, None, t)
    return ("OK", r, t)


def same(v, r):
    if isinstance(v, str):
        return type(r) is str and r == unicodedata.normalize("NFC", v)
    if v is None:
        return r is None
    if isinstance(v, bool):
        return type(r) is bool and r == v
    if isinstance(v, int):
        return type(r) is int and r == v
    if isinstance(v, float):
        return type(r) is float and r == v and math.copysign(1, r) == math.copysign(1, v)
    return False


def nfc_escape_clause(s):
    """The escape letter written for a newline/tab is changed by NFC of the emitted line: it composes with a combining
    mark of the run that follows it (a mark composes with the letter unless blocked by an earlier mark of the same or a
    higher combining class, e.g. TAB U+0338 U+0308: t + U+0308 -> U+1E97 although U+0338 stands in between)."""
    for i, ch in enumerate(s[:-1]):
        if ch in "\n\t":
            letter = "n" if ch == "\n" else "t"
            j = i + 1
            while j < len(s) and unicodedata.combining(s[j]) != 0:
                j += 1
            run = s[i + 1:j]
            if run and unicodedata.normalize("NFC", letter + run)[0] != letter:
                return True
    return False


def gen_strings(ctx):
    out = []
    for a in ALPHA:
        out.append(a)
    for a, b in itertools.product(ALPHA, repeat=2):
        out.append(a + b)
    if not ctx.quick():
        for t in itertools.product(ALPHA, repeat=3):
            out.append("".join(t))
    rng = ctx.rng
    pool = ALPHA + list("abcXYZ019") + ["\u0338", "\u0308", "\\n", "\\t", "A<b>", "A<b,c>", "A<>", "X\u2192Y", "true.x", "$V", "1.2.3"]
    for _ in range(ctx.scale(4000, 60000)):
        n = rng.randint(1, 60) if rng.random() < 0.3 else rng.randint(1, 8)
        out.append("".join(rng.choice(pool) for _ in range(n)))
    return out


def gen_numbers(ctx):
    rng = ctx.rng
    ints = [0, 1, -1, 7, -42, 2**31, -2**31, 2**53 + 1, 2**63, -2**64, 2**200, -(2**200) + 1, 10**15, 10**16]
    ints += [rng.randint(-10**rng.randint(1, 40), 10**rng.randint(1, 40)) for _ in range(ctx.scale(300, 5000))]
    floats = [0.0, -0.0, 1.0, -1.5, 1e16, 1e-7, 1e22, 1.5e-05, 2.5e+16, 6.02e+23, -1.2345e-10, 4.2e-07, 1.7976931348623157e308, 5e-324, 2.2250738585072014e-308,
              0.1, 1 / 3, 2.0**53, 2.0**53 + 2, 123456789.125, 1e100, -1e-100, 3.14]
    for _ in range(ctx.scale(300, 5000)):
        import struct
        while True:
            f = struct.unpack("<d", rng.getrandbits(64).to_bytes(8, "little"))[0]
            if math.isfinite(f):
                break
        floats.append(f)
    return ints, floats


def write_tool_roundtrip(v, key):
    """octave_write(changes={key: v}) on a fresh file, then re-read the file. -> (status, value)"""
    import asyncio
    import os
    import shutil
    import tempfile
    from octave_mcp.mcp.write import WriteTool
    from octave_mcp.core.parser import parse
    d = tempfile.mkdtemp(prefix="c04w")
    try:
        p = os.path.join(d, "f.oct.md")
        with open(p, "w") as f:
            f.write("===D===\nOTHER::1\n===END===\n")
        res = asyncio.run(WriteTool().execute(target_path=p, changes={key: v}))
        if res.get("status") != "success":
            return ("WRITE-ERROR", res.get("errors"))
        doc = parse(open(p).read())
        for s in doc.sections:
            if getattr(s, "key", None) == key:
                return ("OK", s.value)
        return ("MISSING", None)
    finally:
        shutil.rmtree(d, ignore_errors=True)


def write_tool_over_existing(old, new, key):
    """the file already holds key::old; octave_write(changes={key: new}); re-read. -> (status, value).
    key 'K' = body assignment, 'META.K' = META field."""
    import asyncio
    import os
    import shutil
    import tempfile
    from octave_mcp.core.ast_nodes import Assignment, Document
    from octave_mcp.core.emitter import emit
    from octave_mcp.core.parser import parse
    from octave_mcp.mcp.write import WriteTool
    d = tempfile.mkdtemp(prefix="c04x")
    try:
        p = os.path.join(d, "f.oct.md")
        if key.startswith("META."):
            doc0 = Document(name="D", meta={"TYPE": "T", key[5:]: old}, sections=[Assignment(key="OTHER", value=1)])
        else:
            doc0 = Document(name="D", sections=[Assignment(key="OTHER", value=1), Assignment(key=key, value=old)])
        with open(p, "w") as f:
            f.write(emit(doc0))
        res = asyncio.run(WriteTool().execute(target_path=p, changes={key: new}))
        if res.get("status") != "success":
            return ("WRITE-ERROR", res.get("errors"))
        doc = parse(open(p).read())
        if key.startswith("META."):
            return ("OK", doc.meta[key[5:]]) if key[5:] in doc.meta else ("MISSING", None)
        for sec in doc.sections:
            if getattr(sec, "key", None) == key:
                return ("OK", sec.value)
        return ("MISSING", None)
    finally:
        shutil.rmtree(d, ignore_errors=True)


# scalars that are pairwise "close": equal under Python == across types (1 == True == 1.0), same spelling across kinds
OVER_POOL = [0, 1, 2, -1, True, False, 0.0, 1.0, 2.0, -1.0, -0.0, "0", "1", "true", "false", "True", "null", "", "x", "1.0", 10**20, 1e+20]


def changes_over_existing(ctx):
    """a value set through octave_write(changes) over an EXISTING value of the same key must be read back with the new
    value and type, for every ordered pair of the pool (a change that is 'equal' to the old value under == is still a
    change of kind: 1 -> True, 2 -> 2.0, "1" -> 1), in a body assignment and in a META field"""
    n = 0
    for key in ("K", "META.K"):
        for old in OVER_POOL:
            for new in OVER_POOL:
                if type(old) is type(new) and repr(old) == repr(new):
                    continue
                if isinstance(new, str) and new == "":
                    pass
                try:
                    st, r = write_tool_over_existing(old, new, key)
                except Exception as e:  # noqa
                    ctx.property_failure({"old": repr(old), "new": repr(new), "key": key, "via": "octave_write changes over existing"},
                                         f"octave_write raised {type(e).__name__}: {e}")
                    continue
                n += 1
                ctx.count()
                ctx.nontrivial(("over", key, repr(old), repr(new)))
                if not (st == "OK" and same(new, r)):
                    ctx.property_failure({"old": repr(old), "new": repr(new), "key": key, "via": "octave_write changes over existing",
                                          "status": st, "read_back": repr(r)},
                                         "scalar set through octave_write(changes) over an existing value does not survive with value and type")
    ctx.extra["write_over_existing"] = n


def numeric_twins(ctx):
    """run FIRST: history-dependent defects (caches keyed by value) show only before the process has emitted much"""
    # numeric twins: an int and the equal float (1 == 1.0 and hash(1) == hash(1.0) in Python) emitted in one process
    #      and in one document, in both orders, must each keep their own type ----
    from octave_mcp.core.ast_nodes import Assignment, Document, ListValue
    from octave_mcp.core.emitter import emit
    from octave_mcp.core.parser import parse
    for n in [0, 1, 3, 7, 250, -5, 10**6, 2**53]:
        for first, second in ((n, float(n)), (float(n), n), (n, -float(n) if n == 0 else float(n))):
            ctx.count()
            ctx.nontrivial(("twin", repr(first), repr(second)))
            t = emit(Document(name="D", sections=[Assignment(key="A", value=first), Assignment(key="B", value=second),
                                                  Assignment(key="L", value=ListValue(items=[second, first]))]))
            try:
                d2 = parse(t)
                got = [d2.sections[0].value, d2.sections[1].value] + list(d2.sections[2].value.items)
                ok = same(first, got[0]) and same(second, got[1]) and same(second, got[2]) and same(first, got[3])
            except Exception as e:  # noqa
                got, ok = f"EXC {type(e).__name__}", False
            if not ok:
                ctx.property_failure({"values": [repr(first), repr(second)], "emitted": t, "read_back": repr(got)},
                                     "an int and the equal float written in one document do not both keep value and type")


def run(ctx):
    numeric_twins(ctx)
    # scalars in assignment position at every depth (theorem C04_scalars_survive_text_core)
    corefrag.run(ctx, ctx.scale(150, 3000), ctx.build_status["drivers"].get("syn", False))
    corefrag.run3(ctx, ctx.scale(150, 3000), ctx.build_status["drivers"].get("syn", False))
    corefrag.run4(ctx, ctx.scale(150, 3000), ctx.build_status["drivers"].get("syn", False))
    have_model = ctx.build_status["drivers"].get("syn", False)
    ctx.extra["rule"] = ("strings: exhaustive length<=2 (thorough: <=3) over a %d-symbol alphabet of lexer-significant "
                         "classes and multi-character atoms + random strings up to 60 atoms; ints up to 2^200 and "
                         "random; finite floats incl. subnormal/2^53/-0.0 and random bit patterns; bool; null; each in "
                         "4 positions x {plain key, PATTERN}. non-trivial = distinct (value,position,key) whose "
                         "emitted text differs from the plain value text or is not a bare identifier" % len(ALPHA))
    strings = gen_strings(ctx)
    ints, floats = gen_numbers(ctx)
    # ---- model side (one batch) ----
    uniq = sorted(set(strings))
    m_emit, m_emit_f, m_class, m_class_f = {}, {}, {}, {}
    if have_model:
        okm = [s for s in uniq if lexcorr.in_model(s)]
        lines = []
        for s in okm:
            e = enc_str(s)
            lines += [f"emitstr 0 {e}", f"emitstr 1 {e}", f"sclass 0 {e}", f"sclass 1 {e}"]
        res = run_driver("syn", lines)
        for i, s in enumerate(okm):
            m_emit[s] = dec_str(res[4 * i])
            m_emit_f[s] = dec_str(res[4 * i + 1])
            m_class[s] = int(res[4 * i + 2])
            m_class_f[s] = int(res[4 * i + 3])
    from octave_mcp.core.emitter import emit_value
    emitted_docs = []
    # ---- regressions of repaired defects (corpus/C04): every listed value must survive in all four positions ----
    import json as _json
    from pathlib import Path as _Path
    for cf in sorted((_Path(__file__).resolve().parents[2] / "corpus" / "C04").glob("*.json")):
        for v in _json.loads(cf.read_text()).get("values", []):
            for pos in POSITIONS:
                for key in ("K", "PATTERN"):
                    ctx.count()
                    st, r, t = read_back(v, pos, key)
                    if not (st == "OK" and same(v, r)):
                        ctx.property_failure({"value": v, "position": pos, "key": key, "emitted": t, "status": st, "read_back": repr(r),
                                              "corpus": cf.name}, f"string scalar does not survive emit/parse ({st}) (corpus {cf.name})")
    # ---- known finding witnesses ----
    for fid, f in ctx.known.items():
        w = f["witness"]
        st, r, t = read_back(w["value"], w.get("position", "assign"), w.get("key", "K"))
        ctx.finding_witness(fid, not (st == "OK" and same(w["value"], r)))
    # ---- strings ----
    for s in uniq:
        try:
            s.encode("utf-8")
        except UnicodeEncodeError:
            continue
        for key in ("K", "PATTERN"):
            force = key == "PATTERN"
            # correspondence: emitted scalar text (list/meta positions never force-quote)
            if have_model and s in m_emit:
                impl_txt = emit_value(s)
                ctx.count()
                if impl_txt != m_emit[s]:
                    ctx.correspondence_failure({"value": s, "impl": impl_txt, "model": m_emit[s]}, "emit_value(str) differs from model emit_str")
            for pos in POSITIONS:
                ctx.count()
                st, r, t = read_back(s, pos, key)
                forced = force and pos in ("assign", "map")
                if have_model and s in m_emit:
                    want = m_emit_f[s] if forced else m_emit[s]
                    if want not in t:
                        ctx.correspondence_failure({"value": s, "pos": pos, "key": key, "text": t, "model_scalar": want},
                                                   "emitted document does not contain the model's scalar text")
                if t.count("\n") <= 6 and (pos, key) == ("assign", "K"):
                    emitted_docs.append(t)
                nontriv = t.find(s) < 0 or not s.isidentifier()
                if nontriv:
                    ctx.nontrivial((s, pos, key))
                ctx.hist("string_len", min(len(s), 20))
                if st == "OK" and same(s, r):
                    continue
                # the implementation violates the property on this case: attribute by the model's clauses
                fid = None
                if have_model and s in m_class:
                    c = m_class_f[s] if forced else m_class[s]
                    if c in FINDING_OF_CLASS:
                        fid = FINDING_OF_CLASS[c]
                    elif c == 0 and nfc_escape_clause(s):
                        fid = "C04-nfc-after-escape"
                ctx.hist("failure_class", fid or "unattributed")
                ctx.property_failure({"value": s, "codepoints": [ord(c) for c in s], "position": pos, "key": key,
                                      "emitted": t, "status": st, "read_back": repr(r)},
                                     f"string scalar does not survive emit/parse ({st})", finding=fid)
    ctx.sample({"value": "a\\b\"c\n", "position": "map", "key": "PATTERN", "emitted": read_back("a\\b\"c\n", "map", "PATTERN")[2]})
    ctx.sample({"value": uniq[len(uniq) // 2], "position": "assign"})
    # ---- numbers, bool, null ----
    for v in ints + floats + [True, False, None]:
        for pos in POSITIONS:
            ctx.count()
            st, r, t = read_back(v, pos, "K")
            ctx.nontrivial((repr(v), pos))
            ctx.hist("scalar_kind", type(v).__name__)
            if not (st == "OK" and same(v, r)):
                ctx.property_failure({"value": repr(v), "position": pos, "emitted": t, "status": st, "read_back": repr(r)},
                                     f"{type(v).__name__} scalar does not survive emit/parse ({st})")
    ctx.sample({"value": repr(floats[5]), "emitted": read_back(floats[5], "list", "K")[2]})
    # ---- lexer correspondence on emitted documents ----
    if have_model:
        docs = sorted(set(emitted_docs))
        step = max(1, len(docs) // ctx.scale(6000, 60000))
        docs = docs[::step]
        bad, n = lexcorr.compare(docs)
        ctx.count(n)
        ctx.extra["lexer_correspondence_docs"] = n
        for t, i, m in bad[:20]:
            ctx.correspondence_failure({"text": t, "impl": i[:400], "model": m[:400]}, "tokenize(text) differs from the lexer model")
    # ---- through octave_write(changes=...) ----
    sample = ctx.rng.sample(uniq, min(len(uniq), ctx.scale(150, 2000)))
    sample += ["a b", "x\ny", 'q"r', "\\", "1", "true", ""]
    wt = 0
    for s in sample:
        if not lexcorr.in_model(s) or s.startswith("DELETE") or "\r" in s:
            continue
        try:
            st, r = write_tool_roundtrip(s, "K")
        except Exception as e:  # noqa
            fid = None
            if have_model and s in m_class and m_class[s] in FINDING_OF_CLASS:
                fid = FINDING_OF_CLASS[m_class[s]]      # e.g. NAME<a,b>: written bare, the re-read inside the tool is refused
            ctx.property_failure({"value": s, "via": "octave_write changes"}, f"octave_write raised {type(e).__name__}: {e}", finding=fid)
            continue
        wt += 1
        ctx.count()
        if st == "OK" and same(s, r):
            continue
        fid = None
        if have_model and s in m_class and m_class[s] in FINDING_OF_CLASS:
            fid = FINDING_OF_CLASS[m_class[s]]
        elif nfc_escape_clause(s):
            fid = "C04-nfc-after-escape"
        ctx.property_failure({"value": s, "via": "octave_write changes", "status": st, "read_back": repr(r)},
                             f"scalar set through octave_write(changes) does not survive ({st})", finding=fid)
    for v in [0, -5, 2**70, 1.5, -0.0, True, False]:
        st, r = write_tool_roundtrip(v, "K")
        ctx.count()
        if not (st == "OK" and same(v, r)):
            ctx.property_failure({"value": repr(v), "via": "octave_write changes", "status": st, "read_back": repr(r)},
                                 "scalar set through octave_write(changes) does not survive")
    changes_over_existing(ctx)
    ctx.extra["write_tool_roundtrips"] = wt
    ctx.assumptions += [
        "float(text)/repr(float) and int(text)/str(int) of CPython are trusted (numbers are compared on the implementation only)",
        "unicodedata NFC and general categories are an oracle supplied per case to the lexer model",
    ]
