"""C10 -- validation status is always present and never overstated (I5).

For content {valid, each kind of invalid, unparseable (tokenise / parse / nesting), plain text, fenced, empty}
x schema argument {packaged, generated on the search path (cwd/specs/schemas), field-less, unloadable, unknown,
lower-case, path-like, malformed, frozen@sha256:.. / latest (hermetic cache under $HOME)} x flag combinations of
each tool, the real ValidateTool / WriteTool / EjectTool / CompileGrammarTool `.execute(**args)` is called and

  (K) the FACTS of the execution are measured independently of the tool (direct calls to tokenize / parse /
      parse_with_warnings, get_builtin_schema / load_schema_by_name / resolve_hermetic_standard+load_schema,
      Validator(...).validate, repair, emit, file-system predicates), fed to the extracted Coq model
      (build/bin/env = Tools/Envelope.v interpreting the guard table Gen/StatusGen.v) and the envelope fields the
      property names are compared: validation_status, valid, schema_name / schema_version presence,
      validation_errors emptiness, validation_error_count, status  (CLI: the `validation_status:` line, exit code);
  (P) the property text itself is evaluated on every response, independently of the model:
      status in {VALIDATED, UNVALIDATED, INVALID}; VALIDATED => parsed, schema found, no blocking error;
      schema not found / tokenise or parse failure => UNVALIDATED; INVALID => STRICT/STANDARD, >= 1 error
      (list, or count when compact), schema name and version; valid <=> VALIDATED where `valid` exists;
      a canonical returned as VALIDATED re-validates as VALIDATED under the same schema and profile.
A failing response is attributed to a listed finding only by that finding's clause (computed from the measured
facts), otherwise it is a failure.
"""
from __future__ import annotations

import asyncio
import hashlib
import json
import os
import re
import shutil
import subprocess
import sys
import tempfile
import time
from pathlib import Path

LEVEL = "proof"
COQ_TARGETS = ["theories/Tools/EnvelopeFacts.vo", "theories/Tools/EnvelopePins.vo"]
DRIVERS = ["env"]
ALLOWED_AXIOMS = ()

VERIF = Path(__file__).resolve().parents[2]
CORPUS = VERIF / "corpus" / "C10"
STATUSES = ("VALIDATED", "UNVALIDATED", "INVALID")
PROFILES = ["STRICT", "STANDARD", "LENIENT", "ULTRA"]
# no open finding.  C10-salvage-validated (octave_write lenient + parse_error_policy="salvage" answered VALIDATED for
# content that does not tokenise) was repaired in /repo f3e003d; its witnesses stay in corpus/C10 as must-pass regressions.


# ------------------------------------------------------------------------------------------------------------
# implementation API (imported lazily: PYTHONPATH is set by ./check to $VERIF_REPO/src)
class _Api:
    pass


_API = None


def api():
    global _API
    if _API is None:
        a = _Api()
        from octave_mcp.core.emitter import emit
        from octave_mcp.core.lexer import tokenize
        from octave_mcp.core.parser import parse, parse_with_warnings
        from octave_mcp.core.repair import repair
        from octave_mcp.core.validator import Validator
        from octave_mcp.core.hydrator import resolve_hermetic_standard
        from octave_mcp.core.gbnf_compiler import GBNFCompiler
        from octave_mcp.core.schema_extractor import extract_schema_from_document
        from octave_mcp.schemas.loader import get_builtin_schema, load_schema, load_schema_by_name
        from octave_mcp.mcp.validate import ValidateTool
        from octave_mcp.mcp.write import WriteTool
        from octave_mcp.mcp.eject import EjectTool
        from octave_mcp.mcp import compile_grammar as CG
        a.emit, a.tokenize, a.parse, a.parse_with_warnings, a.repair, a.Validator = emit, tokenize, parse, parse_with_warnings, repair, Validator
        a.resolve_hermetic_standard, a.GBNFCompiler, a.extract_schema = resolve_hermetic_standard, GBNFCompiler, extract_schema_from_document
        a.get_builtin_schema, a.load_schema, a.load_schema_by_name = get_builtin_schema, load_schema, load_schema_by_name
        a.ValidateTool, a.WriteTool, a.EjectTool, a.CompileGrammarTool, a.CG = ValidateTool, WriteTool, EjectTool, CG.CompileGrammarTool, CG
        a.loop, a.pid = asyncio.new_event_loop(), os.getpid()
        _API = a
    if _API.pid != os.getpid():          # forked worker: never share the parent's loop
        _API.loop, _API.pid = asyncio.new_event_loop(), os.getpid()
    return _API


def call(tool, args):
    """exactly `await tool.execute(**args)` on this process' event loop"""
    return api().loop.run_until_complete(tool.execute(**args))


# ------------------------------------------------------------------------------------------------------------
# the world: a temp root that is the cwd (schemas are searched in cwd/specs/schemas) and two $HOMEs
def schema_text(name, policy, fields):
    body = "".join('  %s::["%s"∧%s→§SELF]\n' % (k, ex, chain) for k, ex, chain in fields)
    return ('===%s===\nMETA:\n  TYPE::PROTOCOL_DEFINITION\n  VERSION::"1.0"\n\nPOLICY:\n  VERSION::"1.0"\n  UNKNOWN_FIELDS::%s\n\n'
            'FIELDS:\n%s===END===\n' % (name, policy, body))


STD_FIELDS = [("NAME", "ex", "REQ∧TYPE[STRING]"), ("STATE", "ACTIVE", "OPT∧ENUM[ACTIVE,DONE]"), ("COUNT", "1", "OPT∧TYPE[NUMBER]"),
              ("CODE", "abc", 'OPT∧REGEX["^[a-z]+$"]'), ("RATIO", "1", "OPT∧TYPE[NUMBER]∧RANGE[0,100]")]
SCHEMA_FILES = {
    "GENA": schema_text("GENA", "REJECT", STD_FIELDS),
    "GENW": schema_text("GENW", "WARN", STD_FIELDS),
    "GENEMPTY": '===GENEMPTY===\nMETA:\n  TYPE::PROTOCOL_DEFINITION\n  VERSION::"1.0"\n===END===\n',   # loads, no fields
    "GENBROKEN": "===GENBROKEN===\nFIELDS:\n  NAME::[a,b\n===END===\n",                                   # does not parse
}
HERMA_TEXT = schema_text("HERMA", "REJECT", STD_FIELDS)     # $HOME/.octave/standards/default.oct.md  ("latest")
HERMF_TEXT = schema_text("HERMF", "REJECT", STD_FIELDS)     # pinned by its sha256
HERMX_TEXT = schema_text("HERMX", "REJECT", STD_FIELDS)     # cached under a digest that is not its sha256
D_OK = hashlib.sha256(HERMF_TEXT.encode()).hexdigest()
D_MISMATCH = hashlib.sha256(b"something else").hexdigest()
D_UNCACHED = "ab" * 32
REF_OK, REF_MISMATCH, REF_UNCACHED = "frozen@sha256:" + D_OK, "frozen@sha256:" + D_MISMATCH, "frozen@sha256:" + D_UNCACHED

# (class, schema argument)
SCHEMA_ARGS = [
    ("packaged", "META"), ("packaged", "SKILL"), ("packaged", "DEBATE_TRANSCRIPT"), ("packaged", "TEST_HOLOGRAPHIC"),
    ("generated", "GENA"), ("generated", "GENW"), ("generated-fieldless", "GENEMPTY"), ("generated-unloadable", "GENBROKEN"),
    ("unknown", "NOPE"), ("unknown", "SESSION_LOG"),
    ("lower-case", "meta"), ("lower-case", "gena"), ("lower-case", "Skill"),
    ("path-like", "../specs/schemas/gena"), ("path-like", "specs/schemas/gena.oct.md"), ("path-like", "GENA/../GENA"),
    ("path-like", "/etc/passwd"), ("path-like", "./GENA"), ("path-like", "GENA.oct.md"),
    ("malformed", ""), ("malformed", " META"), ("malformed", "META "), ("malformed", "META\n"), ("malformed", "1GENA"),
    ("malformed", "GEN-A"), ("malformed", "M\u00c9TA"), ("malformed", "GENA\x00"),
    ("hermetic", "latest"), ("hermetic", REF_OK), ("hermetic", REF_MISMATCH), ("hermetic", REF_UNCACHED),
    ("hermetic-malformed", "frozen@sha256:../evil"), ("hermetic-malformed", "frozen@sha256:abc"), ("hermetic-malformed", "frozen@"),
    ("hermetic-malformed", "LATEST"),
]


SCHEMA_CLASS = {s: c for c, s in SCHEMA_ARGS}
SCHEMA_CLASS.update({"latest": "hermetic:latest", REF_OK: "hermetic:frozen-ok", REF_MISMATCH: "hermetic:frozen-hash-mismatch",
                     REF_UNCACHED: "hermetic:frozen-not-cached"})


class World:
    def __init__(self):
        self.old_cwd = os.getcwd()
        self.old_home = os.environ.get("HOME")
        self.root = os.path.realpath(tempfile.mkdtemp(prefix="c10_"))
        sd = os.path.join(self.root, "specs", "schemas")
        os.makedirs(sd)
        for name, text in SCHEMA_FILES.items():
            with open(os.path.join(sd, name.lower() + ".oct.md"), "w", encoding="utf-8") as f:
                f.write(text)
        self.homes = {"full": os.path.join(self.root, "home_full"), "empty": os.path.join(self.root, "home_empty")}
        std = os.path.join(self.homes["full"], ".octave", "standards")
        os.makedirs(std)
        os.makedirs(self.homes["empty"])
        for fn, text in (("default.oct.md", HERMA_TEXT), (D_OK[:16] + ".oct.md", HERMF_TEXT), (D_MISMATCH[:16] + ".oct.md", HERMX_TEXT)):
            with open(os.path.join(std, fn), "w", encoding="utf-8") as f:
                f.write(text)
        self.n = 0
        os.chdir(self.root)
        self.set_home("full")

    def set_home(self, which):
        os.environ["HOME"] = self.homes[which]

    def fresh_dir(self):
        self.n += 1
        d = os.path.join(self.root, "case%d" % self.n)
        os.makedirs(d)
        return d

    def close(self):
        os.chdir(self.old_cwd)
        if self.old_home is None:
            os.environ.pop("HOME", None)
        else:
            os.environ["HOME"] = self.old_home
        shutil.rmtree(self.root, ignore_errors=True)


# ------------------------------------------------------------------------------------------------------------
# contents.  `%(B)s` is the block key = envelope name of the schema the case is paired with (so that the section is
# actually validated against it), GENA otherwise.
def _doc(body, meta='  TYPE::TEST\n  VERSION::"1.0"\n'):
    return "===INST===\n" + (("META:\n" + meta) if meta is not None else "") + "%(B)s:\n" + body + "===END===\n"


FM_OK = "---\nname: x\ndescription: y\nallowed-tools: [a]\n---\n"
CONTENTS = [
    # (label, kind, template)
    ("valid", "valid", _doc('  NAME::"bob"\n  STATE::ACTIVE\n  COUNT::3\n')),
    ("valid-meta-status", "valid", _doc('  NAME::"bob"\n', '  TYPE::TEST\n  VERSION::"1.0"\n  STATUS::ACTIVE\n')),
    ("valid-no-meta", "valid", _doc('  NAME::"bob"\n', None)),
    ("valid-frontmatter", "valid", FM_OK + _doc('  NAME::"bob"\n')),
    ("valid-skill", "valid", FM_OK + _doc('  TYPE::SKILL\n  VERSION::"1.0"\n  STATUS::ACTIVE\n')),
    ("valid-debate", "valid", _doc('  THREAD_ID::"t-1"\n  TOPIC::"x"\n  MODE::fixed\n  STATUS::active\n  PARTICIPANTS::[Wind,Wall]\n  TURNS::[t1,t2]\n')),
    ("valid-holographic", "valid", _doc('  NAME::"x"\n  STATUS::ACTIVE\n')),
    ("valid-literal-zone", "valid", _doc('  NAME::"bob"\n') .replace("===END===\n", "CODE::\n```python\nprint(1)\n```\n===END===\n")),
    ("invalid-missing-required", "invalid", _doc("  STATE::ACTIVE\n")),
    ("invalid-enum-casefold", "invalid", _doc('  NAME::"bob"\n  STATE::active\n')),
    ("invalid-enum", "invalid", _doc('  NAME::"bob"\n  STATE::zzz\n')),
    ("invalid-type", "invalid", _doc('  NAME::5\n  COUNT::"x"\n')),
    ("invalid-unknown-field", "invalid", _doc('  NAME::"bob"\n  EXTRA::1\n')),
    ("invalid-regex", "invalid", _doc('  NAME::"bob"\n  CODE::"ABC"\n')),
    ("invalid-range", "invalid", _doc('  NAME::"bob"\n  RATIO::250\n')),
    ("invalid-frontmatter-type", "invalid", "---\nname: x\ndescription: y\nallowed-tools: notalist\n---\n" + _doc('  TYPE::SKILL\n  VERSION::"1.0"\n')),
    ("invalid-meta-missing", "invalid", _doc('  NAME::"bob"\n', "  TYPE::TEST\n")),
    ("invalid-meta-enum-casefold", "invalid", _doc('  NAME::"bob"\n', '  TYPE::TEST\n  VERSION::"1.0"\n  STATUS::active\n')),
    ("invalid-meta-enum", "invalid", _doc('  NAME::"bob"\n', '  TYPE::TEST\n  VERSION::"1.0"\n  STATUS::zzz\n')),
    ("invalid-meta-unknown-strict", "invalid", _doc('  NAME::"bob"\n', '  TYPE::TEST\n  VERSION::"1.0"\n  EXTRA::1\n')),
    ("invalid-frontmatter", "invalid", "---\nname: x\n---\n" + _doc('  TYPE::SKILL\n  VERSION::"1.0"\n')),
    ("unparseable-tokenise", "unparseable", _doc("  NAME::{a:1}\n")),
    ("unparseable-bracket", "unparseable", _doc("  NAME::[a,b\n")),
    ("unparseable-tab", "unparseable", "\tK::v\n"),
    ("unparseable-parse", "unparseable", _doc("  NAME : v\n")),
    ("unparseable-nesting", "unparseable", "K::" + "[" * 120 + "]" * 120 + "\n"),
    ("unparseable-frontmatter-tokens", "lenient-only", "---\nname: [x\n---\n" + _doc('  NAME::"bob"\n')),
    ("curly-annotation", "lenient-only", _doc('  NAME::"bob"\n  TAG{q}::x\n')),
    ("plain-text", "other", "plain text here, no structure\n"),
    ("markdown-fence", "other", "```octave\n" + _doc('  NAME::"bob"\n') + "```\n"),
    ("empty", "other", ""),
    ("blank", "other", "  \n\n"),
]
CONTENT_BY_LABEL = {c[0]: c for c in CONTENTS}


def block_key_for(schema):
    """envelope name of the schema files this module knows (by construction), GENA otherwise"""
    return {"SKILL": "SKILL_SCHEMA", "DEBATE_TRANSCRIPT": "DEBATE_TRANSCRIPT", "TEST_HOLOGRAPHIC": "TEST_HOLOGRAPHIC",
            "GENW": "GENW", "GENEMPTY": "GENEMPTY", "latest": "HERMA", REF_OK: "HERMF", REF_MISMATCH: "HERMX"}.get(schema, "GENA")


def content_text(label, schema):
    return CONTENT_BY_LABEL[label][2] % {"B": block_key_for(schema)} if "%(B)s" in CONTENT_BY_LABEL[label][2] else CONTENT_BY_LABEL[label][2]


# ------------------------------------------------------------------------------------------------------------
# measured facts shared by the tools
FROZEN_RE = re.compile(r"frozen@sha256:([0-9a-fA-F]{64})")


def own_hermetic_slot(name):
    """The cache file a `latest` / `frozen@sha256:<H>` reference denotes AT THIS MOMENT, or None: $HOME/.octave/standards/
    default.oct.md if it exists; <H[:16]>.oct.md if it exists and the sha256 of its bytes, computed here and now, is H."""
    std = Path(os.environ.get("HOME", "")) / ".octave" / "standards"
    if name == "latest":
        p = std / "default.oct.md"
        return p if p.exists() else None
    m = FROZEN_RE.fullmatch(name) if isinstance(name, str) else None
    if m is None:
        return None
    digest = m.group(1).lower()
    p = std / (digest[:16] + ".oct.md")
    try:
        return p if hashlib.sha256(p.read_bytes()).hexdigest() == digest else None
    except OSError:
        return None


def schema_facts(name, hermetic):
    """What the loaders answer for `name`.  hermetic=True: frozen@ / latest go through the hermetic resolver (the
    dispatch octave_write documents); otherwise only the by-name loader."""
    A = api()
    out = {"builtin": False, "loaded": False, "fields": False, "bdef": None, "sd": None, "load_exc": False}
    if not isinstance(name, str):
        return out
    out["bdef"] = A.get_builtin_schema(name)
    out["builtin"] = out["bdef"] is not None
    try:
        if hermetic and (name.startswith("frozen@") or name == "latest"):
            # the harness resolves the reference ITSELF (reads the slot and hashes its bytes now); never through
            # core.hydrator, whose answer is what is being checked
            slot = own_hermetic_slot(name)
            if slot is None:
                raise LookupError(name)
            sd = A.load_schema(slot)
        else:
            sd = A.load_schema_by_name(name)
    except Exception:
        sd = None
        out["load_exc"] = True
    out["sd"] = sd
    out["loaded"] = sd is not None
    out["fields"] = bool(sd is not None and sd.fields)
    return out


def found(sf):
    return bool(sf["builtin"] or (sf["loaded"] and sf["fields"]))


def section_schemas(sf):
    return {sf["sd"].name: sf["sd"]} if (sf["sd"] is not None and sf["sd"].fields) else None


def errors_of(doc, sf, strict):
    A = api()
    return A.Validator(schema=sf["bdef"]).validate(doc, strict=strict, section_schemas=section_schemas(sf))


def obs_envelope(res, echo=0, exit_code=0):
    """the envelope fields the property names, in the codes of Tools/Envelope.v"""
    if not isinstance(res, dict):
        return "notadict"
    vs = res.get("validation_status", None)
    c_vs = 0 if "validation_status" not in res else {"VALIDATED": 1, "UNVALIDATED": 2, "INVALID": 3}.get(vs, 4) if isinstance(vs, str) else 4
    c_valid = 0 if "valid" not in res else (1 if res["valid"] is True else 2 if res["valid"] is False else 3)
    c_name = 1 if res.get("schema_name") is not None else 0
    c_ver = 1 if res.get("schema_version") is not None else 0
    ve = res.get("validation_errors")
    c_ve = 0 if "validation_errors" not in res else (3 if not isinstance(ve, list) else 2 if ve else 1)
    vc = res.get("validation_error_count")
    c_vc = 0 if "validation_error_count" not in res else (3 if not isinstance(vc, int) or isinstance(vc, bool) else 2 if vc > 0 else 1)
    st = res.get("status")
    c_st = 0 if "status" not in res else {"success": 1, "error": 2}.get(st, 3) if isinstance(st, str) else 3
    return "%d %d %d %d %d %d %d %d %d" % (c_vs, c_valid, c_name, c_ver, c_ve, c_vc, c_st, echo, exit_code)


def b(x):
    return "1" if x else "0"


class Rec:
    """result of one case"""
    def __init__(self, case):
        self.case = case
        self.line = None        # model input
        self.obs = None         # observed envelope (same format as the model's answer)
        self.cmp = "tool"       # which fields are compared: tool = first 7, cli = last 2
        self.fails = []         # [(what, finding id | None)]
        self.hist = []          # [(name, bucket)]
        self.raised = None
        self.key = None
        self.nontrivial = False
        self.calls = 0
        self.status = None

    def fail(self, what, finding=None):
        self.fails.append((what, finding))

    def pack(self):
        return {"case": self.case, "line": self.line, "obs": self.obs, "cmp": self.cmp, "fails": self.fails, "hist": self.hist,
                "raised": self.raised, "nontrivial": self.nontrivial, "calls": self.calls, "status": self.status}


def generic_property(rec, res, *, text_ok, parse_ok, is_found, blocking_errs, profile_idx, finding_if_parse_fail=None):
    """The property text on one response, from independently measured facts.
    text_ok: the tool had a content to look at; parse_ok: it tokenises and parses; is_found: a schema was actually
    found for the schema argument; blocking_errs: the validator reports errors that block under the profile;
    profile_idx: 0 STRICT 1 STANDARD 2 LENIENT 3 ULTRA, None = the tool has no profile."""
    vs = res.get("validation_status") if isinstance(res, dict) else None
    rec.status = vs if isinstance(vs, str) else repr(vs)
    if not (isinstance(vs, str) and vs in STATUSES):
        rec.fail("status-missing: response carries validation_status=%r, not one of VALIDATED/UNVALIDATED/INVALID" % (vs,))
        return
    parse_fail = text_ok and not parse_ok
    if vs == "VALIDATED":
        if not text_ok:
            rec.fail("validated-no-content: VALIDATED although no content was accepted for validation")
        elif parse_fail:
            rec.fail("validated-parse-failure: VALIDATED although the content does not tokenise/parse", finding_if_parse_fail)
        elif not is_found:
            rec.fail("validated-no-schema: VALIDATED although no schema was found for the schema argument")
        elif blocking_errs:
            rec.fail("validated-with-errors: VALIDATED although the validator reports blocking errors")
    elif parse_fail and vs != "UNVALIDATED":
        rec.fail("parse-failure-not-unvalidated: tokenise/parse failure but validation_status=%s" % vs, finding_if_parse_fail)
    if vs != "UNVALIDATED" and vs != "VALIDATED" and text_ok and parse_ok and not is_found:
        rec.fail("no-schema-not-unvalidated: schema unknown/malformed/unloadable but validation_status=%s" % vs)
    if vs == "INVALID":
        ve, vc = res.get("validation_errors"), res.get("validation_error_count")
        n_ok = (isinstance(ve, list) and len(ve) >= 1) or (isinstance(vc, int) and not isinstance(vc, bool) and vc >= 1)
        if not n_ok:
            rec.fail("invalid-without-errors: INVALID with validation_errors=%r validation_error_count=%r" % (ve, vc))
        if res.get("schema_name") is None or res.get("schema_version") is None:
            rec.fail("invalid-without-schema: INVALID without schema_name/schema_version")
        if profile_idx is not None and profile_idx not in (0, 1):
            rec.fail("invalid-under-lenient-profile: INVALID under profile %s" % (PROFILES[profile_idx] if profile_idx < 4 else "?"))
    if "valid" in res and (res["valid"] is True) != (vs == "VALIDATED"):
        rec.fail("valid-mismatch: valid=%r but validation_status=%s" % (res["valid"], vs))


# ------------------------------------------------------------------------------------------------------------
# octave_validate
def real_path(W, d, kind, text):
    """materialise a file_path / target of the given kind inside directory d"""
    if kind == "ok":
        p = os.path.join(d, "in.oct.md")
        with open(p, "w", encoding="utf-8") as f:
            f.write(text or "")
    elif kind == "missing":
        p = os.path.join(d, "missing.oct.md")
    elif kind == "badext":
        p = os.path.join(d, "in.txt")
        with open(p, "w", encoding="utf-8") as f:
            f.write(text or "")
    elif kind == "traversal":
        os.makedirs(os.path.join(d, "a"), exist_ok=True)
        p = os.path.join(d, "a", "..", "in.oct.md")
        with open(os.path.join(d, "in.oct.md"), "w", encoding="utf-8") as f:
            f.write(text or "")
    elif kind == "dir":
        p = os.path.join(d, "dir.oct.md")
        os.makedirs(p)
    elif kind == "binary":
        p = os.path.join(d, "bin.oct.md")
        with open(p, "wb") as f:
            f.write(b"K::\xff\xfe\n")
    elif kind == "parent_file":
        with open(os.path.join(d, "afile"), "w") as f:
            f.write("x")
        p = os.path.join(d, "afile", "t.oct.md")
    else:
        raise ValueError(kind)
    return p


def profile_index(praw, res):
    """exact names by construction; other spellings (lower case, empty, None) through the echoed `profile`"""
    if isinstance(praw, str) and praw in PROFILES:
        return PROFILES.index(praw)
    if praw is None or praw == "" or (isinstance(praw, str) and praw.upper() in PROFILES):
        echo = res.get("profile") if isinstance(res, dict) else None
        return PROFILES.index(echo) if echo in PROFILES else 4
    return 4


def run_validate(W, case):
    A = api()
    rec = Rec(case)
    W.set_home(case.get("home", "full"))
    d = W.fresh_dir()
    try:
        schema = case["schema"]
        flags = dict(case.get("flags", {}))
        args = {"schema": schema}
        args.update(flags)
        inp = case.get("input", "content")
        text_in = case["content"]
        fp = None
        if inp in ("content", "both"):
            args["content"] = text_in
        if inp not in ("content", "neither"):
            fp = real_path(W, d, "ok" if inp == "both" else inp, text_in)
            args["file_path"] = fp
        tool = A.ValidateTool()
        # ---- measured facts
        f = dict(content="content" in args, file=fp is not None, path_ok=False, exists=False, read_ok=False, parse_ok=False,
                 builtin=False, loaded=False, fields=False, errs=False, compact=bool(flags.get("compact")), emit_ok=True)
        text = None
        if f["content"] and not f["file"]:
            text = text_in
        elif f["file"] and not f["content"]:
            f["path_ok"] = bool(tool._validate_path(fp)[0])      # path policy is C19's subject; used as an oracle here
            f["exists"] = os.path.exists(fp)
            try:
                text = Path(fp).read_text(encoding="utf-8")
                f["read_ok"] = True
            except Exception:
                text = None
            if not (f["path_ok"] and f["exists"]):
                text = None
        try:
            rec.calls += 1
            res = call(tool, args)
        except Exception as e:  # not a response (C20's subject)
            rec.raised = "%s: %s" % (type(e).__name__, str(e)[:120])
            rec.hist.append(("validate:outcome", "raised:" + type(e).__name__))
            return rec
        pidx = profile_index(flags.get("profile", "STANDARD"), res)
        sf = None
        doc = None
        errs = []
        if text is not None and pidx < 4:
            try:
                doc, _ = A.parse_with_warnings(text)
                f["parse_ok"] = True
            except Exception:
                doc = None
            if doc is not None:
                sf = schema_facts(schema, hermetic=False)
                f["builtin"], f["loaded"], f["fields"] = sf["builtin"], sf["loaded"], sf["fields"]
                if found(sf):
                    errs = errors_of(doc, sf, strict=(pidx == 0))
                    f["errs"] = bool(errs)
                else:
                    errs = A.Validator(schema=None).validate(doc, strict=False, section_schemas=section_schemas(sf))
                try:
                    if flags.get("fix"):
                        doc2, _log = A.repair(doc, errs, fix=True, schema=sf["sd"])
                        A.emit(doc2)
                    else:
                        A.emit(doc)
                except Exception:
                    f["emit_ok"] = False
        rec.line = "validate %d %s %s %s %s %s %s %s %s %s %s %s %s %s %s %s %s" % (
            pidx, b(f["content"]), b(f["file"]), b(f["path_ok"]), b(f["exists"]), b(f["read_ok"]), b(f["parse_ok"]), b(f["builtin"]),
            b(f["loaded"]), b(f["fields"]), b(f["errs"]), b(f["compact"]), b(f["emit_ok"]),
            b(flags.get("fix")), b(flags.get("diff_only")), b(flags.get("grammar_hint")), b(flags.get("debug_grammar")))
        rec.obs = obs_envelope(res)
        text_ok = text is not None and pidx < 4
        lenient_profile = pidx in (2, 3)
        generic_property(rec, res, text_ok=text_ok, parse_ok=f["parse_ok"], is_found=bool(sf and found(sf)),
                         blocking_errs=f["errs"] and not lenient_profile, profile_idx=pidx if pidx < 4 else None)
        rec.nontrivial = text_ok
        rec.hist.append(("validate:status", rec.status))
        rec.hist.append(("validate:profile", PROFILES[pidx] if pidx < 4 else "invalid"))
        # ---- the returned canonical, re-validated under the same schema and profile
        if isinstance(res, dict) and res.get("validation_status") == "VALIDATED" and isinstance(res.get("canonical"), str):
            a2 = {"content": res["canonical"], "schema": schema}
            if "profile" in flags:
                a2["profile"] = flags["profile"]
            try:
                rec.calls += 1
                r2 = call(A.ValidateTool(), a2)
                if r2.get("validation_status") != "VALIDATED":
                    rec.fail("revalidate: canonical returned as VALIDATED re-validates as %r under the same schema and profile"
                             % (r2.get("validation_status"),))
                rec.hist.append(("validate:revalidated", str(r2.get("validation_status"))))
            except Exception as e:
                rec.fail("revalidate: re-validating the VALIDATED canonical raised %s" % type(e).__name__)
        return rec
    finally:
        shutil.rmtree(d, ignore_errors=True)


# ------------------------------------------------------------------------------------------------------------
# octave_write
def sha(text):
    return hashlib.sha256(text.encode("utf-8")).hexdigest()


def strict_tokenize_input(text):
    """what the strict path of octave_write tokenises: since /repo c296b0f the text with its YAML frontmatter blanked (the
    helper parse() itself uses), before that the raw text.  Decided from the source of the tool that is under test."""
    import inspect
    A = api()
    try:
        if "_strip_yaml_frontmatter" in inspect.getsource(A.WriteTool.execute):
            from octave_mcp.core.parser import _strip_yaml_frontmatter
            return _strip_yaml_frontmatter(text)[0]
    except Exception:
        pass
    return text


def lenient_repairs(doc, sf, errs, lenient):
    """the repairs octave_write applies in lenient mode before it decides (enum casefold for the builtin dict
    schema, core.repair for a loaded definition), re-validated with the real Validator -> final error list"""
    A = api()
    V = A.Validator(schema=sf["bdef"])
    ss = section_schemas(sf)
    if lenient and sf["bdef"] is not None and errs:
        did = False
        for fname, spec in sf["bdef"].get("META", {}).get("fields", {}).items():
            if spec.get("type") != "ENUM":
                continue
            cur = doc.meta.get(fname)
            vals = spec.get("values", [])
            if not isinstance(cur, str) or cur in vals:
                continue
            m = [v for v in vals if isinstance(v, str) and v.lower() == cur.lower()]
            if len(m) == 1:
                doc.meta[fname] = m[0]
                did = True
        if did:
            A.emit(doc)
            errs = V.validate(doc, strict=False, section_schemas=ss)
    if lenient and sf["sd"] is not None and errs:
        try:
            doc, _log = A.repair(doc, errs, fix=True, schema=sf["sd"])
            A.emit(doc)
            errs = V.validate(doc, strict=False, section_schemas=ss)
        except Exception:
            pass
    return doc, errs


def run_write(W, case):
    A = api()
    rec = Rec(case)
    W.set_home(case.get("home", "full"))
    d = W.fresh_dir()
    try:
        flags = dict(case.get("flags", {}))
        schema = case.get("schema")
        mode = case["mode"]                     # content | normalize | changes | both
        tkind = case.get("target", "new")       # new | existing | badext | traversal | dir | parent_file | binary
        content = case.get("content")
        pre = case.get("pre")
        if tkind == "new":
            target = os.path.join(d, "out.oct.md")
        elif tkind == "existing":
            target = real_path(W, d, "ok", pre if pre is not None else "")
        else:
            target = real_path(W, d, tkind, pre)
        args = {"target_path": target}
        if schema is not None:
            args["schema"] = schema
        args.update(flags)
        if mode in ("content", "both"):
            args["content"] = content
        if mode in ("changes", "both"):
            args["changes"] = case.get("changes")
        bh = case.get("base_hash", "none")
        exists = os.path.exists(target)
        baseline = None
        if exists:
            try:
                with open(target, encoding="utf-8") as fh:
                    baseline = fh.read()
            except Exception:
                baseline = None
        if bh == "right":
            args["base_hash"] = sha(baseline or "")
        elif bh == "wrong":
            args["base_hash"] = "0" * 64
        tool = A.WriteTool()
        # ---- measured facts (before the call: the call changes the file system)
        pol = flags.get("parse_error_policy", "error")
        lenient = bool(flags.get("lenient"))
        f = dict(policy=0 if pol == "error" else 1 if pol == "salvage" else 2, path_ok=bool(tool._validate_path(target)[0]),
                 content="content" in args, changes="changes" in args, exists=exists, io=0, base_hash=bool(args.get("base_hash")),
                 lenient=lenient, pst=0, emit_ok=True, schema=bool(schema), builtin=False, loaded=False, fields=False, errs=False,
                 post=0 if flags.get("corrections_only") else 1)
        doc = None
        reached = f["policy"] < 2 and f["path_ok"] and not (f["content"] and f["changes"])
        text = None                                  # the text whose parse decides
        parse_ok = False
        salvaged = False
        if reached:
            hash_bad = f["base_hash"] and sha(baseline or "") != args.get("base_hash")
            if f["changes"]:
                if not exists:
                    reached = False
                elif baseline is None:
                    f["io"], reached = 1, False
                elif hash_bad:
                    f["io"], reached = 2, False
                else:
                    text = baseline
                    try:
                        doc = A.parse(baseline)
                        parse_ok = True
                    except Exception:
                        f["io"], reached = 3, False
                    if doc is not None:
                        try:
                            doc = tool._apply_changes(doc, args["changes"])
                        except Exception:
                            f["io"], reached, doc = 4, False, None
            else:
                if not f["content"]:
                    if not exists:
                        reached = False
                    elif baseline is None:
                        f["io"], reached = 1, False
                    elif hash_bad:
                        f["io"], reached = 2, False
                    else:
                        text = baseline
                else:
                    text = content
                    if exists and hash_bad:
                        f["io"], reached = 2, False
                if reached:
                    # pre-processing of octave_write (helpers of the tool; the parse verdicts are measured on their result)
                    pi, _ = tool._unwrap_markdown_code_fence(text)
                    if lenient:
                        structured = (re.search(r"(?m)^[ \t]*[A-Za-z_][A-Za-z0-9_.]*::", pi) is not None
                                      or re.search(r"(?m)^===.+===\s*$", pi) is not None)
                        if structured:
                            pi, _ = tool._repair_curly_brace_annotations(pi)
                        elif pi.strip():
                            pi, _ = tool._wrap_plain_text_as_doc(pi, schema)
                        try:
                            doc, _ = A.parse_with_warnings(pi)
                            parse_ok = True
                        except Exception as e:
                            try:
                                A.tokenize(pi)
                                f["pst"] = 2
                            except Exception:
                                f["pst"] = 1
                            if f["policy"] == 1:
                                salvaged = True
                                doc, _ = tool._localized_salvage(text, str(e), schema)
                            else:
                                reached = False
                    else:
                        try:
                            A.tokenize(strict_tokenize_input(pi))
                            try:
                                doc = A.parse(pi)
                                parse_ok = True
                            except Exception:
                                f["pst"], reached = 2, False
                        except Exception:
                            f["pst"], reached = 1, False
        sf = None
        if reached and doc is not None:
            try:
                A.emit(doc)
            except Exception:
                f["emit_ok"], reached = False, False
        if reached and doc is not None and f["schema"]:
            sf = schema_facts(schema, hermetic=True)
            f["builtin"], f["loaded"], f["fields"] = sf["builtin"], sf["loaded"], sf["fields"]
            if found(sf):
                errs = errors_of(doc, sf, strict=False)
                doc, errs = lenient_repairs(doc, sf, errs, lenient)
                f["errs"] = bool(errs)
        if reached and f["post"] == 1:
            if os.path.isdir(target) or tkind == "parent_file":
                f["post"] = 5
        # ---- the call
        try:
            rec.calls += 1
            res = call(tool, args)
        except Exception as e:
            rec.raised = "%s: %s" % (type(e).__name__, str(e)[:120])
            rec.hist.append(("write:outcome", "raised:" + type(e).__name__))
            return rec
        rec.line = "write %d %s %s %s %s %d %s %s %d %s %s %s %s %s %s %d %s %s" % (
            f["policy"], b(f["path_ok"]), b(f["content"]), b(f["changes"]), b(f["exists"]), f["io"], b(f["base_hash"]), b(f["lenient"]),
            f["pst"], b(f["emit_ok"]), b(f["schema"]), b(f["builtin"]), b(f["loaded"]), b(f["fields"]), b(f["errs"]), f["post"],
            b(flags.get("grammar_hint")), b(flags.get("debug_grammar")))
        rec.obs = obs_envelope(res)
        text_ok = text is not None
        # (C10-salvage-validated was repaired in /repo f3e003d: a salvaged call that is not UNVALIDATED is a plain failure)
        generic_property(rec, res, text_ok=text_ok, parse_ok=parse_ok, is_found=bool(sf and found(sf)),
                         blocking_errs=f["errs"], profile_idx=None)
        rec.nontrivial = text_ok
        rec.hist.append(("write:status", rec.status))
        rec.hist.append(("write:mode", mode + ("/lenient" if lenient else "") + ("/salvaged" if salvaged else "")))
        # ---- what was written as VALIDATED is VALIDATED again (normalize-mode octave_write; octave_validate)
        if (isinstance(res, dict) and res.get("validation_status") == "VALIDATED" and res.get("status") == "success"
                and not flags.get("corrections_only") and os.path.isfile(target)):
            try:
                rec.calls += 1
                a2 = {"target_path": target, "schema": schema, "corrections_only": True}
                if lenient:
                    a2["lenient"] = True
                r2 = call(A.WriteTool(), a2)
                if r2.get("validation_status") != "VALIDATED":
                    rec.fail("revalidate: file written as VALIDATED is %r for octave_write (normalize) under the same schema"
                             % (r2.get("validation_status"),))
                rec.hist.append(("write:revalidated-write", str(r2.get("validation_status"))))
                if not (schema.startswith("frozen@") or schema == "latest"):
                    rec.calls += 1
                    with open(target, encoding="utf-8") as fh:
                        written = fh.read()
                    r3 = call(A.ValidateTool(), {"content": written, "schema": schema})
                    if r3.get("validation_status") != "VALIDATED":
                        rec.fail("revalidate: file written as VALIDATED is %r for octave_validate under the same schema"
                                 % (r3.get("validation_status"),))
                    rec.hist.append(("write:revalidated-validate", str(r3.get("validation_status"))))
            except Exception as e:
                rec.fail("revalidate: re-validating the VALIDATED file raised %s: %s" % (type(e).__name__, str(e)[:80]))
        return rec
    finally:
        shutil.rmtree(d, ignore_errors=True)


# ------------------------------------------------------------------------------------------------------------
# octave_eject / octave_compile_grammar
FORMAT_IDX = {"json": 1, "yaml": 2, "markdown": 3, "gbnf": 4}


def run_eject(W, case):
    A = api()
    rec = Rec(case)
    W.set_home(case.get("home", "full"))
    args = {"schema": case["schema"]}
    if case.get("content") is not None:
        args["content"] = case["content"]
    args.update(case.get("flags", {}))
    content = args.get("content")
    parse_ok = False
    doc = None
    if content is not None:
        try:
            doc = A.parse(content)
            parse_ok = True
        except Exception:
            pass
    try:
        rec.calls += 1
        res = call(A.EjectTool(), args)
    except Exception as e:
        rec.raised = "%s: %s" % (type(e).__name__, str(e)[:120])
        rec.hist.append(("eject:outcome", "raised:" + type(e).__name__))
        return rec
    rec.line = "eject %s %s %d" % (b(content is not None), b(parse_ok), FORMAT_IDX.get(args.get("format", "octave"), 0))
    rec.obs = obs_envelope(res)
    sf = schema_facts(case["schema"], hermetic=False)
    errs = bool(errors_of(doc, sf, strict=False)) if (doc is not None and found(sf)) else False
    generic_property(rec, res, text_ok=content is not None, parse_ok=parse_ok, is_found=found(sf), blocking_errs=errs, profile_idx=None)
    rec.nontrivial = content is not None
    rec.hist.append(("eject:status", rec.status))
    rec.hist.append(("eject:format/mode", "%s/%s" % (args.get("format", "octave"), args.get("mode", "canonical"))))
    return rec


def run_grammar(W, case):
    A = api()
    rec = Rec(case)
    W.set_home(case.get("home", "full"))
    args = {}
    if case.get("schema") is not None:
        args["schema"] = case["schema"]
    if case.get("content") is not None:
        args["content"] = case["content"]
    args.update(case.get("flags", {}))
    fmt = args.get("format", "gbnf")
    f = dict(format=0 if fmt == "gbnf" else 1 if fmt == "json_schema" else 2, schema="schema" in args, content="content" in args,
             load_exc=False, loaded=False, parse_ok=False, meta=False, contract=False, resolved=False, compile_exc=False)
    sd = None
    sf = None
    doc = None
    if f["format"] < 2 and f["schema"] != f["content"]:
        if f["schema"]:
            sf = schema_facts(args["schema"], hermetic=False)
            f["load_exc"], f["loaded"] = sf["load_exc"], sf["loaded"]
            sd = sf["sd"]
        else:
            try:
                doc = A.parse(args["content"])
                f["parse_ok"] = True
            except Exception:
                doc = None
            if doc is not None:
                f["meta"] = bool(doc.meta)
                f["contract"] = bool(doc.meta) and "CONTRACT" in doc.meta
                if not f["contract"]:
                    try:
                        sd = A.extract_schema(doc)
                        f["resolved"] = sd is not None
                    except Exception:
                        sd = None
                else:
                    f["resolved"] = True        # the CONTRACT branch builds its own definition (json_schema) or returns (gbnf)
        if sd is not None:
            try:
                if f["format"] == 0:
                    A.GBNFCompiler().compile_schema(sd, include_envelope=True)
                else:
                    A.CG._gbnf_to_json_schema(sd)
            except Exception:
                f["compile_exc"] = True
    try:
        rec.calls += 1
        res = call(A.CompileGrammarTool(), args)
    except Exception as e:
        rec.raised = "%s: %s" % (type(e).__name__, str(e)[:120])
        rec.hist.append(("grammar:outcome", "raised:" + type(e).__name__))
        return rec
    if f["contract"] and f["format"] == 1:
        rec.line = None      # CONTRACT -> json_schema: the definition is built inline (out of the fact vocabulary); property only
    else:
        rec.line = "grammar %d %s %s %s %s %s %s %s %s %s" % (
            f["format"], b(f["schema"]), b(f["content"]), b(f["load_exc"]), b(f["loaded"]), b(f["parse_ok"]), b(f["meta"]),
            b(f["contract"]), b(f["resolved"]), b(f["compile_exc"]))
    rec.obs = obs_envelope(res)
    text_ok = f["content"] and not f["schema"] and f["format"] < 2
    generic_property(rec, res, text_ok=text_ok, parse_ok=f["parse_ok"], is_found=bool(sf and sf["loaded"]), blocking_errs=False,
                     profile_idx=None)
    if isinstance(res, dict) and res.get("validation_status") == "VALIDATED":
        rec.fail("validated-no-validation: octave_compile_grammar applies no schema to any document but reports VALIDATED")
    rec.nontrivial = bool(f["format"] < 2 and f["schema"] != f["content"])
    rec.hist.append(("grammar:status", rec.status))
    rec.hist.append(("grammar:outcome", str(res.get("status")) if isinstance(res, dict) else "?"))
    return rec


# ------------------------------------------------------------------------------------------------------------
# CLI: `octave validate` / `octave write`  (in-process CliRunner; thorough: real subprocesses as well)
LINE_RE = re.compile(r"^validation_status: (.*)$", re.M)


def cli_observe(output, exit_code):
    m = LINE_RE.findall(output or "")
    echo = 0
    if m:
        echo = {"VALIDATED": 1, "UNVALIDATED": 2, "INVALID": 3}.get(m[-1].strip(), 4)
    return echo, exit_code


def cli_argv(W, case, d):
    """-> (argv, stdin text | None, facts-context)"""
    cmd = case["tool"]
    a = case["cli"]
    argv = ["validate" if cmd == "cli_validate" else "write"]
    stdin = None
    ctxd = {}
    if cmd == "cli_validate":
        if a.get("file"):
            fp = os.path.join(d, "in.oct.md")
            with open(fp, "w", encoding="utf-8") as fh:
                fh.write(case["content"])
            argv.append(fp)
        if a.get("stdin"):
            argv.append("--stdin")
            stdin = case["content"]
        if a.get("schema") is not None:
            argv += ["--schema", a["schema"]]
        for flag, opt in (("fix", "--fix"), ("verify_seal", "--verify-seal"), ("require_seal", "--require-seal")):
            if a.get(flag):
                argv.append(opt)
    else:
        tk = a.get("target", "new")
        if tk == "new":
            fp = os.path.join(d, "out.oct.md")
        elif tk == "existing":
            fp = os.path.join(d, "out.oct.md")
            with open(fp, "w", encoding="utf-8") as fh:
                fh.write(a.get("pre") or "")
        else:
            fp = os.path.join(d, "out.txt")
        ctxd["target"] = fp
        argv.append(fp)
        if a.get("content_opt"):
            argv += ["--content", case["content"]]
        if a.get("stdin"):
            argv.append("--stdin")
            stdin = case["content"]
        if a.get("changes") is not None:
            argv += ["--changes", a["changes"]]
        if a.get("schema") is not None:
            argv += ["--schema", a["schema"]]
        bh = a.get("base_hash", "none")
        if bh == "right":
            argv += ["--base-hash", sha(a.get("pre") or "")]
        elif bh == "wrong":
            argv += ["--base-hash", "0" * 64]
    return argv, stdin, ctxd


def cli_facts(W, case, argv, ctxd):
    """-> (model line | None, dict(parse_ok, found, errs_final, text_ok))"""
    A = api()
    a = case["cli"]
    content = case.get("content")
    schema = a.get("schema")
    if case["tool"] == "cli_validate":
        f = dict(file=bool(a.get("file")), stdin=bool(a.get("stdin")), require=bool(a.get("require_seal")), verify=bool(a.get("verify_seal")),
                 exc=False, schema=bool(schema), builtin=False, errs=False, errs_ns=False, fix=bool(a.get("fix")), errs_after=False, seal=0)
        info = dict(text_ok=False, parse_ok=False, found=False, builtin=False, errs_final=False)
        runs = not (f["file"] and f["stdin"]) and not (f["require"] and not f["verify"]) and (f["file"] or f["stdin"])
        if runs:
            info["text_ok"] = True
            try:
                doc = A.parse(content)
                info["parse_ok"] = True
                sd = A.load_schema_by_name(schema) if schema else None
                bdef = A.get_builtin_schema(schema) if schema else None
                f["builtin"] = bdef is not None
                info["builtin"] = f["builtin"]
                info["found"] = f["builtin"] or bool(sd is not None and sd.fields)
                f["errs_ns"] = bool(A.Validator(schema=None).validate(doc, strict=False))
                if schema and bdef is not None:
                    errs = A.Validator(schema=bdef).validate(doc, strict=False)
                    f["errs"] = bool(errs)
                else:
                    errs = A.Validator(schema=None).validate(doc, strict=False)
                final = bool(errs)
                if f["fix"] and errs:
                    doc, _log = A.repair(doc, errs, fix=True, schema=sd)
                    if schema:
                        errs = A.Validator(schema=A.get_builtin_schema(schema)).validate(doc, strict=False)
                        f["errs_after"] = bool(errs)
                        final = bool(errs)
                info["errs_final"] = final
                A.emit(doc)
                if f["verify"]:
                    from octave_mcp.core.sealer import SealStatus, verify_seal
                    st = verify_seal(doc).status
                    f["seal"] = 0 if st == SealStatus.VERIFIED else 1 if st == SealStatus.INVALID else 2
            except Exception:
                f["exc"] = True
        line = "cliv %s %s %s %s %s %s %s %s %s %s %s %d" % (
            b(f["file"]), b(f["stdin"]), b(f["require"]), b(f["verify"]), b(f["exc"]), b(f["schema"]), b(f["builtin"]), b(f["errs"]),
            b(f["errs_ns"]), b(f["fix"]), b(f["errs_after"]), f["seal"])
        info["errs_noschema"] = f["errs_ns"]
        return line, info
    # ---- octave write
    from octave_mcp.core.file_ops import validate_octave_path
    target = ctxd["target"]
    n_src = int(bool(a.get("content_opt"))) + int(bool(a.get("stdin"))) + int(a.get("changes") is not None)
    f = dict(sources=min(n_src, 2), path_ok=bool(validate_octave_path(target)[0]), content=bool(a.get("content_opt") or a.get("stdin")),
             exists=os.path.exists(target), exc=0, schema=bool(schema), builtin=False, errs=False, write_err=False)
    info = dict(text_ok=False, parse_ok=False, found=False, builtin=False, errs_final=False)
    if n_src == 1 and f["path_ok"]:
        doc = None
        try:
            if f["content"]:
                info["text_ok"] = True
                doc = A.parse(content)
                info["parse_ok"] = True
                A.emit(doc)
            elif f["exists"]:
                info["text_ok"] = True
                doc = A.parse(Path(target).read_text(encoding="utf-8"))
                info["parse_ok"] = True
                ch = json.loads(a["changes"])
                from octave_mcp.core.ast_nodes import Assignment
                for k, v in ch.items():
                    if k.startswith("META."):
                        doc.meta[k[5:]] = v
                    elif k == "META" and isinstance(v, dict):
                        doc.meta = v.copy()
                    else:
                        hit = False
                        for s in doc.sections:
                            if isinstance(s, Assignment) and s.key == k:
                                s.value = v
                                hit = True
                                break
                        if not hit:
                            doc.sections.append(Assignment(key=k, value=v))
                A.emit(doc)
        except json.JSONDecodeError:
            f["exc"], doc = 1, None
        except Exception:
            f["exc"], doc = 2, None
        if doc is not None and schema:
            bdef = A.get_builtin_schema(schema)
            f["builtin"] = bdef is not None
            info["builtin"] = f["builtin"]
            try:
                sd = A.load_schema_by_name(schema)
            except Exception:
                sd = None
            info["found"] = f["builtin"] or bool(sd is not None and sd.fields)
            if bdef is not None:
                try:
                    f["errs"] = bool(A.Validator(schema=bdef).validate(doc, strict=False))
                except Exception:
                    f["exc"] = 2
                info["errs_final"] = f["errs"]
        bh = a.get("base_hash", "none")
        if doc is not None and f["exc"] == 0 and bh == "wrong" and f["exists"]:
            f["write_err"] = True
    line = "cliw %d %s %s %s %d %s %s %s %s" % (f["sources"], b(f["path_ok"]), b(f["content"]), b(f["exists"]), f["exc"], b(f["schema"]),
                                                   b(f["builtin"]), b(f["errs"]), b(f["write_err"]))
    return line, info


def cli_property(rec, echo, info):
    """the property text on the `validation_status:` line"""
    if echo == 0:
        rec.status = "no-line"
        return
    rec.status = {1: "VALIDATED", 2: "UNVALIDATED", 3: "INVALID"}.get(echo, "other")
    if echo == 4:
        rec.fail("status-missing: the validation_status line carries a value that is not VALIDATED/UNVALIDATED/INVALID")
        return
    if echo == 1:
        if not info["parse_ok"]:
            rec.fail("validated-parse-failure: CLI prints VALIDATED although the content does not parse")
        elif not info["found"]:
            rec.fail("validated-no-schema: CLI prints VALIDATED although no schema was found for --schema")
        elif info["builtin"] and info["errs_final"]:
            rec.fail("validated-with-errors: CLI prints VALIDATED although the validator reports errors")
    if echo in (1, 3) and info["text_ok"] and not info["parse_ok"]:
        rec.fail("parse-failure-not-unvalidated: CLI prints %s although the content does not parse" % rec.status)
    if echo == 3 and info["parse_ok"] and not info["found"]:
        rec.fail("no-schema-not-unvalidated: CLI prints INVALID although no schema was found")
    if echo == 3 and info["parse_ok"] and info["builtin"] and not info["errs_final"]:
        rec.fail("invalid-without-errors: CLI prints INVALID although the validator reports no error")


def run_cli(W, case):
    from click.testing import CliRunner
    from octave_mcp.cli.main import cli
    rec = Rec(case)
    rec.cmp = "cli"
    W.set_home(case.get("home", "full"))
    d = W.fresh_dir()
    try:
        argv, stdin, ctxd = cli_argv(W, case, d)
        line, info = cli_facts(W, case, argv, ctxd)
        rec.calls += 1
        r = CliRunner().invoke(cli, argv, input=stdin)
        echo, code = cli_observe(r.output, r.exit_code)
        if code == 2:        # click usage error (FILE does not exist, bad option): out of the model
            rec.hist.append((case["tool"] + ":outcome", "usage-error"))
            return rec
        rec.line = line
        rec.obs = "0 0 0 0 0 0 0 %d %d" % (echo, code)
        cli_property(rec, echo, info)
        if case["tool"] == "cli_validate" and info.get("errs_noschema"):
            rec.hist.append(("cli_validate:schemaless-validator-reports", "yes"))
        rec.nontrivial = info["text_ok"]
        rec.hist.append((case["tool"] + ":line/exit", "%s/%d" % (rec.status, code)))
        if case.get("subprocess"):
            # the same command as a real process (cwd = the world's root, same $HOME)
            if ctxd.get("target") and case["cli"].get("target", "new") == "new" and os.path.exists(ctxd["target"]):
                os.unlink(ctxd["target"])
            elif ctxd.get("target") and case["cli"].get("target") == "existing":
                with open(ctxd["target"], "w", encoding="utf-8") as fh:
                    fh.write(case["cli"].get("pre") or "")
            p = subprocess.run([sys.executable, "-m", "octave_mcp.cli.main"] + argv, input=stdin, cwd=W.root, text=True,
                               stdout=subprocess.PIPE, stderr=subprocess.PIPE, timeout=120, env=dict(os.environ))
            rec.calls += 1
            e2, c2 = cli_observe(p.stdout, p.returncode)
            rec.hist.append((case["tool"] + ":subprocess", "%d/%d" % (e2, c2)))
            if (e2, c2) != (echo, code):
                rec.obs = "0 0 0 0 0 0 0 %d %d" % (e2, c2)     # the real process is the observation of record
                rec.fails = []
                cli_property(rec, e2, info)
        return rec
    finally:
        shutil.rmtree(d, ignore_errors=True)


RUNNERS = {"validate": run_validate, "write": run_write, "eject": run_eject, "grammar": run_grammar,
           "cli_validate": run_cli, "cli_write": run_cli}


def run_case(W, case):
    return RUNNERS[case["tool"]](W, case)


def run_chunk(cases):
    """worker: its own world (cwd, $HOME, schema files), results in order"""
    W = World()
    try:
        out = []
        for c in cases:
            try:
                out.append(run_case(W, c).pack())
            except Exception as e:  # the harness broke on this case: never silent
                import traceback
                out.append({"case": c, "harness_error": "%s: %s\n%s" % (type(e).__name__, e, traceback.format_exc(limit=6))})
        return out
    finally:
        W.close()


# ------------------------------------------------------------------------------------------------------------
# case generation
V_FLAGS = ["fix", "diff_only", "compact", "grammar_hint", "debug_grammar"]
V_PROFILE_ARGS = ["STRICT", "STANDARD", "LENIENT", "ULTRA", None, "strict", "Lenient", "", "BOGUS"]   # None = argument absent
REP_CONTENTS = ["valid", "invalid-missing-required", "invalid-enum-casefold", "invalid-meta-unknown-strict", "invalid-meta-missing",
                "invalid-unknown-field", "unparseable-tokenise", "unparseable-parse", "plain-text"]
REP_SCHEMAS = ["META", "SKILL", "GENA", "GENW", "GENEMPTY", "GENBROKEN", "NOPE", "gena", "../specs/schemas/gena", "latest", REF_OK]


def bits(n, k):
    return [bool((n >> i) & 1) for i in range(k)]


def v_case(label, schema, profile, fl, inp="content", home="full"):
    flags = {k: True for k, on in zip(V_FLAGS, fl) if on}
    if profile is not None:
        flags["profile"] = profile
    return {"tool": "validate", "content_label": label, "content": content_text(label, schema), "schema": schema, "flags": flags,
            "input": inp, "home": home}


def gen_validate(ctx):
    rng = ctx.rng
    cases = []
    # (1) every flag combination x every profile on representative content x schema pairs
    reps_c = REP_CONTENTS if not ctx.quick() else REP_CONTENTS[:7]
    reps_s = REP_SCHEMAS if not ctx.quick() else ["META", "GENA", "GENW", "NOPE", "SKILL"]
    for lc in reps_c:
        for s in reps_s:
            for p in PROFILES:
                for n in range(32):
                    cases.append(v_case(lc, s, p, bits(n, 5)))
    # (2) every content x every schema argument; quick: a few random flag/profile combinations each, thorough: all
    for lc, _k, _t in CONTENTS:
        for _cls, s in SCHEMA_ARGS:
            if ctx.quick():
                combos = [(rng.choice(V_PROFILE_ARGS), bits(rng.randrange(32), 5)) for _ in range(6)]
            else:
                combos = [(p, bits(n, 5)) for p in V_PROFILE_ARGS for n in range(32)]
                combos = rng.sample(combos, 96)
            for p, fl in combos:
                cases.append(v_case(lc, s, p, fl, home=rng.choice(["full", "full", "empty"])))
    # (3) input forms: file_path kinds, both, neither
    for inp in ("ok", "missing", "badext", "traversal", "dir", "binary", "both", "neither"):
        for lc in ("valid", "invalid-missing-required", "unparseable-tokenise"):
            for s in ("META", "GENA", "NOPE"):
                for p in ("STANDARD", "LENIENT", "BOGUS"):
                    fl = bits(rng.randrange(32), 5)
                    cases.append(v_case(lc, s, p, fl, inp=inp))
                    cases.append(v_case(lc, s, p, [False, False, True, False, False], inp=inp))
    return cases


W_FLAGS = ["lenient", "corrections_only", "grammar_hint", "debug_grammar"]


def w_case(label, schema, fl, policy=None, mode="content", target="new", base_hash="none", changes=None, pre=None, home="full"):
    flags = {k: True for k, on in zip(W_FLAGS, fl) if on}
    if policy is not None:
        flags["parse_error_policy"] = policy
    text = content_text(label, schema if schema is not None else "GENA")
    c = {"tool": "write", "content_label": label, "schema": schema, "flags": flags, "mode": mode, "target": target, "base_hash": base_hash,
         "home": home}
    if mode in ("content", "both"):
        c["content"] = text
        if target == "existing":
            c["pre"] = pre if pre is not None else content_text("valid", schema if schema is not None else "GENA")
    else:
        c["pre"] = text
        c["target"] = target if target != "new" else "existing"
    if mode in ("changes", "both"):
        c["changes"] = changes if changes is not None else {"ADDED": "v"}
    return c


def gen_write(ctx):
    rng = ctx.rng
    cases = []
    schemas = [s for _c, s in SCHEMA_ARGS] + [None]
    # (1) content mode: every content x every schema argument x policy; lenient/corrections_only/hint/debug all 16 (thorough) or sampled
    for lc, _k, _t in CONTENTS:
        for s in schemas:
            for pol in (None, "salvage"):
                ns = list(range(16)) if not ctx.quick() else rng.sample(range(16), 4)
                for n in ns:
                    cases.append(w_case(lc, s, bits(n, 4), policy=pol, home=rng.choice(["full", "full", "empty"])))
    # (2) all flag combinations x policies on representatives
    for lc in REP_CONTENTS:
        for s in ("META", "GENA", "GENW", "NOPE", "latest", REF_OK, None):
            for pol in (None, "error", "salvage", "bogus"):
                for n in range(16):
                    if ctx.quick() and rng.random() > 0.5:
                        continue
                    cases.append(w_case(lc, s, bits(n, 4), policy=pol))
    # (3) modes / targets / base_hash
    for lc in ("valid", "invalid-missing-required", "invalid-meta-enum-casefold", "unparseable-tokenise", "unparseable-parse", "plain-text"):
        for s in ("META", "GENA", "NOPE", None):
            for mode, targets in (("content", ["new", "existing", "badext", "traversal", "dir", "parent_file"]),
                                  ("normalize", ["existing", "missing", "dir", "binary", "badext"]),
                                  ("changes", ["existing", "missing", "dir", "binary"]),
                                  ("both", ["new"])):
                for tk in targets:
                    for bh in ("none", "right", "wrong"):
                        for pol in (None, "salvage"):
                            fl = bits(rng.randrange(16), 4)
                            chg = rng.choice([None, {"META.STATUS": "ACTIVE"}, {"META.STATUS": "zzz"}, "notadict"]) if mode == "changes" else None
                            cases.append(w_case(lc, s, fl, policy=pol, mode=mode, target=tk, base_hash=bh, changes=chg))
    return cases


def gen_eject(ctx):
    cases = []
    fmts = [None, "octave", "json", "yaml", "markdown", "gbnf", "bogus"]
    modes = [None, "canonical", "authoring", "executive", "developer", "bogus"]
    schemas = ["META", "GENA", "NOPE", "SKILL", "gena", "../x", "latest", ""]
    labels = [c[0] for c in CONTENTS] + [None]
    for lc in labels:
        for fm in fmts:
            for mo in modes:
                ss = schemas if not ctx.quick() else [schemas[(len(cases) + i) % len(schemas)] for i in range(2)]
                for s in ss:
                    fl = {}
                    if fm is not None:
                        fl["format"] = fm
                    if mo is not None:
                        fl["mode"] = mo
                    cases.append({"tool": "eject", "content_label": lc, "content": None if lc is None else content_text(lc, s), "schema": s,
                                  "flags": fl})
    return cases


CONTRACT_DOC = '===C===\nMETA:\n  TYPE::THING\n  VERSION::"1.0"\n  CONTRACT::[FIELD::NAME::REQ∧TYPE[STRING]]\nNAME::"x"\n===END===\n'
FIELDS_DOC = SCHEMA_FILES["GENA"]


def gen_grammar(ctx):
    cases = []
    for fm in (None, "gbnf", "json_schema", "bogus"):
        fl = {} if fm is None else {"format": fm}
        for _cls, s in SCHEMA_ARGS:
            for home in ("full", "empty"):
                cases.append({"tool": "grammar", "schema": s, "content": None, "flags": fl, "home": home})
        for lc, _k, _t in CONTENTS:
            cases.append({"tool": "grammar", "schema": None, "content_label": lc, "content": content_text(lc, "GENA"), "flags": fl})
        for text in (CONTRACT_DOC, FIELDS_DOC):
            cases.append({"tool": "grammar", "schema": None, "content": text, "flags": fl})
        cases.append({"tool": "grammar", "schema": None, "content": None, "flags": fl})
        cases.append({"tool": "grammar", "schema": "GENA", "content": FIELDS_DOC, "flags": fl})
    return cases


SEALED = None


def gen_cli(ctx, subprocess_every=0):
    rng = ctx.rng
    cases = []
    labels = ["valid", "valid-meta-status", "invalid-meta-missing", "invalid-meta-enum-casefold", "invalid-meta-enum", "invalid-missing-required",
              "unparseable-tokenise", "unparseable-parse", "unparseable-frontmatter-tokens", "plain-text", "empty"]
    schemas = [None, "META", "SKILL", "GENA", "GENBROKEN", "NOPE", "meta", "../x", "latest", ""]
    for lc in labels:
        for s in schemas:
            for fix in (False, True):
                for src in ("file", "stdin", "both", "none"):
                    if src in ("both", "none") and (lc != "valid" or fix):
                        continue
                    for seal in ((False, False), (True, False), (True, True), (False, True)):
                        if seal != (False, False) and (rng.random() > (0.15 if ctx.quick() else 0.6)):
                            continue
                        cases.append({"tool": "cli_validate", "content_label": lc, "content": content_text(lc, s or "GENA"),
                                      "cli": {"file": src in ("file", "both"), "stdin": src in ("stdin", "both"), "schema": s, "fix": fix,
                                              "verify_seal": seal[0], "require_seal": seal[1]}})
    for lc in labels:
        for s in schemas:
            for src in ("content", "stdin", "changes", "two", "none"):
                for tk in ("new", "existing", "badext"):
                    for bh in ("none", "wrong", "right"):
                        if (bh != "none" or tk == "badext" or src in ("two", "none")) and rng.random() > (0.12 if ctx.quick() else 0.5):
                            continue
                        chg = rng.choice(['{"ADDED": "v"}', '{"META.STATUS": "zzz"}', '{"META.STATUS": "ACTIVE"}', "{not json", "[1]"])
                        cases.append({"tool": "cli_write", "content_label": lc, "content": content_text(lc, s or "GENA"),
                                      "cli": {"target": tk, "pre": content_text("valid", "GENA") if src != "changes" else content_text(lc, s or "GENA"),
                                              "content_opt": src in ("content", "two"), "stdin": src == "stdin",
                                              "changes": chg if src in ("changes", "two") else None, "schema": s, "base_hash": bh}})
    if subprocess_every:
        for i, c in enumerate(cases):
            if i % subprocess_every == 0:
                c["subprocess"] = True
    return cases


# ------------------------------------------------------------------------------------------------------------
def load_corpus():
    out = []
    if CORPUS.exists():
        for p in sorted(CORPUS.glob("*.json")):
            try:
                out.append((p.name, json.loads(p.read_text())))
            except Exception as e:
                out.append((p.name, {"broken": str(e)}))
    return out


def model_answers(lines):
    from lib.model import run_driver
    return run_driver("env", lines)


def compare(ctx, recs, have_model):
    """model vs implementation on every record that has a model line"""
    idx = [i for i, r in enumerate(recs) if r.get("line") and r.get("obs")]
    if not have_model or not idx:
        return 0
    outs = model_answers([recs[i]["line"] for i in idx])
    n = 0
    for i, got in zip(idx, outs):
        r = recs[i]
        n += 1
        exp = r["obs"]
        if got.startswith("!") or got == "none":
            ctx.correspondence_failure({"case": r["case"], "facts": r["line"], "impl": exp, "model": got}, "model gives no envelope for measured facts")
            continue
        g, e = got.split(), exp.split()
        ok = (g[:7] == e[:7]) if r["cmp"] == "tool" else (g[7:] == e[7:])
        if not ok:
            ctx.correspondence_failure({"case": r["case"], "facts": r["line"], "impl": exp, "model": got,
                                        "fields": "validation_status valid schema_name schema_version validation_errors validation_error_count status echo exit"},
                                       "%s: envelope of the implementation differs from the model's for the measured facts" % r["case"]["tool"])
    return n


def short_case(c):
    d = {k: v for k, v in c.items() if k not in ("content", "pre")}
    if c.get("content") is not None:
        d["content"] = c["content"][:80]
    return d


def absorb(ctx, recs):
    for r in recs:
        if "harness_error" in r:
            ctx.obligation_failure("harness", "case %s: %s" % (json.dumps(short_case(r["case"]))[:200], r["harness_error"][:600]))
            continue
        ctx.count(r["calls"])
        for name, bucket in r["hist"]:
            ctx.hist(name, bucket)
        c = r["case"]
        ctx.hist("tool", c["tool"])
        if c.get("content_label") is not None:
            ctx.hist("content", c["content_label"])
        s = c.get("schema") if c["tool"] not in ("cli_validate", "cli_write") else c["cli"].get("schema")
        ctx.hist("schema_arg_class", SCHEMA_CLASS.get(s, "none" if s is None else "other"))
        if r["nontrivial"] and r["line"]:
            ctx.nontrivial((c["tool"], r["line"], r["obs"]))
        for what, fid in r["fails"]:
            ctx.property_failure({"tool": c["tool"], "case": c, "measured_facts": r["line"], "observed_envelope": r["obs"]}, what, finding=fid)
        if r["raised"]:
            ctx.hist("raised (no response; C20's subject)", c["tool"] + ":" + r["raised"].split(":")[0])


def run_all(cases, procs):
    if procs <= 1 or len(cases) < 200:
        return run_chunk(cases)
    import multiprocessing as mp
    size = max(50, min(400, len(cases) // (procs * 4) + 1))
    chunks = [cases[i:i + size] for i in range(0, len(cases), size)]
    with mp.get_context("fork").Pool(procs) as pool:
        res = pool.map(run_chunk, chunks, chunksize=1)
    return [r for ch in res for r in ch]


def run(ctx):
    t0 = time.time()
    have_model = bool(ctx.build_status.get("drivers", {}).get("env"))
    procs = min(14, os.cpu_count() or 1)
    ctx.extra["rule"] = (
        "cases = content (32 texts: valid / 13 kinds of invalid / 5 unparseable / lenient-only / plain / fenced / empty) x schema argument "
        "(35: packaged, generated on cwd/specs/schemas, field-less, unloadable, unknown, lower-case, path-like, malformed, latest / frozen@ "
        "with a populated or empty $HOME cache) x per-tool flags (validate: 9 profile spellings x 2^5, input forms; write: 2^4 x "
        "parse_error_policy x mode x target kind x base_hash; eject: 7 formats x 6 modes; compile_grammar: 4 formats x schema|content; "
        "CLI validate/write option combinations). evaluations = calls of Tool.execute / CLI invocations (re-validation calls included). "
        "distinct_nontrivial = distinct (tool, measured fact valuation incl. flags, observed envelope) among cases in which the tool had "
        "a content to look at (input validation passed).")
    ctx.trusted_base.append("harness/props/c10.py fact measurement: direct calls of tokenize/parse/parse_with_warnings, get_builtin_schema/"
                            "load_schema_by_name/resolve_hermetic_standard+load_schema, Validator.validate, core.repair, emit; the tool's own "
                            "_validate_path / validate_octave_path (path policy = C19) and WriteTool pre-processing helpers "
                            "(_unwrap_markdown_code_fence, _repair_curly_brace_annotations, _wrap_plain_text_as_doc, _localized_salvage, "
                            "_apply_changes) are used as oracles for the text that is parsed")
    ctx.assumptions.append("facts of one execution are what the independently repeated calls return (loader, parser and validator are "
                           "deterministic within a process: C06)")
    ctx.assumptions.append("re-validation theorems take C01 (canonical re-parses), C06 (same schema facts) and C09/C11 (no new validation "
                           "error in the canonical form) as explicit hypotheses; the harness checks the conclusion on every VALIDATED response")
    # ---- 1. corpus (finding witnesses, minimised past failures) first
    corpus = load_corpus()
    c_cases = []
    for name, ent in corpus:
        if "case" not in ent:
            ctx.obligation_failure("corpus", "%s unreadable: %s" % (name, ent.get("broken")))
            continue
        c_cases.append(ent["case"])
    c_recs = run_chunk(c_cases) if c_cases else []
    for (name, ent), r in zip([e for e in corpus if "case" in e[1]], c_recs):
        fid = ent.get("finding")
        if fid:     # witness of an OPEN finding (none at present)
            still = any(f == fid for _w, f in r.get("fails", []))
            ctx.finding_witness(fid, still)
            ctx.hist("corpus", "%s:%s" % (fid, "still-fails" if still else "no-longer-fails"))
        else:       # must-pass regression: no property failure (reported by absorb, unattributed) and the recorded status
            want = ent.get("expect_status")
            ok = not r.get("fails") and "harness_error" not in r and (want is None or r.get("status") == want)
            ctx.hist("corpus", "%s:%s" % (name, "passes" if ok else "FAILS"))
            if want is not None and "harness_error" not in r and r.get("status") != want and not r.get("fails"):
                ctx.property_failure({"corpus": name, "case": ent["case"], "measured_facts": r.get("line"), "observed_envelope": r.get("obs")},
                                     "regression %s: validation_status is %r, must be %s" % (name, r.get("status"), want))
    absorb(ctx, c_recs)
    compare(ctx, c_recs, have_model)
    # ---- 2. generated cases
    gens = [("validate", gen_validate(ctx)), ("write", gen_write(ctx)), ("eject", gen_eject(ctx)), ("grammar", gen_grammar(ctx)),
            ("cli", gen_cli(ctx, subprocess_every=0 if ctx.quick() else 9))]
    allc = [c for _n, cs in gens for c in cs]
    ctx.extra["generated_cases"] = {n: len(cs) for n, cs in gens}
    for c in allc[:: max(1, len(allc) // 10)]:
        ctx.sample(short_case(c))
    recs = run_all(allc, procs)
    absorb(ctx, recs)
    n_cmp = compare(ctx, recs, have_model)
    ctx.extra["model_comparisons"] = n_cmp
    ctx.extra["model_available"] = have_model
    ctx.extra["responses_by_status"] = {}
    for r in recs:
        if "harness_error" not in r and r.get("status"):
            k = r["case"]["tool"] + ":" + str(r["status"])
            ctx.extra["responses_by_status"][k] = ctx.extra["responses_by_status"].get(k, 0) + 1
    history_stream(ctx)
    resolution_history_stream(ctx)
    ctx.extra["run_s"] = round(time.time() - t0, 1)
    if not have_model:
        ctx.explanation = "extracted model not available: implementation-side property search only"



# ------------------------------------------------------------------------------------------------------------
# histories: the status must describe the schema that is ACTUALLY found at the time of the call, whatever the same
# process resolved before (a long-lived server moves between projects; the search path is cwd-relative)
HIST_DOC = '===D===\nHISTS:\n  NAME::"bob"\n===END===\n'
HIST_LAX = schema_text("HISTS", "REJECT", [("NAME", "ex", "REQ∧TYPE[STRING]")])
HIST_STRICT = schema_text("HISTS", "REJECT", [("NAME", "ex", "REQ∧TYPE[STRING]"), ("OWNER", "ex", "REQ∧TYPE[STRING]")])


def history_stream(ctx):
    from octave_mcp.mcp.validate import ValidateTool
    from octave_mcp.mcp.write import WriteTool
    old = os.getcwd()
    root = os.path.realpath(tempfile.mkdtemp(prefix="c10h_"))
    try:
        dirs = {}
        for name, text in (("lax", HIST_LAX), ("none", None), ("strict", HIST_STRICT)):
            d = os.path.join(root, name)
            os.makedirs(os.path.join(d, "specs", "schemas"))
            if text is not None:
                with open(os.path.join(d, "specs", "schemas", "hists.oct.md"), "w", encoding="utf-8") as f:
                    f.write(text)
            dirs[name] = d
        want = {"lax": "VALIDATED", "none": "UNVALIDATED", "strict": "INVALID"}
        orders = [("lax", "none"), ("lax", "strict"), ("strict", "lax"), ("none", "lax"), ("lax", "none", "strict", "lax"),
                  ("strict", "none", "lax", "none")]
        for order in orders:
            seen = []
            for where in order:
                os.chdir(dirs[where])
                rv = call(ValidateTool(), dict(content=HIST_DOC, schema="HISTS"))
                rw = call(WriteTool(), dict(target_path=os.path.join(dirs[where], "out.oct.md"), content=HIST_DOC, schema="HISTS",
                                            corrections_only=True))
                seen.append(where)
                for tool, r in (("octave_validate", rv), ("octave_write", rw)):
                    ctx.count()
                    ctx.nontrivial(("history", tool, tuple(seen)))
                    got = r.get("validation_status")
                    if got != want[where]:
                        ctx.property_failure({"stream": "history", "tool": tool, "schema": "HISTS", "content": HIST_DOC,
                                              "cwd_sequence": list(seen), "schema_here": where, "validation_status": got,
                                              "expected": want[where]},
                                             f"{tool}: validation_status {got} does not describe the schema found at the time of the call "
                                             f"(expected {want[where]} after the history {seen})")
    finally:
        os.chdir(old)
        shutil.rmtree(root, ignore_errors=True)


# ------------------------------------------------------------------------------------------------------------
# resolution histories: "schema identity remembered instead of re-checked".  For every schema-resolution route the tools
# accept (by name on cwd/specs/schemas, `latest`, `frozen@sha256:<H>` in $HOME/.octave/standards; there is no path route)
# the SAME call is repeated in one process after the world changed between the calls: the slot file is rewritten in
# place / replaced, with bytes of the same or another length, with the mtime restored or not, removed, re-created, and
# cwd / $HOME are switched.  The facts are measured at the time of each call by the harness itself: it reads the slot,
# hashes the bytes (frozen@), loads a FRESH COPY of those bytes from a never-used path and validates the document against
# it.  The status must follow the facts at call time.
RH_DOC = HIST_DOC
RH_LAX = schema_text("HISTS", "REJECT", [("NAME", "ex", "REQ∧TYPE[STRING]")])
RH_SAMELEN = RH_LAX.replace("  NAME::[", "  NAMZ::[")                       # same length, other bytes: document INVALID
RH_STRICT = schema_text("HISTS", "REJECT", [("NAME", "ex", "REQ∧TYPE[STRING]"), ("OWNER", "ex", "REQ∧TYPE[STRING]")])
RH_FIELDLESS = '===HISTS===\nMETA:\n  TYPE::PROTOCOL_DEFINITION\n  VERSION::"1.0"\n===END===\n'
RH_BROKEN = "===HISTS===\nFIELDS:\n  NAME::[a,b\n===END===\n"
RH_LAX_OTHER = schema_text("HISTS", "REJECT", [("NAME", "ex", "REQ∧TYPE[STRING]"), ("NOTE", "ex", "OPT")])   # other bytes, document still valid
RH_VARIANTS = {"lax": RH_LAX, "lax_other": RH_LAX_OTHER, "samelen": RH_SAMELEN, "strict": RH_STRICT, "fieldless": RH_FIELDLESS, "broken": RH_BROKEN}
RH_WANT = {"lax": "VALIDATED", "lax_other": "VALIDATED", "samelen": "INVALID", "strict": "INVALID", "fieldless": "UNVALIDATED", "broken": "UNVALIDATED",
           "removed": "UNVALIDATED"}
RH_DIGEST = hashlib.sha256(RH_LAX.encode()).hexdigest()
RH_ROUTES = {   # route -> (schema argument, tools whose status must EQUAL the facts; the others must never overstate)
    "name": ("HISTS", ("validate", "write")),
    "latest": ("latest", ("write",)),
    "frozen": ("frozen@sha256:" + RH_DIGEST, ("write",)),
}
RH_HOWS = ("inplace", "inplace+mtime", "replace", "replace+mtime")


class RHWorld:
    """two project directories (cwd candidates) and two homes under one root; a counter for fresh copies"""
    def __init__(self, root, tag):
        self.base = os.path.join(root, tag)
        self.projs = [os.path.join(self.base, "proj%d" % i) for i in (0, 1)]
        self.homes = [os.path.join(self.base, "home%d" % i) for i in (0, 1)]
        for d in self.projs:
            os.makedirs(os.path.join(d, "specs", "schemas"))
        for d in self.homes:
            os.makedirs(os.path.join(d, ".octave", "standards"))
        self.fresh = os.path.join(self.base, "fresh")
        os.makedirs(self.fresh)
        self.n = 0
        self.cur = 0
        self.enter(0)

    def enter(self, i):
        self.cur = i
        os.chdir(self.projs[i])
        os.environ["HOME"] = self.homes[i]

    def slot(self, route, i=None):
        i = self.cur if i is None else i
        if route == "name":
            return os.path.join(self.projs[i], "specs", "schemas", "hists.oct.md")
        if route == "latest":
            return os.path.join(self.homes[i], ".octave", "standards", "default.oct.md")
        return os.path.join(self.homes[i], ".octave", "standards", RH_DIGEST[:16] + ".oct.md")

    def put(self, route, variant, how, i=None):
        p = self.slot(route, i)
        if variant == "removed":
            if os.path.exists(p):
                os.unlink(p)
            return
        data = RH_VARIANTS[variant].encode("utf-8")
        st = os.stat(p) if os.path.exists(p) else None
        if how.startswith("inplace") and st is not None:
            with open(p, "r+b") as f:          # same inode
                f.seek(0)
                f.write(data)
                f.truncate()
        else:
            tmp = p + ".new"
            with open(tmp, "wb") as f:
                f.write(data)
            os.replace(tmp, p)
        if how.endswith("+mtime") and st is not None:
            os.utime(p, ns=(st.st_atime_ns, st.st_mtime_ns))

    def facts_now(self, route):
        """(expected status, facts dict) from the bytes that are in the slot NOW"""
        A = api()
        p = self.slot(route)
        facts = {"slot": os.path.relpath(p, self.base), "exists": os.path.exists(p), "sha256": None, "digest_matches": None,
                 "variant": "removed", "found": False, "errs": False}
        if not facts["exists"]:
            return "UNVALIDATED", facts
        data = open(p, "rb").read()
        facts["sha256"] = hashlib.sha256(data).hexdigest()
        facts["variant"] = next((k for k, v in RH_VARIANTS.items() if v.encode("utf-8") == data), "other")
        if route == "frozen":
            facts["digest_matches"] = facts["sha256"] == RH_DIGEST
            if not facts["digest_matches"]:
                return "UNVALIDATED", facts
        self.n += 1
        copy = os.path.join(self.fresh, "copy%d.oct.md" % self.n)
        with open(copy, "wb") as f:
            f.write(data)
        try:
            sd = A.load_schema(copy)
        except Exception:
            sd = None
        if sd is None or not sd.fields:
            return "UNVALIDATED", facts
        facts["found"] = True
        doc = A.parse(RH_DOC)
        facts["errs"] = bool(A.Validator(schema=None).validate(doc, strict=False, section_schemas={sd.name: sd}))
        return ("INVALID" if facts["errs"] else "VALIDATED"), facts


def rh_calls(W, route, full):
    A = api()
    arg = RH_ROUTES[route][0]
    out = [("validate", call(A.ValidateTool(), dict(content=RH_DOC, schema=arg))),
           ("write", call(A.WriteTool(), dict(target_path=os.path.join(W.projs[W.cur], "out.oct.md"), content=RH_DOC, schema=arg,
                                              corrections_only=True)))]
    if full:
        out.append(("eject", call(A.EjectTool(), dict(content=RH_DOC, schema=arg))))
        out.append(("grammar", call(A.CompileGrammarTool(), dict(schema=arg))))
    return out


def run_history(root, tag, route, ops, full=True):
    """ops: [("put", variant, how) | ("switch", i) | ("put_other", variant)] ; after every op all tools are called.
    -> (n_calls, [failure dict])"""
    old_cwd, old_home = os.getcwd(), os.environ.get("HOME")
    fails, n = [], 0
    try:
        W = RHWorld(root, tag)
        done = []
        for op in ops:
            if op[0] == "put":
                W.put(route, op[1], op[2])
            elif op[0] == "put_other":
                W.put(route, op[1], "replace", i=1 - W.cur)
            elif op[0] == "switch":
                W.enter(op[1])
            done.append(list(op))
            expected, facts = W.facts_now(route)
            by_construction = RH_WANT.get(facts["variant"])
            if route == "frozen" and facts["exists"] and not facts["digest_matches"]:
                by_construction = "UNVALIDATED"
            if by_construction is not None and by_construction != expected:
                fails.append({"harness": True, "what": "history harness: measured expectation %s differs from the construction %s for %s"
                              % (expected, by_construction, facts)})
                continue
            for tool, r in rh_calls(W, route, full):
                n += 1
                got = r.get("validation_status") if isinstance(r, dict) else None
                exact = tool in RH_ROUTES[route][1]
                bad = None
                if got not in STATUSES:
                    bad = "validation_status %r is not one of the three" % (got,)
                elif exact and got != expected:
                    bad = "validation_status %s does not follow the facts at the time of the call (expected %s)" % (got, expected)
                elif got == "VALIDATED" and not (facts["found"] and not facts["errs"]):
                    bad = "VALIDATED although the named schema is not found (or reports errors) at the time of the call"
                elif got == "INVALID" and not (facts["found"] and facts["errs"]):
                    bad = "INVALID although the schema found at the time of the call reports no error (or none is found)"
                if bad:
                    fails.append({"stream": "resolution-history", "route": route, "tool": "octave_" + tool if tool != "grammar" else "octave_compile_grammar",
                                  "schema_arg": RH_ROUTES[route][0], "content": RH_DOC, "history": [list(x) for x in done],
                                  "facts_at_call": facts, "validation_status": got, "expected": expected,
                                  "schema_name": r.get("schema_name") if isinstance(r, dict) else None, "what": bad})
        return n, fails
    finally:
        os.chdir(old_cwd)
        if old_home is None:
            os.environ.pop("HOME", None)
        else:
            os.environ["HOME"] = old_home


def rh_histories(ctx):
    """[(route, ops)]"""
    rng = ctx.rng
    states = ["lax", "lax_other", "samelen", "strict", "fieldless", "broken", "removed"]
    hows = RH_HOWS if not ctx.quick() else ("inplace+mtime", "replace")
    out = []
    for route in RH_ROUTES:
        for a in states:
            for b in states:
                if a == b:
                    continue
                for how in hows:
                    # a, then b in the same slot, then a again, then b again (what was seen first must not stick)
                    out.append((route, [("put", a, "replace"), ("put", b, how), ("put", a, how), ("put", b, how)]))
        # re-creation after removal, and the identical bytes again
        out.append((route, [("put", "lax", "replace"), ("put", "removed", "replace"), ("put", "lax", "replace"), ("put", "lax", "inplace")]))
        # cwd / $HOME switched between calls: the other world holds other bytes in the same relative slot
        for a in states:
            for b in states:
                if a != b:
                    out.append((route, [("put", a, "replace"), ("put_other", b), ("switch", 1), ("switch", 0), ("switch", 1)]))
        for _ in range(ctx.scale(10, 120)):
            ops = []
            for _k in range(rng.randint(4, 9)):
                r = rng.random()
                if r < 0.7:
                    ops.append(("put", rng.choice(states), rng.choice(RH_HOWS)))
                elif r < 0.85:
                    ops.append(("put_other", rng.choice(states)))
                else:
                    ops.append(("switch", rng.randint(0, 1)))
            out.append((route, ops))
    return out


def resolution_history_stream(ctx):
    root = os.path.realpath(tempfile.mkdtemp(prefix="c10rh_"))
    t0 = time.time()
    try:
        hs = rh_histories(ctx)
        n_fail = 0
        for k, (route, ops) in enumerate(hs):
            n, fails = run_history(root, "h%d" % k, route, ops, full=(k % 3 == 0 or not ctx.quick()))
            ctx.count(n)
            ctx.hist("resolution-history:route", route)
            ctx.nontrivial(("resolution-history", route, tuple(tuple(o) for o in ops)))
            for f in fails:
                if f.get("harness"):
                    ctx.obligation_failure("harness", f["what"])
                elif n_fail < 40:
                    n_fail += 1
                    ctx.property_failure(f, "resolution-history: %s %s: %s (history %s)" % (f["tool"], f["route"], f["what"], f["history"]))
            shutil.rmtree(os.path.join(root, "h%d" % k), ignore_errors=True)
        ctx.extra["resolution_histories"] = len(hs)
        ctx.extra["resolution_history_s"] = round(time.time() - t0, 1)
    finally:
        shutil.rmtree(root, ignore_errors=True)


def replay(ctx, case):
    """./check C10 --replay file : re-run one recorded case and print what the property check says"""
    c = case.get("case", case)
    if c.get("stream") == "resolution-history":
        root = os.path.realpath(tempfile.mkdtemp(prefix="c10rh_"))
        try:
            n, fails = run_history(root, "replay", c["route"], [tuple(o) for o in c["history"]])
            print(json.dumps({"calls": n, "fails": fails}, indent=1, default=str))
            return 1 if fails else 0
        finally:
            shutil.rmtree(root, ignore_errors=True)
    c = c.get("case", c)
    out = run_chunk([c])[0]
    print(json.dumps({k: out.get(k) for k in ("line", "obs", "fails", "raised", "status", "harness_error")}, indent=1))
    return 1 if out.get("fails") or out.get("harness_error") else 0
