"""C01 -- canonicalisation is idempotent and its output is re-readable."""
from __future__ import annotations

import asyncio
import json
import os
import random
import shutil
import subprocess
import tempfile

from lib import corefrag, astcodec, doccases, docprops, parsecorr, render

LEVEL = "proof"
DRIVERS = ["syn"]
PFX = "C01-"


def check_text(x):
    """-> (status, detail, c1, doc1). status None = property holds (or input rejected: 'rejected')."""
    c1, doc, err = doccases.canon_impl(x)
    if err:
        return "rejected", err, None, None
    p2, e2 = doccases.strict_read(c1)
    if e2:
        return "unreadable", f"canonical text rejected by the strict reader ({e2})", c1, doc
    from octave_mcp.core.emitter import emit
    c2 = emit(p2)
    if c2 != c1:
        return "not-idempotent", "canonicalising the canonical text changes it", c1, doc
    return None, None, c1, doc


def attribute(ctx, hm, doc):
    """finding ids for the parsed document of a failing input (model clauses on the AST)."""
    if not hm:
        return []
    try:
        nd = astcodec.doc_to_neutral(doc)
        cl = doccases.model_clauses([nd])[0]
    except Exception:  # noqa
        return []
    if doccases.nfc_escape_clause_doc(nd):
        cl = list(cl) + [16]
    fids = sorted({doccases.CLAUSE_FINDING[c] for c in cl if c in doccases.CLAUSE_FINDING} | ({"nfc-after-escape"} if 16 in cl else set()))
    return fids


def tool_surfaces(ctx, texts):
    """octave_validate.canonical fed back; octave_write then normalize."""
    from octave_mcp.mcp.validate import ValidateTool
    from octave_mcp.mcp.write import WriteTool
    d = tempfile.mkdtemp(prefix="c01t")
    loop = asyncio.new_event_loop()
    try:
        for i, x in enumerate(texts):
            r1 = loop.run_until_complete(ValidateTool().execute(content=x, schema="META"))
            c1 = r1.get("canonical")
            ctx.count()
            if r1.get("status") == "success" and isinstance(c1, str):
                r2 = loop.run_until_complete(ValidateTool().execute(content=c1, schema="META"))
                if r2.get("status") != "success" or r2.get("canonical") != c1:
                    yield ("octave_validate", x, c1, r2.get("canonical"))
                # the canonical text must stay readable by the write tool (strict mode is its default)
                pc = os.path.join(d, f"c{i}.oct.md")
                w0 = loop.run_until_complete(WriteTool().execute(target_path=pc, content=c1))
                ctx.count()
                if w0.get("status") != "success" and doccases.strict_read(c1)[1] is None:
                    yield ("octave_write(content=canonical)", x, c1, json.dumps(w0.get("errors"), default=str)[:300])
            p = os.path.join(d, f"f{i}.oct.md")
            w1 = loop.run_until_complete(WriteTool().execute(target_path=p, content=x))
            ctx.count()
            if w1.get("status") == "success":
                h1 = w1.get("canonical_hash")
                w2 = loop.run_until_complete(WriteTool().execute(target_path=p))   # normalize mode
                if w2.get("status") != "success" or w2.get("canonical_hash") != h1:
                    yield ("octave_write+normalize", x, open(p).read() if os.path.exists(p) else None, json.dumps(w2, default=str)[:300])
    finally:
        loop.close()
        shutil.rmtree(d, ignore_errors=True)


def cli_normalize(text):
    env = dict(os.environ)
    p = subprocess.run(["/venv/bin/python", "-m", "octave_mcp.cli.main", "normalize", "-"], input=text, text=True,
                       capture_output=True, env=env, timeout=60)
    return p.returncode, p.stdout


def run(ctx):
    hm = doccases.have_model(ctx)
    # core fragment of Rt/TokRound.v (theorem parse_core_doc): deep nesting, scalars of every kind
    corefrag.run(ctx, ctx.scale(150, 3000), hm)
    corefrag.run3(ctx, ctx.scale(150, 3000), hm)
    corefrag.run4(ctx, ctx.scale(150, 3000), hm)
    ctx.extra["rule"] = ("inputs: canonical texts of content-model documents (incl. documents that falsify wf clauses), random "
                         "lenient spellings of wf documents, and exhaustively every token sequence up to length 3 (thorough 4) over "
                         "a 30-symbol token alphabet as an assignment value; each accepted input is canonicalised, the result must "
                         "be accepted by the strict reader and canonicalise to itself; non-trivial = distinct accepted input whose "
                         "canonical text differs from the input")
    for fid, f in ctx.known.items():
        w = f["witness"]
        if w.get("surface"):
            ctx.finding_witness(fid, any(True for _ in tool_surfaces(ctx, [w["text"]])))
            continue
        st, _, _, _ = check_text(w["text"])
        ctx.finding_witness(fid, st in ("unreadable", "not-idempotent"))
    # regressions of repaired defects (corpus/C01): the tool surfaces must report nothing for these canonical texts
    import json as _json
    from pathlib import Path as _Path
    for cf in sorted((_Path(__file__).resolve().parents[2] / "corpus" / "C01").glob("*.json")):
        c = _json.loads(cf.read_text())
        ctx.count()
        st0, detail0, c10, _ = check_text(c["text"])
        if st0 not in (None, "rejected") or (st0 == "rejected" and not c.get("may_be_rejected")):
            ctx.property_failure({"input": c["text"], "canonical": c10, "corpus": cf.name}, f"{st0}: {detail0} (corpus {cf.name})")
        for surface, x, c1, c2 in tool_surfaces(ctx, [c["text"]]):
            ctx.property_failure({"surface": surface, "input": x, "first": c1, "second": c2, "corpus": cf.name},
                                 f"{surface}: canonical text refused or not stable (corpus {cf.name})")
    cases = doccases.gen_docs(ctx, ctx.scale(1200, 20000))
    inputs = []
    for d, cl in cases:
        inputs.append(("canonical", doccases.impl_emit(d)))
        if not cl:
            for _ in range(ctx.scale(2, 6)):
                inputs.append(("lenient", render.render(d, random.Random(ctx.rng.random()))[0]))
    seqs = doccases.token_sequences(ctx, ctx.scale(3, 4))
    if not ctx.quick() and len(seqs) > 300000:
        seqs = seqs[:27930] + ctx.rng.sample(seqs[27930:], 270000)
    inputs += [("tokens", s) for s in seqs]
    # section markers in every head shape (nameless, numeric / suffixed / negative / float ids, numeric names, annotations)
    for sid in ["1", "2b", "0", "-2", "1.50", "1e3", "007", "CTX", "9z"]:
        for name in ["", sid, "NAME", "5", "2b", "x"]:
            for ann in ["", "[note]", "[a,b]"]:
                for body in ["", "  A::1\n", "  // c\n  A::1\n"]:
                    inputs.append(("section-heads", f"\u00a7{sid}::{name}{ann}\n{body}"))
                    inputs.append(("section-heads", f"===D===\nP:\n  \u00a7{sid}::{name}{ann}\n{'  ' + body.replace(chr(10), chr(10) + '  ').rstrip(' ') if body else ''}===END===\n"))
    canon_texts = []
    accepted = 0
    for kind, x in inputs:
        st, detail, c1, doc = check_text(x)
        ctx.count()
        ctx.hist("input_kind", kind)
        if st == "rejected":
            ctx.hist("rejected", detail)
            continue
        accepted += 1
        if c1 != x:
            ctx.nontrivial(x)
        if kind != "tokens" or len(canon_texts) < 4000:
            canon_texts.append(c1)
        if st is None:
            continue
        fids = attribute(ctx, hm, doc)
        # a document usually falsifies several wf clauses at once; clauses that are no listed finding of THIS property
        # (e.g. clause 18, which changes a value's kind but is stable under re-canonicalisation) explain nothing here:
        # when a listed class applies the failure is attributed to the listed ones only, otherwise it stays unexplained
        listed = [f for f in fids if (PFX + f) in ctx.known]
        if listed:
            fids = listed
        case = {"input": x, "canonical": c1, "kind": kind}
        if fids:
            for f in fids:
                ctx.property_failure(case, f"{st}: {detail}", finding=PFX + f)
        else:
            ctx.property_failure(case, f"{st}: {detail}")
    ctx.extra["accepted_inputs"] = accepted
    ctx.sample({"input": inputs[1][1], "canonical": doccases.canon_impl(inputs[1][1])[0]})
    ctx.sample({"input": seqs[5000], "canonical": doccases.canon_impl(seqs[5000])[0]})
    # ---- model correspondence: canon(x) by the model = canon(x) by the implementation ----
    if hm:
        sub = [x for _, x in inputs if len(x) < 4000]
        sub = sub[:: max(1, len(sub) // ctx.scale(6000, 60000))]
        bad, n_in, n_out, _ = parsecorr.compare(sub, strict=False, with_warnings=False)
        ctx.count(n_in)
        ctx.extra["parser_correspondence_texts"] = n_in
        for t, i, m in bad[:10]:
            ctx.correspondence_failure({"text": t, "impl": i[:500], "model": m[:500]}, "parse_with_warnings(text) differs from the parser model")
        bad, n_in2, _, _ = parsecorr.compare(canon_texts[:: max(1, len(canon_texts) // ctx.scale(3000, 30000))], strict=True)
        ctx.count(n_in2)
        for t, i, m in bad[:10]:
            ctx.correspondence_failure({"text": t, "impl": i[:500], "model": m[:500]}, "parse(canonical) differs from the parser model")
    # ---- tool surfaces ----
    tool_in = [x for k, x in inputs if k != "tokens"]
    tool_in = ctx.rng.sample(tool_in, min(len(tool_in), ctx.scale(120, 2500))) + ctx.rng.sample(seqs, ctx.scale(80, 1500))
    for surface, x, c1, c2 in tool_surfaces(ctx, tool_in):
        st, detail, cc, doc = check_text(x)
        fids = attribute(ctx, hm, doc) if doc is not None else []
        case = {"surface": surface, "input": x, "first": c1, "second": c2}
        if surface == "octave_write(content=canonical)" and c1.startswith("---\n") and "E_TOKENIZE" in (c2 or ""):
            ctx.property_failure(case, f"{surface}: canonical text refused")      # (the frontmatter refusal was repaired: c296b0f)
        elif surface == "octave_write+normalize" and cc is not None and "\r" in cc and st is None:
            ctx.property_failure(case, f"{surface}: canonical output not stable", finding=PFX + "cr-through-file")
        elif fids and st is not None:
            for f in fids:
                ctx.property_failure(case, f"{surface}: canonical output not stable", finding=PFX + f)
        else:
            ctx.property_failure(case, f"{surface}: canonical output not stable")
    if not ctx.quick():
        for x in ctx.rng.sample(tool_in, 150):
            rc1, o1 = cli_normalize(x)
            ctx.count()
            if rc1 == 0:
                rc2, o2 = cli_normalize(o1)
                if rc2 != 0 or o2 != o1:
                    st, detail, _, doc = check_text(x)
                    fids = attribute(ctx, hm, doc) if doc is not None else []
                    for f in (fids or [None]):
                        ctx.property_failure({"surface": "cli normalize", "input": x, "first": o1, "second": o2},
                                             "octave normalize output not stable", finding=(PFX + f) if f else None)
