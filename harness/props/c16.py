"""C16 -- writes are all-or-nothing at every interruption point.

The implementation runs in CHILD processes: `/venv/bin/python harness/props/c16.py --server` installs
lib.fsinterpose BEFORE importing octave_mcp (tree under test: $VERIF_REPO/src, first on PYTHONPATH) and then
serves jobs, forking once per job; the forked process performs ONE call of WriteTool.execute or
core.file_ops.atomic_write_octave inside a fresh tempfile.mkdtemp() sandbox under a fault plan
(kill = os._exit at op instance k, failure = OSError(errno) at op instance k).  The SUPERVISING process
(a pool worker of the check) builds the sandbox, waits for the child, and snapshots (path, kind, bytes, mode).

Run order: corpus / finding witnesses -> fault-free trace correspondence per scenario -> every op instance
as kill point and as failure point (singly; pairs sampled in quick, all position pairs in thorough), each
(a) compared with the extracted model (`fsw run` with the same fault assignment: outcome, op trace, target,
temp, parent chain) and (b) judged by the property itself, independently of the model.
"""
from __future__ import annotations

import hashlib
import json
import multiprocessing as mp
import os
import shutil
import stat as statmod
import subprocess
import sys
import tempfile
import time

LEVEL = "proof"
DRIVERS = ["fsw"]

PY = "/venv/bin/python"
REPO_SRC = os.environ.get("VERIF_REPO", "/repo") + "/src"
ERRNOS = {"ENOSPC": 28, "EACCES": 13, "EIO": 5, "EINTR": 4, "EROFS": 30}
FINDING_TEMP = "C16-cleanup-fault-leaves-temp"
SHORT = "short"        # fault kind for a raw os.write on a tracked descriptor: a proper prefix is written, the count returned
RAW_WRITE_OPS = ("os_write",)
# metadata calls (chmod family, utime, chown): faulted additionally with the errnos such calls produce on vfat / SMB / FUSE /
# read-only mounts / vanished paths
META_ERRNOS = {"EPERM": 1, "EACCES": 13, "EROFS": 30, "ENOENT": 2}
ALL_ERRNO_NAMES = {**{v: k for k, v in ERRNOS.items()}, **{v: k for k, v in META_ERRNOS.items()}}


def is_meta_op(op):
    return op.split(":")[0] in ("fchmod", "chmod", "lchmod", "utime", "futime", "chown", "lchown", "fchown")


def nl(text):
    """what a text-mode read (universal newlines) sees; the MODEL's file content is this view, byte-exactness is the judge's job"""
    return text.replace("\r\n", "\n").replace("\r", "\n")


def crlf_variants(text):
    lines = text.split("\n")[:-1]
    return {
        "crlf": "".join(x + "\r\n" for x in lines),
        "cr": "".join(x + "\r" for x in lines),
        "mixed": "".join(x + ("\r\n" if i % 3 == 0 else ("\r" if i % 3 == 1 else "\n")) for i, x in enumerate(lines)),
        "lastcrlf": "".join(x + "\n" for x in lines[:-1]) + lines[-1] + "\r\n",
    }

OLD = '===DOC===\nMETA:\n  TYPE::NOTE\nA::1\nB::"café au lait"\n===END===\n'
NEW = '===DOC===\nMETA:\n  TYPE::NOTE\nA::2\nC::[x,y]\nB::"naïve text"\n===END===\n'
NONCANON = '===DOC===\nMETA:\n  TYPE::NOTE\nA::1\nF::a->b\nB::"café au lait"\n===END===\n'
FRONT = "---\nname: skill-x\ndescription: demo\n---\n" + OLD
BROKEN = "===DOC===\nA::[1,\n"
CHANGES = {"A": 2, "N": "added"}
BYSTANDER = "bystander bytes\n"


def sha(s: str) -> str:
    return hashlib.sha256(s.encode("utf-8")).hexdigest()


# =================================================================================================
# child side
# =================================================================================================
FS_CODES = ("E_PATH", "E_FILE", "E_READ", "E_HASH", "E_WRITE")
ATOMIC_PREFIX = (("Hash mismatch", "E_HASH"), ("Read error", "E_READ"), ("Write error", "E_WRITE"),
                 ("Cannot write to symlink", "E_WRITE"))


CLI_PREFIX = ATOMIC_PREFIX + (("File does not exist", "E_FILE"), ("Path traversal", "E_PATH"), ("Symlink in path", "E_PATH"),
                             ("Invalid file extension", "E_PATH"), ("Path resolution failed", "E_PATH"), ("Invalid path", "E_PATH"))


def canon_envelope(api, r):
    """Only what the property names: status, error code class, canonical_hash."""
    if api == "cli":
        # r = {"exit": code, "out": stdout, "err": stderr} of `octave write ...`
        if r["exit"] == 0:
            h = ""
            for ln in r["out"].splitlines():
                if ln.startswith("canonical_hash:"):
                    h = ln.split(":", 1)[1].strip()
            return {"status": "success", "code": "", "hash": h}
        msg = ""
        for ln in (r["err"] + "\n" + r["out"]).splitlines():
            if ln.startswith("Error:"):
                msg = ln[6:].strip()
                break
        code = "E_PIPE"
        for pre, c in CLI_PREFIX:
            if msg.startswith(pre):
                code = c
        return {"status": "error", "code": code, "hash": ""}
    if not isinstance(r, dict):
        return {"status": "noenvelope", "code": type(r).__name__, "hash": ""}
    st = r.get("status")
    if st == "success":
        return {"status": "success", "code": "", "hash": r.get("canonical_hash", "")}
    if api == "atomic":
        msg = str(r.get("error", ""))
        code = "E_PATH"
        for pre, c in ATOMIC_PREFIX:
            if msg.startswith(pre):
                code = c
        return {"status": "error", "code": code, "hash": ""}
    errs = r.get("errors") or [{}]
    code = errs[0].get("code", "?")
    if code not in FS_CODES:
        code = "E_PIPE"          # E_PARSE / E_TOKENIZE / E_APPLY / E_INPUT ...: the pipeline produced no text
    return {"status": "error", "code": code, "hash": ""}


def _call_cli(target, args):
    """`octave write <target> --content|--changes .. [--base-hash H]` through the click command, in this process"""
    import json as _json
    from click.testing import CliRunner
    from octave_mcp.cli.main import cli
    argv = ["write", target]
    if "content" in args:
        argv += ["--content", args["content"]]
    if "changes" in args:
        argv += ["--changes", _json.dumps(args["changes"])]
    if args.get("base_hash"):
        argv += ["--base-hash", args["base_hash"]]
    res = CliRunner().invoke(cli, argv)
    try:
        err = res.stderr
    except Exception:  # click < 8.2 without separate capture
        err = ""
    try:
        out = res.stdout
    except Exception:
        out = res.output
    return {"exit": res.exit_code, "out": out or "", "err": err or ""}


def _call(api, target, args):
    import asyncio
    if api == "cli":
        return _call_cli(target, args)
    if api == "atomic":
        from octave_mcp.core.file_ops import atomic_write_octave
        return atomic_write_octave(target, args["content"], args.get("base_hash"))
    from octave_mcp.mcp.write import WriteTool
    tool = WriteTool()
    return asyncio.run(tool.execute(target_path=target, **args))


def _job_call(fi, job):
    """One call under a fault plan.  Result -> job['res'] (outside the sandbox root)."""
    log_fd = os.open(job["log"], os.O_WRONLY | os.O_CREAT | os.O_APPEND, 0o600)
    fa = job.get("fail_at") or {}
    plan = fi.Plan(job["root"], job["target"], log_fd=log_fd, crash_at=job.get("crash_at"),
                   fail_at={int(k): int(v) for k, v in fa.items() if v != SHORT},
                   short_at={int(k) for k, v in fa.items() if v == SHORT})
    plan.enabled = False
    fi.set_plan(plan)
    out = {}
    try:
        plan.enabled = True
        try:
            r = _call(job["api"], job["target"], job["args"])
        finally:
            plan.enabled = False
        out["env"] = canon_envelope(job["api"], r)
    except BaseException as e:  # noqa: BLE001  -- a raise out of the tool is an observable outcome
        plan.enabled = False
        out["raised"] = {"type": type(e).__name__, "errno": getattr(e, "errno", None)}
    with open(job["res"], "w") as f:
        json.dump(out, f)


def child_server():
    sys.path.insert(0, os.path.join(os.path.dirname(os.path.abspath(__file__)), ".."))
    from lib import fsinterpose as fi
    fi.install()                      # BEFORE importing octave_mcp
    import asyncio  # noqa: F401
    import octave_mcp
    import octave_mcp.core.file_ops  # noqa: F401
    import octave_mcp.mcp.write  # noqa: F401
    out = sys.stdout
    out.write(json.dumps({"hello": os.path.dirname(os.path.dirname(os.path.abspath(octave_mcp.__file__)))}) + "\n")
    out.flush()
    handlers = {"call": _job_call}
    nofork = set()
    if "--c17" in sys.argv:
        from props import c17 as _c17
        handlers.update(_c17.child_handlers())
        nofork = set(_c17.CHILD_NOFORK)
    for line in sys.stdin:
        line = line.strip()
        if not line:
            continue
        job = json.loads(line)
        if job["kind"] in nofork:     # server-wide tables (oracles), no call of the implementation
            handlers[job["kind"]](fi, job)
            out.write(json.dumps({"exit": 0}) + "\n")
            out.flush()
            continue
        pid = os.fork()
        if pid == 0:
            rc = 0
            try:
                dn = os.open(os.devnull, os.O_WRONLY)
                os.dup2(dn, 1)
                handlers[job["kind"]](fi, job)
            except BaseException:  # noqa: BLE001
                import traceback
                try:
                    with open(job["res"] + ".err", "w") as f:
                        f.write(traceback.format_exc())
                except Exception:
                    pass
                rc = 70
            finally:
                os._exit(rc)
        _, st = os.waitpid(pid, 0)
        code = os.WEXITSTATUS(st) if os.WIFEXITED(st) else -os.WTERMSIG(st)
        out.write(json.dumps({"exit": code}) + "\n")
        out.flush()


# =================================================================================================
# supervisor side
# =================================================================================================
class Server:
    def __init__(self, extra_args=()):
        env = dict(os.environ)
        pp = env.get("PYTHONPATH", "")
        if not pp:
            env["PYTHONPATH"] = REPO_SRC + ":" + os.path.join(os.path.dirname(os.path.abspath(__file__)), "..")
        env.setdefault("PYTHONHASHSEED", "0")
        env["PYTHONDONTWRITEBYTECODE"] = "1"
        self.p = subprocess.Popen([PY, os.path.abspath(__file__), "--server", *extra_args], stdin=subprocess.PIPE,
                                  stdout=subprocess.PIPE, text=True, env=env, bufsize=1)
        hello = json.loads(self.p.stdout.readline())
        got = os.path.realpath(hello["hello"])
        if got != os.path.realpath(REPO_SRC):
            raise RuntimeError(f"child imported octave_mcp from {got}, expected {REPO_SRC}")

    def run(self, job):
        self.p.stdin.write(json.dumps(job) + "\n")
        self.p.stdin.flush()
        line = self.p.stdout.readline()
        if not line:
            raise RuntimeError("child server died")
        return json.loads(line)["exit"]

    def close(self):
        try:
            self.p.stdin.close()
            self.p.wait(timeout=10)
        except Exception:
            self.p.kill()


_SERVER = None
_SCRATCH = None
_SERVER_ARGS = ()


def server():
    global _SERVER
    if _SERVER is None:
        _SERVER = Server(_SERVER_ARGS)
    return _SERVER


def snapshot(root):
    """{relpath: ('D',) | ('F', bytes-as-latin1-safe str, mode) | ('L', target)} for everything below root."""
    out = {}
    for dp, dns, fns in os.walk(root):
        for n in dns + fns:
            p = os.path.join(dp, n)
            rel = os.path.relpath(p, root)
            st = os.lstat(p)
            if statmod.S_ISLNK(st.st_mode):
                out[rel] = ("L", os.readlink(p))
            elif statmod.S_ISDIR(st.st_mode):
                out[rel] = ("D",)
            else:
                with open(p, "rb") as f:
                    out[rel] = ("F", f.read(), statmod.S_IMODE(st.st_mode))
    return out


def build_fs(root, spec):
    os.makedirs(root, exist_ok=True)
    for rel, kind, data, mode in spec:
        p = os.path.join(root, rel)
        if kind == "D":
            os.makedirs(p, exist_ok=True)
        else:
            os.makedirs(os.path.dirname(p), exist_ok=True)
            with open(p, "w", encoding="utf-8", newline="") as f:
                f.write(data)
            os.chmod(p, mode)


# ---- scenarios -------------------------------------------------------------------------------------
def scenarios():
    """name -> dict(api, mode, fs spec, target rel, args).  `fs` never contains the temp file."""
    S = {}

    def add(name, api, mode, target, fs, **args):
        S[name] = {"name": name, "api": api, "mode": mode, "target": target,
                   "fs": fs + [("d/other.txt", "F", BYSTANDER, 0o644), ("z", "D", "", 0), ("z/keep.oct.md", "F", OLD, 0o600)],
                   "args": args}

    d = [("d", "D", "", 0)]
    t = "d/f.oct.md"

    def ex(data, mode=0o644):
        return d + [(t, "F", data, mode)]
    add("new", "execute", "content", t, d, content=NEW)
    add("new+base", "execute", "content", t, d, content=NEW, base_hash=sha(OLD))
    add("overwrite", "execute", "content", t, ex(OLD, 0o640), content=NEW)
    add("overwrite+base", "execute", "content", t, ex(OLD, 0o664), content=NEW, base_hash=sha(OLD))
    add("overwrite+stale", "execute", "content", t, ex(OLD), content=NEW, base_hash=sha(NONCANON))
    add("overwrite-frontmatter", "execute", "content", t, ex(FRONT, 0o604), content=NEW)
    add("changes", "execute", "changes", t, ex(OLD, 0o660), changes=CHANGES)
    add("changes+base", "execute", "changes", t, ex(OLD), changes=CHANGES, base_hash=sha(OLD))
    add("changes+stale", "execute", "changes", t, ex(OLD), changes=CHANGES, base_hash=sha(NEW))
    add("normalize", "execute", "normalize", t, ex(NONCANON, 0o600))
    add("normalize+base", "execute", "normalize", t, ex(NONCANON, 0o646), base_hash=sha(NONCANON))
    add("mkparent", "execute", "content", "a/b/f.oct.md", [], content=NEW)
    add("mkparent+base", "execute", "content", "a/b/f.oct.md", [("a", "D", "", 0)], content=NEW, base_hash=sha(OLD))
    add("readonly", "execute", "content", t, ex(OLD, 0o444), content=NEW)
    add("readonly+base-changes", "execute", "changes", t, ex(OLD, 0o400), changes=CHANGES, base_hash=sha(OLD))
    add("dry-overwrite", "execute", "content", t, ex(OLD), content=NEW, corrections_only=True)
    add("dry-mkparent", "execute", "content", "a/b/f.oct.md", [], content=NEW, corrections_only=True)
    add("broken-content", "execute", "content", t, ex(OLD), content=BROKEN)
    add("changes-missing", "execute", "changes", t, d, changes=CHANGES)
    add("atomic-new", "atomic", "atomic", t, d, content=NEW)
    add("atomic-overwrite", "atomic", "atomic", t, ex(OLD, 0o640), content=NEW)
    add("atomic-overwrite+base", "atomic", "atomic", t, ex(OLD, 0o664), content=NEW, base_hash=sha(OLD))
    add("atomic-stale", "atomic", "atomic", t, ex(OLD), content=NEW, base_hash=sha(NEW))
    add("atomic-mkparent", "atomic", "atomic", "a/b/f.oct.md", [], content=NEW)
    add("atomic-readonly+base", "atomic", "atomic", t, ex(OLD, 0o444), content=NEW, base_hash=sha(OLD))
    # existing target whose BYTES differ from what the text-mode baseline read sees (CRLF / lone CR / mixed / only the last
    # line), otherwise already canonical, written by an operation whose result is that same text: normalize, content with the
    # same text, changes setting a field to its current value -- with and without base_hash (the hash of the text as read).
    # "unchanged content" must still end with bytes that hash to the returned canonical_hash.
    for vn, data in crlf_variants(OLD).items():
        for bn, bh in (("", {}), ("+base", {"base_hash": sha(OLD)})):
            add(f"{vn}-normalize{bn}", "execute", "normalize", t, ex(data, 0o640), **bh)
            add(f"{vn}-same-content{bn}", "execute", "content", t, ex(data, 0o644), content=OLD, **bh)
            add(f"{vn}-same-changes{bn}", "execute", "changes", t, ex(data, 0o664), changes={"A": 1}, **bh)
        add(f"{vn}-atomic-same+base", "atomic", "atomic", t, ex(data, 0o644), content=OLD, base_hash=sha(OLD))
    # the CLI `octave write` (pre-phase + atomic_write_octave): judged by the property; not compared with a protocol model
    add("cli-content-new", "cli", "cli", t, d, content=NEW)
    add("cli-content-overwrite+base", "cli", "cli", t, ex(OLD, 0o640), content=NEW, base_hash=sha(OLD))
    add("cli-changes", "cli", "cli", t, ex(OLD, 0o664), changes=CHANGES)
    add("cli-changes+base", "cli", "cli", t, ex(OLD, 0o600), changes=CHANGES, base_hash=sha(OLD))
    add("cli-changes-crlf-same+base", "cli", "cli", t, ex(crlf_variants(OLD)["crlf"], 0o644), changes={"A": 1}, base_hash=sha(OLD))
    add("cli-content-mkparent", "cli", "cli", "a/b/f.oct.md", [], content=NEW)
    for n in S:
        S[n]["light"] = n.split("-")[0] in ("crlf", "cr", "mixed", "lastcrlf") and not n.startswith("crlf-")
    return S


# ---- one run in a worker -----------------------------------------------------------------------------
def run_case(sc, crash_at=None, fail_at=None, fs_override=None):
    """Build a fresh sandbox, let a child perform the call under the plan, snapshot.  Returns a record."""
    jd = tempfile.mkdtemp(prefix="job", dir=_SCRATCH)
    try:
        root = os.path.join(jd, "sb")
        build_fs(root, fs_override if fs_override is not None else sc["fs"])
        before = snapshot(root)
        target = os.path.join(root, sc["target"])
        job = {"kind": "call", "api": sc["api"], "root": root, "target": target, "args": sc["args"],
               "log": os.path.join(jd, "log"), "res": os.path.join(jd, "res.json"),
               "crash_at": crash_at, "fail_at": {str(k): v for k, v in (fail_at or {}).items()}}
        code = server().run(job)
        after = snapshot(root)
        trace = []
        if os.path.exists(job["log"]):
            with open(job["log"]) as f:
                trace = f.read().split("\n")[:-1]
        res = None
        if os.path.exists(job["res"]):
            with open(job["res"]) as f:
                res = json.load(f)
        err = None
        if os.path.exists(job["res"] + ".err"):
            with open(job["res"] + ".err") as f:
                err = f.read()
        return {"exit": code, "before": before, "after": after, "trace": trace, "res": res, "err": err}
    finally:
        shutil.rmtree(jd, ignore_errors=True)


def _worker_init(scratch):
    global _SCRATCH, _SERVER
    _SCRATCH = scratch
    _SERVER = None


def _worker(task):
    sc, crash_at, fail_at, fs_override = task
    try:
        return run_case(sc, crash_at, fail_at, fs_override)
    except Exception as e:  # noqa: BLE001
        return {"harness_error": f"{type(e).__name__}: {e}"}


# ---- canonical views -------------------------------------------------------------------------------
def outcome_of(rec):
    """('crashed',) | ('success', hash) | ('error', code) | ('raised', errno)"""
    if rec["exit"] == 77:
        return ("crashed", "-")
    r = rec["res"]
    if r is None:
        return ("harness", str(rec["exit"]))
    if "raised" in r:
        return ("raised", str(r["raised"].get("errno") or 0))
    e = r["env"]
    if e["status"] == "success":
        return ("success", e["hash"])
    return ("error", e["code"])


def file_of(snap, rel):
    v = snap.get(rel)
    if v is None:
        return None
    return v


def new_entries(rec, sc):
    """entries of the target's parent directory that were not there before (target itself excluded)."""
    par = os.path.dirname(sc["target"])
    out = []
    for rel in rec["after"]:
        if os.path.dirname(rel) == par and rel != sc["target"] and rel not in rec["before"]:
            out.append(rel)
    return sorted(out)


# ---- model side ---------------------------------------------------------------------------------------
def mpath(rel):
    return "/s/" + rel


def chain_of(sc):
    parts = os.path.dirname(sc["target"]).split("/")
    return ["/".join(parts[: i + 1]) for i in range(len(parts))]


TAG_NAMES = {
    1: {"exists:target"}, 2: {"mkdir"}, 3: {"stat:target"}, 4: {"mkstemp"}, 5: {"fchmod"}, 6: {"fdopen"},
    7: {"write"}, 8: {"flush"}, 9: {"fsync"}, 10: {"close"}, 11: {"open_read:target"}, 12: {"read"}, 13: {"read"},
    14: {"close_read"}, 15: {"unlink:temp"}, 16: {"replace"}, 20: {"exists:target"}, 21: {"exists:temp"},
    22: {"ospath_exists:target"}, 23: {"ospath_exists:temp"}, 24: {"is_symlink:target"}, 25: {"is_symlink:temp"},
    30: {"lstat", "stat:target", "stat:other"},
}
VALIDATION_OPS = {"lstat", "stat:target", "stat:other"}
ERRNO_TOK = {28: "f28", 13: "f13", 5: "f5", 4: "f4", 30: "f30", 1: "f1", 2: "f2"}


def nval_of(trace):
    n = 0
    for op in trace:
        if op in VALIDATION_OPS:
            n += 1
        else:
            break
    return n


def model_line(sc, pipe, nval, crash_at, fail_at, orc, texts):
    from lib.model import enc_str
    chain = chain_of(sc)
    tmp = mpath(os.path.dirname(sc["target"]) + "/TMPFILE.tmp")
    base = sc["args"].get("base_hash")
    ft = []
    for k, e in sorted((fail_at or {}).items()):
        ft.append(f"{k}:{ERRNO_TOK[e]}")
    if crash_at is not None:
        ft.append(f"{crash_at}:c")
    pt = ",".join(("~" if k is None else enc_str(k)) + "=" + ("~" if v is None else enc_str(v)) for k, v in pipe) or "-"
    ht = ",".join(enc_str(x) + "=" + enc_str(sha(x)) for x in texts) or "-"
    fs = []
    for rel, kind, data, mode in sc["fs"]:
        if kind == "D":
            fs.append(enc_str(mpath(rel)) + "|D")
        else:
            fs.append(enc_str(mpath(rel)) + "|F|" + enc_str(nl(data)) + "|" + str(mode))
    return " ".join([
        "run", sc["mode"], enc_str(mpath(sc["target"])), enc_str(mpath(os.path.dirname(sc["target"]))),
        ",".join(enc_str(mpath(c)) for c in chain), enc_str(tmp), enc_str(base) if base else "~", pt,
        "1" if sc["args"].get("corrections_only") else "0", str(nval), ",".join(ft) or "-",
        ",".join(f"{k}:{n}" for k, n in sorted(orc.items())) or "-", ht, ";".join(fs) or "-"])


def parse_model(out):
    from lib.model import dec_str
    f = [x.strip() for x in out.split("#")]
    if len(f) != 7:
        return None
    oc = tuple(f[0].split(" "))

    def node(t):
        if t == "~":
            return None
        if t == "D":
            return ("D",)
        p = t.split("|")
        return ("F", dec_str(p[1]), int(p[2]))
    return {"outcome": (oc[0], dec_str(oc[1]) if oc[0] == "success" else oc[1]),
            "trace": [int(x) for x in f[1].split(",")] if f[1] else [],
            "target": node(f[2]), "tmp": node(f[3]),
            "chain": [node(x) for x in f[4].split(",")] if f[4] else [], "ulfail": f[5] == "1"}


def real_node(v):
    if v is None:
        return None
    if v[0] == "D":
        return ("D",)
    if v[0] == "L":
        return ("L", v[1])
    try:
        return ("F", nl(v[1].decode("utf-8")), v[2])
    except UnicodeDecodeError:
        return ("F", repr(v[1]), v[2])


def compare_model(sc, rec, m, fail_at):
    """list of disagreements between the model's prediction and the observed run."""
    bad = []
    oc = outcome_of(rec)
    mo = m["outcome"]
    if oc[0] != mo[0] or (oc[0] in ("success", "error") and oc[1] != mo[1]):
        bad.append(f"outcome: impl {oc} model {mo}")
    if oc[0] == "raised" and mo[0] == "raised" and oc[1] != mo[1] and mo[1] != "0":
        bad.append(f"raised errno: impl {oc[1]} model {mo[1]}")
    tr = rec["trace"]
    if len(tr) != len(m["trace"]) or any(op not in TAG_NAMES.get(tag, ()) for op, tag in zip(tr, m["trace"])):
        bad.append(f"op trace: impl {tr} model tags {m['trace']}")
    rt = real_node(rec["after"].get(sc["target"]))
    if rt != m["target"]:
        bad.append(f"target: impl {rt} model {m['target']}")
    extra = new_entries(rec, sc)
    tmps = [real_node(rec["after"][e]) for e in extra if rec["after"][e][0] == "F"]
    dirs_extra = [e for e in extra if rec["after"][e][0] != "F"]
    if dirs_extra:
        bad.append(f"unexpected new non-file entries beside target: {dirs_extra}")
    if m["tmp"] is None:
        if tmps:
            bad.append(f"temp: impl left {tmps} model none")
    else:
        if len(tmps) != 1 or tmps[0] != m["tmp"]:
            bad.append(f"temp: impl {tmps} model {m['tmp']}")
    for c, mn in zip(chain_of(sc), m["chain"]):
        rn = real_node(rec["after"].get(c))
        if rn != mn:
            bad.append(f"chain dir {c}: impl {rn} model {mn}")
    # frame (C16_frame): nothing else is touched
    for rel, v in rec["before"].items():
        if rel == sc["target"] or rel in chain_of(sc):
            continue
        if rec["after"].get(rel) != v:
            bad.append(f"frame: {rel} changed")
    for rel in rec["after"]:
        if rel not in rec["before"] and rel != sc["target"] and rel not in chain_of(sc) and rel not in extra:
            bad.append(f"frame: {rel} appeared")
    return bad


# ---- the property itself (independent of the model) ------------------------------------------------------
def cleanup_fault(rec, fail_at):
    """the exact fault pattern of the known finding: one of the injected failures hit the cleanup's own
    os.path.exists(temp_path) / os.unlink(temp_path) op instance"""
    for k in (fail_at or {}):
        k = int(k)
        if k < len(rec["trace"]) and rec["trace"][k] in ("unlink:temp", "ospath_exists:temp"):
            return True
    return False


def judge(sc, rec, canon_set, fail_at):
    """[(what, finding-or-None)]: violations of the C16 statement on this run."""
    out = []
    oc = outcome_of(rec)
    if oc[0] == "harness":
        return [("harness: child gave no result: " + str(rec.get("err"))[-300:], None)]
    tb = rec["before"].get(sc["target"])
    ta = rec["after"].get(sc["target"])
    dry = bool(sc["args"].get("corrections_only"))
    # (1) always, kill included: complete previous bytes / still absent, or complete new canonical text
    old_ok = (tb is None and ta is None) or (tb is not None and ta is not None and ta[0] == "F" and tb[1] == ta[1])
    new_ok = ta is not None and ta[0] == "F" and any(ta[1] == c.encode("utf-8") for c in canon_set)
    if not (old_ok or new_ok):
        out.append((f"torn-target: after {oc[0]} the target is neither its previous bytes nor the complete new text: {real_node(ta)}", None))
    # (2) error returned or raised: target byte-identical, no temp beside it
    if oc[0] in ("error", "raised"):
        if not old_ok:
            out.append((f"error-changed-target: status={oc} but target bytes changed", None))
        extra = [e for e in new_entries(rec, sc) if rec["after"][e][0] == "F"]
        if extra:
            fid = FINDING_TEMP if cleanup_fault(rec, fail_at) else None
            out.append((f"error-left-temp: status={oc} and {len(extra)} new file(s) beside the target", fid))
    # (3) success: bytes hash to canonical_hash; an existing file keeps its permission bits
    if oc[0] == "success" and not dry:
        if ta is None or ta[0] != "F":
            out.append(("success-no-file: success but target is not a regular file", None))
        else:
            if hashlib.sha256(ta[1]).hexdigest() != oc[1]:
                out.append(("success-hash: sha256(file) != canonical_hash", None))
            if tb is not None and tb[0] == "F" and ta[2] != tb[2]:
                out.append((f"success-mode: permission bits {oct(tb[2])} -> {oct(ta[2])}", None))
    return out


# =================================================================================================
# driver
# =================================================================================================
def plan_key(crash_at, fail_at):
    return json.dumps([crash_at, sorted((int(k), str(v)) for k, v in (fail_at or {}).items())])


def fs_variant(sc, data):
    """the scenario's file system with the target's content replaced (None = absent): oracle runs"""
    fs = [e for e in sc["fs"] if e[0] != sc["target"]]
    if data is not None:
        mode = next((e[3] for e in sc["fs"] if e[0] == sc["target"]), 0o644)
        fs.append((sc["target"], "F", data, mode))
    return fs


def run(ctx):
    global _SCRATCH
    t_start = time.time()
    scratch = tempfile.mkdtemp(prefix="c16_")
    _SCRATCH = scratch
    pool = mp.get_context("fork").Pool(16, initializer=_worker_init, initargs=(scratch,))
    try:
        _run(ctx, pool)
    finally:
        pool.terminate()
        pool.join()
        if _SERVER is not None:
            _SERVER.close()
        shutil.rmtree(scratch, ignore_errors=True)
    ctx.extra["c16_wall_s"] = round(time.time() - t_start, 1)


def _run(ctx, pool):
    from lib.core import VERIF
    from lib.model import run_driver
    have_model = bool(ctx.build_status.get("drivers", {}).get("fsw"))
    S = scenarios()
    names = list(S)
    ctx.trusted_base += [
        "harness/lib/fsinterpose.py: every file operation of the write path goes through the wrapped os.* / tempfile / "
        "builtins.open / pathlib entry points (an op issued some other way would be invisible; the snapshot would still see its effect)",
        "kill points are Python-level file-operation boundaries (os._exit before the call, or after a prefix of the data for write); "
        "a kill inside a system call is represented by the ANY-PREFIX semantics of write/flush/close",
    ]
    ctx.assumptions += [
        "rename(2)/os.replace is atomic (Fs.fs_replace is one step) -- OS guarantee, assumed, partial",
        "durability after power loss (what fsync buys) is not modelled: a kill is a process kill, the kernel survives",
        "a killed process leaves the directory tree as its last completed call left it",
    ]

    # ---- phase 0: fault-free runs + pipeline oracle -----------------------------------------------------
    base_recs = pool.map(_worker, [(S[n], None, None, None) for n in names])
    oracle_tasks = []
    for n in names:
        sc = S[n]
        tdata = next((e[2] for e in sc["fs"] if e[0] == sc["target"]), None)
        variants = [tdata] if (tdata is None or sc["mode"] != "content") else [tdata, ""]
        for v in variants:
            sc2 = dict(sc)
            sc2["args"] = {k: x for k, x in sc["args"].items() if k not in ("base_hash", "corrections_only")}
            oracle_tasks.append((n, v, (sc2, None, None, fs_variant(sc, v))))
    oracle_recs = pool.map(_worker, [t[2] for t in oracle_tasks])
    pipe = {n: [] for n in names}
    canon = {n: set() for n in names}
    for (n, v, _), rec in zip(oracle_tasks, oracle_recs):
        if "harness_error" in rec:
            raise RuntimeError("oracle run failed: " + rec["harness_error"])
        sc = S[n]
        oc = outcome_of(rec)
        text = None
        if oc[0] == "success":
            text = rec["after"][sc["target"]][1].decode("utf-8")
            canon[n].add(text)
        key = None if (sc["api"] == "atomic") else (None if v is None else nl(v))
        if (key, text) not in pipe[n]:
            pipe[n].append((key, text))
    base = {}
    for n, rec in zip(names, base_recs):
        if "harness_error" in rec:
            raise RuntimeError("fault-free run failed: " + rec["harness_error"])
        base[n] = rec
        if any(op.startswith("UNEXPECTED") for op in rec["trace"]):
            ctx.correspondence_failure({"scenario": n, "trace": rec["trace"]},
                                       "the write path used an operation outside the modelled protocol: "
                                       + ",".join(op for op in rec["trace"] if op.startswith("UNEXPECTED")))

    def texts_of(n):
        sc = S[n]
        t = {"", OLD, NEW, NONCANON, FRONT} | canon[n] | {nl(e[2]) for e in sc["fs"] if e[1] == "F"}
        return sorted(t)

    # ---- task list ------------------------------------------------------------------------------------------
    tasks = []          # (scenario name, crash_at, fail_at)
    for n in names:
        tasks.append((n, None, None))
        nops = len(base[n]["trace"])
        light = ctx.quick() and S[n].get("light")
        for k in range(nops):
            op = base[n]["trace"][k]
            tasks.append((n, k, None))
            for e in ([ERRNOS["EIO"]] if light else ERRNOS.values()):
                tasks.append((n, None, {k: e}))
            if is_meta_op(op):
                for e in META_ERRNOS.values():
                    if light or e not in ERRNOS.values():
                        tasks.append((n, None, {k: e}))
            if base[n]["trace"][k] in RAW_WRITE_OPS:
                tasks.append((n, None, {k: SHORT}))
    # corpus first
    corpus = []
    cdir = VERIF / "corpus" / "C16"
    if cdir.is_dir():
        for p in sorted(cdir.glob("*.json")):
            c = json.loads(p.read_text())
            if c.get("scenario") in S:
                corpus.append((p.name, c))
    corpus_tasks = []
    for _, c in corpus:
        fa = {int(k): v for k, v in (c.get("fail_at") or {}).items()}
        # position-independent witnesses: "faults": [[op name, occurrence, errno name | "short"], ..] are resolved one after
        # the other against the trace the faults resolved so far produce (op indices move when the source changes)
        for op, occ, err in c.get("faults") or []:
            tr = pool.map(_worker, [(S[c["scenario"]], None, dict(fa) or None, None)])[0].get("trace", [])
            ks = [k for k, o in enumerate(tr) if o == op]
            if len(ks) > occ:
                fa[ks[occ]] = SHORT if err == SHORT else {**ERRNOS, **META_ERRNOS}[err]
        corpus_tasks.append((c["scenario"], c.get("crash_at"), fa or None))

    results = []        # (name, crash_at, fail_at, rec)

    def execute(tlist, label):
        recs = pool.map(_worker, [(S[n], ca, fa, None) for n, ca, fa in tlist], chunksize=8)
        for (n, ca, fa), rec in zip(tlist, recs):
            if "harness_error" in rec:
                raise RuntimeError(f"{label}: {rec['harness_error']}")
            results.append((n, ca, fa, rec))
        return recs

    n_before = 0
    crecs = execute(corpus_tasks, "corpus")
    n_corpus = len(results)
    singles = execute(tasks, "singles")

    # ---- pairs: second fault anywhere after the first, in the trace the first fault produces ----------------
    pair_tasks = []
    e_list = list(ERRNOS.values())
    for (n, ca, fa), rec in zip(tasks, singles):
        if not fa:
            continue
        (k1, e1), = fa.items()
        if ctx.quick():
            continue
        for k2 in range(k1 + 1, len(rec["trace"])):
            for e2 in e_list:
                pair_tasks.append((n, None, {k1: e1, k2: e2}))
            if is_meta_op(rec["trace"][k2]):
                for e2 in (META_ERRNOS["EPERM"], META_ERRNOS["ENOENT"]):
                    pair_tasks.append((n, None, {k1: e1, k2: e2}))
            if rec["trace"][k2] in RAW_WRITE_OPS:
                pair_tasks.append((n, None, {k1: e1, k2: SHORT}))
            pair_tasks.append((n, k2, {k1: e1}))
    if ctx.quick():
        # a swallowed first failure followed by a short raw write (few: only where a raw write exists)
        for (n, ca, fa), rec in zip(tasks, singles):
            if fa and list(fa.values())[0] == ERRNOS["EIO"]:
                (k1, e1), = fa.items()
                for k2 in range(k1 + 1, len(rec["trace"])):
                    if rec["trace"][k2] in RAW_WRITE_OPS:
                        pair_tasks.append((n, None, {k1: e1, k2: SHORT}))
        cand = [((n, ca, fa), rec) for (n, ca, fa), rec in zip(tasks, singles) if fa]
        for _ in range(600):
            (n, _ca, fa), rec = ctx.rng.choice(cand)
            (k1, e1), = fa.items()
            if k1 + 1 >= len(rec["trace"]):
                continue
            k2 = ctx.rng.randrange(k1 + 1, len(rec["trace"]))
            if ctx.rng.random() < 0.25:
                pair_tasks.append((n, k2, {k1: e1}))
            else:
                pair_tasks.append((n, None, {k1: e1, k2: ctx.rng.choice(e_list)}))
    # every cleanup op instance as second failure (the fault pattern of the known finding), in both tiers
    for (n, ca, fa), rec in zip(tasks, singles):
        if not fa:
            continue
        (k1, e1), = fa.items()
        if e1 != ERRNOS["ENOSPC"]:
            continue      # (a SHORT first fault is not an int and is skipped here too)
        for k2 in range(k1 + 1, len(rec["trace"])):
            if rec["trace"][k2] in ("unlink:temp", "ospath_exists:temp"):
                pair_tasks.append((n, None, {k1: e1, k2: ERRNOS["EIO"]}))
    seen = set()
    uniq = []
    for t in pair_tasks:
        key = (t[0], plan_key(t[1], t[2]))
        if key not in seen:
            seen.add(key)
            uniq.append(t)
    execute(uniq, "pairs")

    # ---- model predictions ---------------------------------------------------------------------------------------
    model = [None] * len(results)
    n_short = sum(1 for _, _, fa, _ in results if fa and SHORT in fa.values())
    if have_model:
        # the model side must never stop the implementation-side search below: a missing / stale / crashing driver
        # is a broken correspondence, the runs are still judged by the property itself
        try:
            lines, idx = [], []
            for i, (n, ca, fa, rec) in enumerate(results):
                if fa and SHORT in fa.values():
                    continue      # a short raw write is outside the protocol language (the translator fails closed on os.write)
                sc = S[n]
                if sc["api"] == "cli":
                    continue      # no protocol model of the CLI pre-phase: property judge only
                nval = nval_of(base[n]["trace"])
                extra = [e for e in new_entries(rec, sc) if rec["after"][e][0] == "F"]
                L = 0
                if len(extra) == 1:
                    try:
                        L = len(rec["after"][extra[0]][1].decode("utf-8"))
                    except UnicodeDecodeError:
                        L = 0
                orc = {}
                for k, op in enumerate(rec["trace"]):
                    if op in ("write", "flush", "close"):
                        orc[k] = L
                lines.append(model_line(sc, pipe[n], nval, ca, fa, orc, texts_of(n)))
                idx.append(i)
            outs = run_driver("fsw", lines)
            for i, line, o in zip(idx, lines, outs):
                model[i] = parse_model(o)
                if model[i] is None:
                    ctx.correspondence_failure({"line": line[:300]}, f"model driver answered {o[:200]}")
        except Exception as e:  # noqa: BLE001
            model = [None] * len(results)
            ctx.correspondence_failure({"driver": "fsw"}, f"model predictions unavailable: {type(e).__name__}: {str(e)[:300]}")

    # ---- evaluate ---------------------------------------------------------------------------------------------------
    residue = 0
    witness_hit = {}
    for i, (n, ca, fa, rec) in enumerate(results):
        sc = S[n]
        ctx.count()
        case = {"scenario": n, "api": sc["api"], "args": sc["args"], "fs": [[a, b, c, d] for a, b, c, d in sc["fs"]],
                "target": sc["target"], "crash_at": ca, "fail_at": fa, "trace": rec["trace"], "outcome": list(outcome_of(rec))}
        oc = outcome_of(rec)
        kind = "fault-free" if (ca is None and not fa) else ("kill" if not fa else ("fail" if ca is None and len(fa) == 1 else "pair"))
        if fa and SHORT in fa.values():
            kind += "+short"
        ctx.hist("plan_kind", kind)
        ctx.hist("scenario", n)
        ctx.hist("outcome", oc[0] + (":" + oc[1] if oc[0] == "error" else ""))
        for k in ([ca] if ca is not None else []) + list(fa or {}):
            if int(k) < len(rec["trace"]):
                ctx.hist("fault_op", rec["trace"][int(k)])
        for e in (fa or {}).values():
            ctx.hist("errno", ALL_ERRNO_NAMES.get(e, e))
        ctx.nontrivial((n, plan_key(ca, fa)))
        verdicts = judge(sc, rec, canon[n], fa)
        for what, fid in verdicts:
            ctx.property_failure(case, what, finding=fid)
            if i < n_corpus and fid:
                witness_hit[fid] = True
        if oc[0] in ("error", "raised"):
            newdirs = [r for r in rec["after"] if r not in rec["before"] and rec["after"][r][0] == "D"]
            if newdirs:
                residue += 1   # not demanded by the C16 text (not a temp file beside the target); owned by C17
        if model[i] is not None:
            bad = compare_model(sc, rec, model[i], fa)
            if bad:
                ctx.correspondence_failure(case, "; ".join(bad)[:1500])
            if any(f == FINDING_TEMP for _, f in verdicts) and not model[i]["ulfail"]:
                ctx.correspondence_failure(case, "temp left after a cleanup fault but the model's ulfail flag is false")
        if len(ctx.samples) < 10 and (i % 97 == 0):
            ctx.sample({"scenario": n, "crash_at": ca, "fail_at": fa, "outcome": list(oc), "ops": len(rec["trace"]),
                        "target_after": (real_node(rec["after"].get(sc["target"])) or ["absent"])[0]})
    # finding witnesses
    for fid in ctx.known:
        w = ctx.known[fid].get("witness") or {}
        hit = False
        for (name, c), (n, ca, fa, rec) in zip(corpus, results[:n_corpus]):
            if c.get("finding") == fid:
                hit = hit or any(f == fid for _, f in judge(S[n], rec, canon[n], fa))
        ctx.finding_witness(fid, hit)

    if os.environ.get("VERIF_DEBUG_DUMP"):
        with open(os.environ["VERIF_DEBUG_DUMP"], "w") as f:
            json.dump({"corr": ctx.corr_failures, "prop": ctx.prop_failures}, f, default=str)
    ctx.extra["rule"] = (
        "one evaluation = one child run of one scenario under one fault plan (fault-free | kill at op k | OSError errno at op k | "
        "pair | short raw write where a raw os.write exists), judged by the property and compared with `fsw run`; distinct = distinct (scenario, plan); every op instance of "
        "every scenario's fault-free trace is used as kill point and with all 5 errnos; pairs: "
        + ("600 sampled (k1,e1,k2,e2|kill) + every cleanup op as 2nd failure" if ctx.quick() else
           "for every first failure (k1, e1 in the 5 errnos): every later op instance k2 of the trace that failure produces x {the 5 errnos, kill}"))
    ctx.extra["scenarios"] = {n: {"api": S[n]["api"], "ops_fault_free": len(base[n]["trace"]), "trace": base[n]["trace"],
                                  "outcome": list(outcome_of(base[n]))} for n in names}
    ctx.extra["runs"] = {"corpus": n_corpus, "singles_and_kills": len(tasks), "pairs": len(uniq), "oracle_runs": len(oracle_tasks)}
    ctx.extra["model_compared"] = sum(1 for m in model if m is not None)
    raw_sites = {n: [k for k, op in enumerate(base[n]["trace"]) if op in RAW_WRITE_OPS] for n in names}
    ctx.extra["short_write_plans"] = {
        "applicable_runs": n_short,
        "raw_os_write_op_instances_fault_free": sum(len(v) for v in raw_sites.values()),
        "scenarios_with_raw_os_write": sorted(n for n, v in raw_sites.items() if v),
        "note": "fault kind `short` (a raw os.write on a tracked sandbox descriptor writes a proper prefix and RETURNS the count) is "
                "planned at every op instance named os_write, singly and as 1st/2nd element of pairs; the unchanged tree writes only "
                "through the buffered file object (CPython loops on short writes there), so 0 plans are applicable on it"}
    ctx.extra["error_runs_leaving_new_directories"] = residue
    ctx.extra["note_mkdir_residue"] = ("an error after mkdir(parents=True) leaves the new directories (model: C16_error_no_residue_refuted); "
                                       "the C16 text demands only 'target identical, no temporary file beside it', so this is counted here "
                                       "and reported as a finding under C17 ('status=error leaves the file system exactly as it was')")


def replay(ctx, case):
    """./check C16 --replay file : re-run the recorded case, print the verdict."""
    global _SCRATCH
    c = case.get("case", case)
    S = scenarios()
    sc = S.get(c.get("scenario"))
    if sc is None:
        print("unknown scenario")
        return 2
    _SCRATCH = tempfile.mkdtemp(prefix="c16r_")
    try:
        fa = {int(k): v for k, v in (c.get("fail_at") or {}).items()} or None
        rec = run_case(sc, c.get("crash_at"), fa)
        canon = set()
        sc2 = dict(sc)
        sc2["args"] = {k: x for k, x in sc["args"].items() if k not in ("base_hash", "corrections_only")}
        tdata = next((e[2] for e in sc["fs"] if e[0] == sc["target"]), None)
        for v in ([tdata] if (tdata is None or sc["mode"] != "content") else [tdata, ""]):
            r2 = run_case(sc2, None, None, fs_variant(sc, v))
            if outcome_of(r2)[0] == "success":
                canon.add(r2["after"][sc["target"]][1].decode("utf-8"))
        v = judge(sc, rec, canon, fa)
        print(json.dumps({"outcome": outcome_of(rec), "trace": rec["trace"], "violations": v,
                          "target_after": real_node(rec["after"].get(sc["target"]))}, indent=1, default=str))
        return 1 if v else 0
    finally:
        if _SERVER is not None:
            _SERVER.close()
        shutil.rmtree(_SCRATCH, ignore_errors=True)


if __name__ == "__main__":
    if "--server" in sys.argv:
        child_server()
