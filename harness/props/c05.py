"""C05 -- literal zones pass through every pipeline byte-for-byte."""
from __future__ import annotations

import asyncio
import json
import os
import random
import shutil
import tempfile

from lib import astcodec, corefrag, doccases, docgen, docprops, lexcorr, parsecorr, render

LEVEL = "proof"
DRIVERS = ["syn"]
PFX = "C05-"

ZLINES = ["plain", "\tTabbed\tline", "é NFD", "é NFC", "back\\slash \\n \\t \\\"", 'q"uote""', "A->B | C & D ~ E + F <-> G vs H",
          "K::v", "===END===", "===X===", "---", "``", "`", "  indented", "", " ", "→⊕⧺⇌∧∨§", "trailing  ", "``` not a fence",
          "// comment?", "[unclosed", "OCTAVE::9", "\x01ctl", "\U0001F600", "#hash", "$VAR", "{brace}", "100%", "A{b}", "see NAME{qual} here", "```"]


def gen_zone(rng, marker_len=None):
    n = rng.choice([0, 0, 1, 1, 2, 3, 5, 8])
    ml = marker_len or rng.choice([3, 3, 3, 4, 5, 6])
    lines = []
    for _ in range(n):
        l = rng.choice(ZLINES)
        if rng.random() < 0.15:
            l = "`" * rng.randint(1, ml - 1) + l.replace("`", "")
        if l.lstrip(" ").startswith("`" * ml):
            continue
        lines.append(l)
    tag = rng.choice([None, None, "python", "json", "text", "c++", "x-y_1"])
    return ("zone", "\n".join(lines), tag, "`" * ml)


def gen_doc(rng, ok_strings=None):
    """content-model document with 1-3 zones next to every node kind, zones at depth 0..5"""
    g = docgen.Gen(rng, wild=False, max_depth=3, max_sibs=3, clean=True, ok_strings=ok_strings)

    def wrap(node, depth):
        for _ in range(depth):
            node = ("b", rng.choice(["B", "OUTER", "X1"]), None, [g.node(4)] * rng.randint(0, 1) + [node] + [g.node(4)] * rng.randint(0, 1), [])
        return node

    secs = []
    nz = rng.randint(1, 3)
    for _ in range(nz):
        if rng.random() < 0.5:
            secs.append(g.node(2))
        depth = rng.randint(0, 5)
        if rng.random() < 0.2 and depth > 0:
            z = ("b", "ZB", None, [("a", "", gen_zone(rng), [], None)], [])      # bare zone, sole child
            secs.append(wrap(z, depth - 1))
        else:
            secs.append(wrap(("a", rng.choice(["CODE", "Z", "SNIPPET"]), gen_zone(rng), [], None), depth))
        if rng.random() < 0.5:
            secs.append(g.node(2))
    return {"name": "D", "grammar": rng.choice([None, "5.1.0"]), "front": None, "sep": rng.random() < 0.3,
            "meta": g.meta(), "sections": [s for s in secs if s[0] != "c"], "trailing": []}


def nodup_keys(d):
    def body(nodes):
        keys = [n[1] if n[0] in ("a", "b") else n[2] for n in nodes if n[0] != "c"]
        if len(keys) != len(set(keys)):
            return False
        return all(body(n[3]) if n[0] == "b" else body(n[4]) if n[0] == "s" else True for n in nodes)
    return body(d["sections"])


def zones_of_neutral(d):
    return [(v[1], v[2], v[3]) for _, v in docprops.values_of(d) if v[0] == "zone"]


def zones_of_text(text, strict=True):
    from octave_mcp.core.parser import parse, parse_with_warnings
    doc = parse(text) if strict else parse_with_warnings(text)[0]
    return zones_of_neutral(astcodec.doc_to_neutral(doc)), doc


def pipelines(loop, text, tmpdir, idx):
    """name -> list of zones after the pipeline (or 'ERR ...')"""
    from octave_mcp.core.emitter import emit
    from octave_mcp.core.sealer import seal_document, verify_seal
    from octave_mcp.mcp.eject import EjectTool
    from octave_mcp.mcp.validate import ValidateTool
    from octave_mcp.mcp.write import WriteTool
    out = {}
    try:
        z, doc = zones_of_text(text, strict=False)
    except Exception as e:  # noqa
        return {"parse": f"ERR {type(e).__name__}: {e}"[:200]}
    out["parse"] = z
    canon = emit(doc)
    out["canonicalise"] = zones_of_text(canon)[0]
    for fix in (False, True):
        r = loop.run_until_complete(ValidateTool().execute(content=text, schema="META", fix=fix))
        out[f"octave_validate(fix={fix})"] = zones_of_text(r["canonical"])[0] if r.get("status") == "success" else f"ERR {r.get('errors')}"[:200]
    p = os.path.join(tmpdir, f"z{idx}.oct.md")
    w = loop.run_until_complete(WriteTool().execute(target_path=p, content=text, lenient=True))
    if w.get("status") == "success":
        with open(p, newline="") as f:
            out["octave_write(file bytes)"] = zones_of_text(f.read())[0]
    else:
        out["octave_write(file bytes)"] = f"ERR {w.get('errors')}"[:200]
    sealed = seal_document(doc)
    out["seal"] = zones_of_neutral(astcodec.doc_to_neutral(sealed))
    out["seal+emit+parse"] = zones_of_text(emit(sealed))[0]
    e = loop.run_until_complete(EjectTool().execute(content=text, schema="META", mode="canonical", format="octave"))
    out["octave_eject(canonical,octave)"] = zones_of_text(e["output"])[0] if "output" in e else f"ERR {str(e)[:150]}"
    try:
        ej = loop.run_until_complete(EjectTool().execute(content=text, schema="META", mode="canonical", format="json"))
    except TypeError:
        ej = {}          # json eject raises on holographic values: that is C20's finding, not a zone matter
    if "output" in ej:
        found = []

        def walk(x):
            if isinstance(x, dict):
                if x.get("__literal_zone__"):
                    found.append((x.get("content"), x.get("info_tag"), x.get("fence_marker")))
                else:
                    for v in x.values():
                        walk(v)
            elif isinstance(x, list):
                for v in x:
                    walk(v)
        walk(json.loads(ej["output"]))
        out["octave_eject(canonical,json)"] = found
    return out


def run(ctx):
    hm = doccases.have_model(ctx)
    ctx.extra["rule"] = ("documents with 1-3 literal zones (as assignment values and as sole bare block children at depth 0..5, fence "
                         "length 3..6, with/without info tag, contents of 0..8 lines over tabs, NFD/NFC pairs, backslashes, quotes, every "
                         "operator and alias, ::, ===END===, ---, shorter backtick runs, blanks, control and astral characters) next to "
                         "every node kind, in canonical and lenient spelling; zones observed after parse, canonicalise, octave_validate "
                         "(fix off/on), octave_write (file bytes), seal, seal+emit+parse, octave_eject canonical (octave, json). "
                         "non-trivial = distinct document whose zones contain a character NFC/escape/operator processing would change")
    tmp = tempfile.mkdtemp(prefix="c05")
    loop = asyncio.new_event_loop()
    texts = []
    try:
        for fid, f in ctx.known.items():
            w = f["witness"]
            res = pipelines(loop, w["text"], tmp, 999999)
            ctx.finding_witness(fid, res.get(w["surface"]) != [tuple(z) for z in w["zones"]])
        from pathlib import Path
        for cf in sorted((Path(__file__).resolve().parents[2] / "corpus" / "C05").glob("*.json")):
            c = json.loads(cf.read_text())
            want = [tuple(z) for z in c["zones"]]
            res = pipelines(loop, c["text"], tmp, 999998)
            for name, got in res.items():
                ctx.count()
                if got != want and not (name == "octave_eject(canonical,json)" and "\n§" in c["text"]):
                    ctx.property_failure({"text": c["text"], "pipeline": name, "expected_zones": want, "observed": got, "corpus": cf.name},
                                         f"{name}: literal zones differ from the input's (corpus {cf.name})")
        # ---- offset-shift stream: text BEFORE a zone whose length changes under NFC (k decomposed sequences), or that any
        #      other pre-pass might count differently (astral characters, CR-less long lines), and a zone whose LAST lines
        #      carry every rewritable construct (NAME{q}, aliases, triple quotes); a pre-pass that computes protected
        #      ranges on one text and applies them to another exposes exactly the tail of the zone ----
        tails = ["REPLY_TO::SUPPORT{queue}", "A->B | C{d}", 'T::"""x"""', "K :: v  ", "plain", "last\tcolumn", "\t", "x\t"]
        for k in (0, 1, 3, 8, 20, 45):
            for pre_kind in ("comment", "value", "key-block"):
                for tail in tails:
                    for depth in (0, 2):
                        ind = "  " * depth
                        nfd = "e\u0301" * k
                        if pre_kind == "comment":
                            pre = f"// {nfd} note\n"
                        elif pre_kind == "value":
                            pre = f'NOTE::"{nfd} x"\n'
                        else:
                            pre = f'PRE:\n  A::"{nfd}"\n  B::"\U0001F600{nfd}"\n'
                        body = f"first line\nmiddle {{brace}} A{{b}}\n{tail}"
                        blocks = "".join("  " * i + f"L{i}:\n" for i in range(depth))
                        t = (f"===D===\n{pre}{blocks}{ind}CODE::\n{ind}```text\n" + "\n".join(ind + l for l in body.split("\n"))
                             + f"\n{ind}```\nAFTER::x\n===END===\n")
                        want = [("\n".join(ind + l for l in body.split("\n")), "text", "```")]      # zone lines are raw, indentation included
                        res = pipelines(loop, t, tmp, 999000 + k)
                        ctx.nontrivial(t)
                        for name, got in res.items():
                            ctx.count()
                            if got != want:
                                ctx.property_failure({"text": t, "pipeline": name, "expected_zones": want, "observed": got,
                                                      "stream": "offset-shift", "nfd_sequences_before_zone": k},
                                                     f"{name}: literal zones differ from the input's (text before the zone changes length under NFC)")
        corefrag.runz(ctx, ctx.scale(200, 4000), hm)
        n = ctx.scale(450, 9000)
        oks = doccases.ok_string_set(ctx)
        for i in range(n):
            rng = random.Random(ctx.rng.random())
            d = gen_doc(rng, oks)
            if not docprops.in_content_model(d):
                continue
            if hm and (doccases.model_clauses([d])[0] or doccases.nfc_escape_clause_doc(d)):
                ctx.hist("skipped", "neighbour falsifies a wf clause")
                continue
            want = zones_of_neutral(d)
            lenient = rng.random() < 0.5
            t = render.render(d, rng if lenient else None)[0]
            texts.append(t)
            if any(ch in z[0] for z in want for ch in "\t\\\"́>|&~+"):
                ctx.nontrivial(t)
            ctx.hist("zones_per_doc", len(want))
            ctx.hist("empty_zone", sum(1 for z in want if z[0] == ""))
            res = pipelines(loop, t, tmp, i)
            for name, got in res.items():
                ctx.count()
                if got == want:
                    continue
                if name == "octave_eject(canonical,json)" and (not nodup_keys(d) or "'s'" in repr(d["sections"])):
                    ctx.hist("skipped", "json view with duplicate sibling keys / section markers (C14 findings)")
                    continue
                fid = None
                if name == "octave_write(file bytes)" and isinstance(got, list) and \
                        [(c.replace("\r", "\n"), a, b) for c, a, b in want] == [(c.replace("\r", "\n"), a, b) for c, a, b in got]:
                    fid = PFX + "cr-through-file"
                ctx.property_failure({"text": t, "pipeline": name, "expected_zones": want, "observed": got},
                                     f"{name}: literal zones differ from the input's", finding=fid)
        ctx.sample({"text": texts[0], "zones": zones_of_neutral(astcodec.doc_to_neutral(zones_of_text(texts[0], strict=False)[1]))})
    finally:
        loop.close()
        shutil.rmtree(tmp, ignore_errors=True)
    if hm:
        bad, nl = lexcorr.compare(texts)
        ctx.count(nl)
        for t, i, m in bad[:10]:
            ctx.correspondence_failure({"text": t, "impl": i[:400], "model": m[:400]}, "tokenize differs from the lexer model")
        bad, n_in, n_out, _ = parsecorr.compare(texts, strict=False, with_warnings=True)
        ctx.count(n_in)
        for t, i, m in bad[:10]:
            ctx.correspondence_failure({"text": t, "impl": i[:400], "model": m[:400]}, "parse differs from the parser model")
