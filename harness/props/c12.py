"""C12 -- every compiled grammar is well-formed GBNF.

Per generated schema (FIELDS route, META.CONTRACT route, hand-built SchemaDefinition; with/without envelope):
  1. correspondence: implementation grammar text == text emitted by the extracted Coq compiler model
     (Gbnf/Compiler.v) fed with the implementation's own SchemaDefinition;
  2. property search on the IMPLEMENTATION: every grammar returned by CompileGrammarTool.execute,
     EjectTool.execute(format='gbnf'), grammar_hint of INVALID octave_validate / octave_write answers and
     GBNFCompiler().compile_schema is run through the extracted recogniser + wf (Gbnf/Syntax.v) and through an
     independent recursive-descent transcription of llama.cpp's parser (RefParser below);
  3. a grammar that is not well-formed is attributed to a listed finding only through the falsified clause of
     `safe_schema` (Gbnf/Safe.v, computed by the extracted model) that explains the observed failure kind.
"""
from __future__ import annotations

import asyncio
import json
import os
import shutil
import tempfile
import unicodedata

from lib.model import dec_str, enc_str, run_driver

LEVEL = "proof"
DRIVERS = ["gbnf"]
COQ_TARGETS = []

# ---------------------------------------------------------------------------------------------------------
# pools (the quantifier of C12)
CLEAN_NAMES = ["STATUS", "PRIORITY", "OWNER", "NAME", "ID", "TAGS", "K", "Q", "F1", "X9", "AB", "Title", "zed"]
SAN_NAMES = [
    "Status", "status",                                    # case collisions with STATUS
    "A.B", "A/B", "A-B", "A_B", "a__b", "A.-B", "_X", "X_", "X",   # dot / slash / hyphen / underscore
    "a.b.c", "x/y", "MY_FIELD", "my-field", "...", "_", "__", "UNNAMED-FIELD", "unnamed_field",
    "Ünï", "ÜNÏ", "名前", "É", "é", "İ", "ΑΣ", "ß", "ue9",  # unicode
    "R_9A", "r_9a",                                        # leading-digit prefix collisions
    "WS", "Ws", "FIELD", "CONTENT", "DOCUMENT", "ROOT",    # structural rule names
    "ENVELOPE-START", "ENVELOPE-END", "META-BLOCK", "META-CONTENT", "META-FIELD", "envelope-end",
]
# leading digits / quoted names (CONTRACT route only: FIELD["q r"] keeps its quotes in the field name). The quoted ones put
# double quotes, backslashes, spaces, a tab and a line break INSIDE the GBNF literal of the field rule (escaped since 481c8b3)
CONTRACT_ONLY_NAMES = ["9a", "1", "9A", '"q r"', '"x"', '"a\\\\b"', '"q\\"r"', '" lead"', '"a b\\\\"', '"x\\ty"', '"x\\ny"',
                       '"a\\"b\\\\c d"']
# direct API route (SchemaDefinition built by hand): arbitrary text as field name / schema name
API_FIELD_NAMES = ["q r", 'a"b', "a\\b", '"q r"', "x\ny", " ", "tab\there", 'a"b\\c', "\\", '"', 'say "hi" \\o/', "NAME", "K"]
API_SCHEMA_NAMES = ['a"b\\c', "My Schema", "a\\", '"', "S", 'x "y" \\z', "été\"", "a\nb", "a\r\nb", "a\n\rb", "\n", "a\n", "\na", "a\x0bb\x0cc",
                    "a\x1cb\x1dc\x1ed", "a\x85b", "a\u2028b\u2029c", "a\nb\r\nc\rd\x0be\x0cf\x1cg\x1dh\x1ei\x85j\u2028k\u2029l\n\nm\n", "", "INFERRED",
                    "UNKNOWN", "名前\n二"]
# document route: envelope names as written (the reader refuses most non-identifiers), META.TYPE source texts, extra META keys
ENVELOPE_NAMES = ["S", "MY_SCHEMA", "Doc1", "SESSION_LOG", "INFERRED", "UNKNOWN", "lower_case", "X9", "été", "名前", "A-B", "A.B", "a b",
                  'A"B', "A\\B", "9A", "_X"]
TYPE_SOURCES = ["PROTOCOL_DEFINITION", "SESSION_LOG", "T", "lower_case", '"My Type"', '"a\\"b"', '"a\\"b\\\\c"', '"back\\\\slash"', '"a\\nb"',
                '"Review \\"draft\\" log"', '"LINE1\\nLINE2"', '"tab\\there"', '" lead"', '"trail "', '"été \\"x\\""', '"名前"', '"a\\n\\nb\\n"',
                '"\\n"', '"==="', '"x # y"', "42", "true"]
# META TYPE values that are NOT a str (repo 61337a1: each names the schema UNKNOWN, like a missing TYPE): number, float,
# negative, boolean, null, list, empty list, inline map, holographic value, nested block (":BLOCK" = TYPE: + indented children)
NONSTRING_TYPE_SOURCES = ["42", "1.5", "-7", "true", "false", "null", "[a,b]", "[]", "[a::1,b::2]", '["x"∧REQ→§SELF]', '["x"∧ENUM[A,B]]',
                          ":BLOCK"]
TYPE_SOURCES += [t for t in NONSTRING_TYPE_SOURCES if t not in TYPE_SOURCES]
EXTRA_META_KEYS = ["NAME", "SCHEMA", "SCHEMA_NAME", "ID", "TITLE", "DOC", "STATUS"]
REGEX_POOL = [
    "abc", "^abc$", "^[a-z]+$", "[a-z]+", "[A-Z]", "[a-z]*", "[0-9a-f]+", "^[A-Z][a-z]+$", "[a-z]+[0-9]*",
    "a\\\\.b", "\\\\d+", "\\\\w+\\\\s*", "\\\\bword\\\\b", "(a|b)+", "(?:x|y)", "(?=z)q", "a|b", "ws|field",
    "[a-z]{2,3}", "x{2}", "[0-9]{4}-[0-9]{2}", "[^,]+", "[\\\\-a]+", "^$", "^.*$", ".+", ".", "a.b", "ws+",
    "^[a-z][a-z0-9-]*$", "x?", "+", "*", "^^ab$$", "root", "[a-z]+@[a-z]+", "a b", "a#b", "v[0-9]+(-rc)?",
    "[a-z", "a{", "a{2", "()", "a||b", "(a", "[]a]",
]
ENUM_POOL = [["A", "B"], ["ACTIVE", "PAUSED", "COMPLETE"], ["a b", "c"], ['x"y', "z"], ["1", "2"], ["true", "no"],
             ["LOW"], ["a\\\\b", "c"], ["été", "hiver"], ["ws", "root"]]
CONST_POOL = ["X", "42", "-7", "1.5", "true", "null", '"a b"', '"q\\"r"', "v1.2.3", "DONE", '"back\\\\slash"']
TYPE_POOL = ["STRING", "NUMBER", "BOOLEAN", "LIST", "LITERAL", "OTHER"]
SCHEMA_NAMES = ["S", "MY_SCHEMA", "Doc1", "SESSION_LOG"]
CONTRACT_TYPES = ["SESSION_LOG", "T", '"My Type"', '"a\\"b"', "lower_case", '"été"', '"a\\"b\\\\c"', '"back\\\\slash"',
                  '"a\\nb"']

# COMPATIBILITY characters (NFKC changes them, the reader's NFC does not: micro sign, superscript two, trade mark, ligature fi,
# full-width letters, circled one, black-letter H, dz digraph; plus the kelvin / angstrom signs NFC itself replaces) in every
# place where text becomes a GBNF literal: field names, schema names / META TYPE, CONST and ENUM values
COMPAT_NAMES = ["\u00b5", "\ufb01eld", "\uff21\uff22", "m\u00b2", "\u01c5", "K\u212a", "\u212b"]
SAN_NAMES += COMPAT_NAMES
CONTRACT_ONLY_NAMES += ['"\u00b5 m"', '"\u2122"', '"\u2460 \ufb01"']
CONST_POOL += ['"\u00b5m"', "\u00b5", '"m\u00b2"', '"\ufb01"', '"\uff21"', '"\u2460 \u210c \u2122"']
ENUM_POOL += [["\u00b5m", "\u03bcm"], ["\uff21", "A"], ["\ufb01", "fi", "\u2460"]]
API_FIELD_NAMES += ["\u00b5", "x\u00b2", "\ufb01", "\uff21", "\u2460", "\u212a"]
API_SCHEMA_NAMES += ["\u00b5-schema", "\uff53\uff43\uff48\uff45\uff4d\uff41", "\ufb01le\u2122", "\u212b"]
CONTRACT_TYPES += ['"\u00b5\u2122"', '"\uff21 \ufb01 \u2460"']
TYPE_SOURCES += ['"\u00b5\u2122"', '"\uff21 \ufb01 \u2460"']
ENVELOPE_NAMES += ["\u00b5", "\uff21\uff22"]

# clause bit -> listed finding.  Bits 3 (field name) and 4 (schema name) have NO finding: since repo 481c8b3 names are
# escaped inside literals and since b75eb16 the header comment shows the schema name on one line; what is left of both
# clauses is a NUL in a name, which no reader produces.  Quote / backslash / line break in a name excuse nothing.
FINDING_OF_BIT = {0: "C12-underscore-rule-name", 1: "C12-sanitise-collision", 2: "C12-structural-name",
                  5: "C12-regex-passthrough"}
# failure kind (wf code in the `_`-tolerant dialect) -> clause bits that can explain it
EXPLAINS = {1: (5,), 3: (5,), 4: (1, 2), 5: (5,), 2: ()}
CODE_NAME = {0: "ok", 1: "does-not-parse", 2: "root-missing", 3: "undefined-reference", 4: "duplicate-rule",
             5: "empty-alternative"}


def gen_member(rng):
    k = rng.choice(["REQ", "OPT", "CONST", "ENUM", "TYPE", "REGEX", "REGEX", "DIR", "APPEND_ONLY", "RANGE", "MAX_LENGTH",
                    "MIN_LENGTH", "DATE", "ISO8601", "LANG"])
    if k == "CONST":
        return f"CONST[{rng.choice(CONST_POOL)}]"
    if k == "ENUM":
        vs = rng.choice(ENUM_POOL)
        return "ENUM[" + ",".join(v if v.replace("_", "").isalnum() and v.isascii() else '"' + v + '"' for v in vs) + "]"
    if k == "TYPE":
        return f"TYPE[{rng.choice(TYPE_POOL)}]"
    if k == "REGEX":
        return 'REGEX["' + rng.choice(REGEX_POOL) + '"]'
    if k == "RANGE":
        return rng.choice(["RANGE[0,10]", "RANGE[-1.5,2]"])
    if k == "MAX_LENGTH":
        return rng.choice(["MAX_LENGTH[5]", "MAX_LENGTH[0]"])
    if k == "MIN_LENGTH":
        return rng.choice(["MIN_LENGTH[0]", "MIN_LENGTH[1]", "MIN_LENGTH[3]"])
    if k == "LANG":
        return "LANG[python]"
    return k


def gen_chain(rng):
    n = rng.choice([0, 1, 1, 2, 2, 3])
    return [gen_member(rng) for _ in range(n)]


def fields_doc(name, fields):
    lines = [f"==={name}===", "META:", "  TYPE::PROTOCOL_DEFINITION", '  VERSION::"1.0"', "", "FIELDS:"]
    for fn, chain in fields:
        body = "∧".join(['"x"'] + chain)
        lines.append(f"  {fn}::[{body}]")
    lines += ["===END===", ""]
    return "\n".join(lines)


def contract_doc(tname, fields):
    specs = []
    for fn, chain in fields:
        specs.append(f"FIELD[{fn}]::" + ("∧".join(chain) if chain else "OPT"))
    return "\n".join(["===D===", "META:", f"  TYPE::{tname}", '  VERSION::"1.0"', "  CONTRACT::[" + ", ".join(specs) + "]",
                      "===END===", ""])


# ---------------------------------------------------------------------------------------------------------
# implementation schema -> model encoding
def enc_cst(c):
    from octave_mcp.core import constraints as C
    if isinstance(c, C.RequiredConstraint):
        return "R"
    if isinstance(c, C.OptionalConstraint):
        return "O"
    if isinstance(c, C.EnumConstraint):
        return "E:" + ("/".join(enc_str(v) for v in c.allowed_values) if c.allowed_values else "~")
    if isinstance(c, C.ConstConstraint):
        return "C:" + enc_str(str(c.const_value))
    if isinstance(c, C.TypeConstraint):
        return "T:" + enc_str(c.expected_type)
    if isinstance(c, C.RegexConstraint):
        return "X:" + enc_str(c.pattern)
    if isinstance(c, C.DirConstraint):
        return "D"
    if isinstance(c, C.AppendOnlyConstraint):
        return "A"
    if isinstance(c, C.RangeConstraint):
        return "G"
    if isinstance(c, C.MaxLengthConstraint):
        return "M"
    if isinstance(c, C.MinLengthConstraint):
        return f"N:{c.min_length}"
    if isinstance(c, C.DateConstraint):
        return "DT"
    if isinstance(c, C.Iso8601Constraint):
        return "ISO"
    return "Z"


def enc_fields(schema):
    """fields of a SchemaDefinition -> tokens `{<fname> <flower> <chain>}` ('' for no field) or None when out of model."""
    toks = []
    for fname, fd in schema.fields.items():
        if not isinstance(fname, str):
            return None
        if fd.pattern and fd.pattern.constraints:
            cs = fd.pattern.constraints.constraints
            ch = ",".join(enc_cst(c) for c in cs) if cs else "="
        else:
            ch = "~"
        toks += [enc_str(fname), enc_str(fname.lower()), ch]
    if any(0xD800 <= ord(ch) <= 0xDFFF for ch in "".join(schema.fields)):
        return None
    return " ".join(toks)


def enc_named(name, fenc):
    """model input `<name> <upper> {fields}`; name is the MODEL's schema name for the route."""
    if fenc is None or not isinstance(name, str) or any(0xD800 <= ord(ch) <= 0xDFFF for ch in name):
        return None
    return " ".join([enc_str(name), enc_str(name.upper())] + ([fenc] if fenc else []))


def nameq_tok(q):
    """name query -> driver line.  ('doc', envelope name as written | None)  ('meta', META TYPE value | None)  ('raw', name)"""
    kind, v = q
    if kind == "doc":
        return "docname " + ("~" if v is None else enc_str(v))
    if kind == "meta":       # v: ("absent",) | ("str", text) | ("other", python type name)
        return "metaname " + ("~" if v[0] == "absent" else ("S:" + enc_str(v[1])) if v[0] == "str" else "O")
    return None


def document_text(env_name, type_src, contract_specs, fields, extra_meta=(), with_meta=True):
    """Schema document: optional ===NAME=== envelope, optional META (TYPE source text, extra keys, CONTRACT), optional FIELDS."""
    lines = []
    if env_name is not None:
        lines.append(f"==={env_name}===")
    if with_meta:
        lines.append("META:")
        if type_src == ":BLOCK":
            lines += ["  TYPE:", "    A::1", '    B::"x"']
        elif type_src is not None:
            lines.append(f"  TYPE::{type_src}")
        lines.append('  VERSION::"1.0"')
        for k, v in extra_meta:
            lines.append(f"  {k}::{v}")
        if contract_specs is not None:
            lines.append("  CONTRACT::[" + ", ".join(contract_specs) + "]")
    if fields is not None:
        lines += ["", "FIELDS:"] if with_meta else ["FIELDS:"]
        for fn, chain in fields:
            lines.append(f"  {fn}::[" + "∧".join(['"x"'] + list(chain)) + "]")
    if env_name is not None:
        lines.append("===END===")
    lines.append("")
    return "\n".join(lines)


def contract_specs_of(fields):
    return [f"FIELD[{fn}]::" + ("∧".join(chain) if chain else "OPT") for fn, chain in fields]


def schema_from_meta(meta):
    """The SchemaDefinition compile_gbnf_from_meta builds, CAPTURED from the implementation (compile_schema is wrapped for the
    duration of one call), and the CONTRACT field specs.  schema is None when the call raises before compile_schema."""
    from octave_mcp.core import gbnf_compiler as G
    got = {}
    orig = G.GBNFCompiler.compile_schema

    def spy(self, schema, include_envelope=False):
        got.setdefault("schema", schema)
        return orig(self, schema, include_envelope=include_envelope)

    G.GBNFCompiler.compile_schema = spy
    try:
        try:
            G.compile_gbnf_from_meta(meta)
        except Exception:  # noqa -- the caller runs the real call again and records what it raises
            pass
    finally:
        G.GBNFCompiler.compile_schema = orig
    specs = []
    contract = meta.get("CONTRACT")
    if contract:
        specs = G._extract_contract_field_specs(contract)
    return got.get("schema"), specs


# ---------------------------------------------------------------------------------------------------------
# independent transcription of llama.cpp's grammar parser (recursive descent over a NUL-terminated string)
class RefError(Exception):
    pass


class RefParser:
    def __init__(self, text, us_ok=False):
        i = text.find("\0")
        self.s = (text if i < 0 else text[:i]) + "\0"
        self.us_ok = us_ok
        self.defs = []
        self.refs = []

    def word(self, c):
        return ("a" <= c <= "z") or ("A" <= c <= "Z") or c == "-" or ("0" <= c <= "9") or (self.us_ok and c == "_")

    def space(self, pos, nl_ok):
        s = self.s
        while s[pos] in " \t#" or (nl_ok and s[pos] in "\r\n"):
            if s[pos] == "#":
                while s[pos] != "\0" and s[pos] not in "\r\n":
                    pos += 1
            else:
                pos += 1
        return pos

    def name(self, pos):
        p = pos
        while self.word(self.s[p]):
            p += 1
        if p == pos:
            raise RefError("expecting name")
        return p

    def hexn(self, pos, n):
        p = pos
        while p < pos + n and self.s[p] != "\0":
            if self.s[p] not in "0123456789abcdefABCDEF":
                break
            p += 1
        if p != pos + n:
            raise RefError("hex")
        return p

    def char(self, pos):
        s = self.s
        if s[pos] == "\\":
            c = s[pos + 1]
            if c == "x":
                return self.hexn(pos + 2, 2)
            if c == "u":
                return self.hexn(pos + 2, 4)
            if c == "U":
                return self.hexn(pos + 2, 8)
            if c in 'trn\\"[]':
                return pos + 2
            raise RefError("unknown escape")
        if s[pos] != "\0":
            return pos + 1
        raise RefError("unexpected end")

    def sequence(self, pos, nested, empty_flag):
        s = self.s
        n_items = 0
        last_size = 0     # size (in elements) of the last symbol; 0 => repetition is an error
        while s[pos] != "\0":
            c = s[pos]
            if c == '"':
                pos += 1
                k = 0
                while s[pos] != '"':
                    if s[pos] == "\0":
                        raise RefError("unexpected end")
                    pos = self.char(pos)
                    k += 1
                pos = self.space(pos + 1, nested)
                last_size = k
                n_items += 1
            elif c == "[":
                pos += 1
                if s[pos] == "^":
                    pos += 1
                k = 0
                while s[pos] != "]":
                    if s[pos] == "\0":
                        raise RefError("unexpected end")
                    pos = self.char(pos)
                    k += 1
                    if s[pos] == "-" and s[pos + 1] != "]":
                        if s[pos + 1] == "\0":
                            raise RefError("unexpected end")
                        pos = self.char(pos + 1)
                pos = self.space(pos + 1, nested)
                last_size = k
                n_items += 1
            elif self.word(c):
                e = self.name(pos)
                self.refs.append(s[pos:e])
                pos = self.space(e, nested)
                last_size = 1
                n_items += 1
            elif c == "(":
                pos = self.space(pos + 1, True)
                pos = self.alternates(pos, True, empty_flag)
                if s[pos] != ")":
                    raise RefError("expecting )")
                pos = self.space(pos + 1, nested)
                last_size = 1
                n_items += 1
            elif c == ".":
                pos = self.space(pos + 1, nested)
                last_size = 1
                n_items += 1
            elif c in "*+?":
                pos = self.space(pos + 1, nested)
                if n_items == 0 or last_size == 0:
                    raise RefError("expecting preceding item")
                last_size = 1
            elif c == "{":
                pos = self.space(pos + 1, nested)
                if not ("0" <= s[pos] <= "9"):
                    raise RefError("expecting int")
                e = pos
                while "0" <= s[e] <= "9":
                    e += 1
                mn = int(s[pos:e])
                pos = self.space(e, nested)
                mx = -1
                if s[pos] == "}":
                    mx = mn
                    pos = self.space(pos + 1, nested)
                elif s[pos] == ",":
                    pos = self.space(pos + 1, nested)
                    if "0" <= s[pos] <= "9":
                        e = pos
                        while "0" <= s[e] <= "9":
                            e += 1
                        mx = int(s[pos:e])
                        pos = self.space(e, nested)
                    if s[pos] != "}":
                        raise RefError("expecting }")
                    pos = self.space(pos + 1, nested)
                else:
                    raise RefError("expecting ,")
                if n_items == 0 or last_size == 0:
                    raise RefError("expecting preceding item")
                last_size = 0 if (mn == 0 and mx == 0) else 1
            else:
                break
        if n_items == 0:
            empty_flag.append(True)
        return pos

    def alternates(self, pos, nested, empty_flag):
        pos = self.sequence(pos, nested, empty_flag)
        while self.s[pos] == "|":
            pos = self.space(pos + 1, True)
            pos = self.sequence(pos, nested, empty_flag)
        return pos

    def rule(self, pos):
        s = self.s
        e = self.name(pos)
        self.defs.append(s[pos:e])
        pos = self.space(e, False)
        if not (s[pos] == ":" and s[pos + 1] == ":" and s[pos + 2] == "="):
            raise RefError("expecting ::=")
        pos = self.space(pos + 3, True)
        pos = self.alternates(pos, False, self.empty)
        if s[pos] == "\r":
            pos += 2 if s[pos + 1] == "\n" else 1
        elif s[pos] == "\n":
            pos += 1
        elif s[pos] != "\0":
            raise RefError("expecting newline or end")
        return self.space(pos, True)

    def parse(self):
        """-> wf code as Gbnf/Syntax.v wf_text_code, defs, refs"""
        self.empty = []
        try:
            pos = self.space(0, True)
            while self.s[pos] != "\0":
                pos = self.rule(pos)
        except RefError:
            return 1, None, None
        except IndexError:
            return 1, None, None
        if "root" not in self.defs:
            return 2, self.defs, self.refs
        if any(r not in self.defs for r in self.refs):
            return 3, self.defs, self.refs
        if len(set(self.defs)) != len(self.defs):
            return 4, self.defs, self.refs
        if self.empty:
            return 5, self.defs, self.refs
        return 0, self.defs, self.refs


def model_wf(texts, us):
    """{text: (code, defs, refs)} from the extracted recogniser."""
    texts = list(texts)
    res = run_driver("gbnf", [f"wf {1 if us else 0} {enc_str(t)}" for t in texts])
    out = {}
    for t, r in zip(texts, res):
        code, d, rf = r.split(" ")
        out[t] = (int(code), None if code == "1" else ([] if d == "~" else [dec_str(x) for x in d.split(";")]),
                  None if code == "1" else ([] if rf == "~" else [dec_str(x) for x in rf.split(";")]))
    return out


def mutate(rng, text):
    ops = rng.randint(1, 3)
    t = list(text)
    for _ in range(ops):
        if not t:
            break
        i = rng.randrange(len(t))
        k = rng.random()
        if k < 0.35:
            del t[i]
        elif k < 0.7:
            t.insert(i, rng.choice(list('"[]()|*+?{},\\ \n#-_.:=^a0')))
        else:
            t[i] = rng.choice(list('"[]()|*+?{},\\ \n#-_.:=^a0'))
    return "".join(t)


# ---------------------------------------------------------------------------------------------------------
class Surfaces:
    """Every way a grammar text is returned to a caller."""

    def __init__(self):
        self.tmp = tempfile.mkdtemp(prefix="c12_")
        os.makedirs(os.path.join(self.tmp, "specs", "schemas"))
        self.cwd = os.getcwd()

    def close(self):
        os.chdir(self.cwd)
        shutil.rmtree(self.tmp, ignore_errors=True)

    def compile_tool(self, content):
        from octave_mcp.mcp.compile_grammar import CompileGrammarTool
        r = asyncio.run(CompileGrammarTool().execute(content=content))
        return r.get("grammar") if r.get("status") == "success" and r.get("format") == "gbnf" else None

    def compile_tool_named(self, name):
        from octave_mcp.mcp.compile_grammar import CompileGrammarTool
        r = asyncio.run(CompileGrammarTool().execute(schema=name))
        return r.get("grammar") if r.get("status") == "success" else None

    def eject(self, content, mode="canonical"):
        from octave_mcp.mcp.eject import EjectTool
        r = asyncio.run(EjectTool().execute(content=content, schema="META", format="gbnf", mode=mode))
        return r.get("output") if r.get("format") == "gbnf" else None

    def hints(self, schema_doc, schema_name):
        """grammar_hint of INVALID octave_validate / octave_write answers for a schema found by name."""
        out = {}
        if not (schema_name.isascii() and schema_name and schema_name[0].isalpha() and schema_name[0].isupper()
                and all(c.isupper() or c.isdigit() or c == "_" for c in schema_name)):
            return out
        from octave_mcp.mcp.validate import ValidateTool
        from octave_mcp.mcp.write import WriteTool
        p = os.path.join(self.tmp, "specs", "schemas", schema_name.lower() + ".oct.md")
        with open(p, "w") as f:
            f.write(schema_doc)
        os.chdir(self.tmp)
        try:
            doc = f'===DOC===\nMETA:\n  TYPE::X\n  VERSION::"1"\n{schema_name}:\n  ZZ_UNKNOWN_1::1\n===END===\n'
            r = asyncio.run(ValidateTool().execute(content=doc, schema=schema_name, grammar_hint=True, profile="STRICT"))
            g = (r.get("grammar_hint") or {}).get("grammar")
            if g is not None:
                out["validate.grammar_hint"] = g
            target = os.path.join(self.tmp, "w.oct.md")
            if os.path.exists(target):
                os.remove(target)
            r = asyncio.run(WriteTool().execute(target_path=target, content=doc, schema=schema_name, grammar_hint=True))
            g = (r.get("grammar_hint") or {}).get("grammar")
            if g is not None:
                out["write.grammar_hint"] = g
        finally:
            os.chdir(self.cwd)
            os.remove(p)
        return out


def classify(ctx, case, text, strict, lenient, clauses, model_text_equal, sname=None):
    """Report a not-well-formed grammar. strict/lenient: wf codes; clauses: bit mask or None."""
    what = f"grammar is not well-formed GBNF: {CODE_NAME[strict]}"
    bits = [b for b in range(7) if clauses is not None and (clauses >> b) & 1 and b in FINDING_OF_BIT]
    reported = False
    if model_text_equal and clauses is not None:
        if strict == 1 and 0 in bits:
            ctx.property_failure(case, what + " (rule name contains '_')", finding=FINDING_OF_BIT[0])
            reported = True
        kind = lenient if strict == 1 else strict
        if kind != 0:
            ex = [b for b in EXPLAINS.get(kind, ()) if b in bits]
            if ex:
                for b in ex:
                    ctx.property_failure(case, f"grammar is not well-formed GBNF: {CODE_NAME[kind]}", finding=FINDING_OF_BIT[b])
                reported = True
            else:
                reported = False
    if not reported:
        ctx.property_failure(case, what + " [no safe_schema clause explains it]")
    ctx.hist("failure_kind", CODE_NAME[strict] + "/" + CODE_NAME[lenient])


def check_texts(ctx, have_model, records):
    """records: list of dict(text, surface, case, schema_enc, env).  Runs recogniser+wf on EVERY text."""
    texts = sorted({r["text"] for r in records})
    ref_s = {t: RefParser(t, False).parse() for t in texts}
    ref_l = {t: RefParser(t, True).parse() for t in texts}
    mod_s = mod_l = None
    if have_model:
        mod_s = model_wf(texts, False)
        mod_l = model_wf(texts, True)
        for t in texts:
            for nm, a, b in (("strict", ref_s[t], mod_s[t]), ("underscore-tolerant", ref_l[t], mod_l[t])):
                if a[0] != b[0] or (a[0] != 1 and (a[1] != b[1] or sorted(a[2]) != sorted(b[2]))):
                    ctx.correspondence_failure({"text": t, "ref": a, "model": b},
                                               f"extracted recogniser and reference llama.cpp transcription disagree ({nm})")
    # the schema name of each route is computed by the MODEL (envelope name as written / META TYPE value -> name)
    if have_model:
        qs = sorted({r["nameq"] for r in records if r.get("nameq") and r["nameq"][0] != "raw"}, key=repr)
        res = run_driver("gbnf", [nameq_tok(q) for q in qs]) if qs else []
        mname = {q: (None if x == "NONE" else dec_str(x)) for q, x in zip(qs, res)}
        seen_name_diff = set()
        for r in records:
            q = r.get("nameq")
            if not q:
                r["schema_enc"] = None
                continue
            name = q[1] if q[0] == "raw" else mname[q]
            if name is None:          # the model says: the compiler raises on this META TYPE (tree without the isinstance guard)
                r["schema_enc"] = None
                ctx.correspondence_failure({"case": r["case"], "surface": r["surface"], "route": repr(q)},
                                           "a grammar was returned on a route for which the model predicts that the compiler raises")
                continue
            r["model_name"] = name
            r["schema_enc"] = enc_named(name, r["fenc"])
            ctx.hist("name_route", q[0] if q[0] == "raw" else q[0] + (":" + q[1][0] if q[0] == "meta" else (":absent" if q[1] is None else ":given")))
            if "impl_name" in r and r["impl_name"] != name and (q, repr(r["impl_name"])) not in seen_name_diff:
                seen_name_diff.add((q, repr(r["impl_name"])))
                ctx.correspondence_failure({"case": r["case"], "surface": r["surface"], "route": list(q),
                                            "impl_schema_name": repr(r["impl_name"]), "model_schema_name": name},
                                           "SchemaDefinition.name of the implementation differs from the name the model computes for this route")
    else:
        for r in records:
            r["schema_enc"] = None
    # clauses per (schema, env)
    keys = sorted({(r["schema_enc"], r["env"]) for r in records if r["schema_enc"] is not None})
    clauses = {}
    mtexts = {}
    if have_model and keys:
        res = run_driver("gbnf", [f"clauses {1 if e else 0} {s}" for s, e in keys])
        res2 = run_driver("gbnf", [f"schema {1 if e else 0} {s}" for s, e in keys])
        for k, a, b in zip(keys, res, res2):
            clauses[k] = int(a)
            mtexts[k] = dec_str(b)
    for r in records:
        t = r["text"]
        ctx.count()
        k = (r["schema_enc"], r["env"])
        same = None
        if k in mtexts:
            same = mtexts[k] == t
            if not same:
                ctx.correspondence_failure({"case": r["case"], "surface": r["surface"], "impl": t, "model": mtexts[k]},
                                           "implementation grammar text differs from the compiler model's text")
        strict = (mod_s or ref_s)[t][0]
        lenient = (mod_l or ref_l)[t][0]
        ctx.hist("surface", r["surface"])
        ctx.hist("wf_code", CODE_NAME[strict])
        cl = clauses.get(k)
        if cl is not None:
            ctx.hist("clauses", cl)
            if cl == 0 and strict != 0:
                ctx.correspondence_failure({"case": r["case"], "text": t, "code": strict},
                                           "safe_schema holds but the grammar is not well-formed (contradicts compile_wf)")
        if strict != 0:
            classify(ctx, {"surface": r["surface"], "input": r["case"], "grammar": t}, t, strict, lenient, cl, bool(same))
    return len(texts)


def run(ctx):
    from octave_mcp.core.gbnf_compiler import GBNFCompiler, compile_gbnf_from_meta
    from octave_mcp.core.grammar import compile_document_grammar, emit_grammar_for_schema
    from octave_mcp.core.parser import parse
    from octave_mcp.core.schema_extractor import extract_schema_from_document
    have_model = ctx.build_status["drivers"].get("gbnf", False)
    rng = ctx.rng
    surf = Surfaces()
    records = []
    ctx.extra["rule"] = (
        "schemas: 1-5 fields, names drawn from a %d-name sanitisation pool (case/dot/slash/hyphen/underscore collisions, "
        "unicode, leading digits, structural rule names) mixed with %d clean names; chains of 0-3 members over all constraint "
        "kinds with REGEX patterns from a %d-pattern pool (literals, escapes, groups, alternation, braces, classes, anchors, "
        "malformed); schema DOCUMENTS with every part optional (envelope line from a %d-name pool or absent, META absent / "
        "with TYPE from %d source texts (identifiers, quoted text with quote, backslash, blank, tab, line break, non-ASCII, "
        "number, boolean) or without TYPE, extra META keys with hostile text, CONTRACT and / or FIELDS block or neither) "
        "through compile_schema(extract_schema_from_document) with and without envelope, compile_gbnf_from_meta, "
        "compile_document_grammar, octave_compile_grammar, octave_eject(format=gbnf); the schema NAME fed to the model is "
        "computed by the model for each route (envelope name as written / META TYPE value); emit_grammar_for_schema; "
        "FIELDS route, META.CONTRACT route (quoted FIELD names and quoted TYPE: double quotes, backslashes, blanks, "
        "tab, line break inside the name) and hand-built SchemaDefinition (API route: arbitrary text as field / schema name, "
        "%d + %d pool names plus random strings over letters, blank, quote, backslash, tab); with and without envelope; plus "
        "every pool name alone and every pool pattern alone. Every grammar text returned by each surface is checked. "
        "distinct/non-trivial = distinct grammar text with at least one field rule"
        % (len(SAN_NAMES) + len(CONTRACT_ONLY_NAMES), len(CLEAN_NAMES), len(REGEX_POOL), len(ENVELOPE_NAMES), len(TYPE_SOURCES),
           len(API_FIELD_NAMES), len(API_SCHEMA_NAMES)))

    def add(surface, text, case, fenc, env, nameq=None, impl_name=None):
        if text is None:
            ctx.hist("no_grammar_returned", surface)
            return
        if not isinstance(text, str):
            ctx.property_failure({"surface": surface, "input": case}, f"grammar is not a string: {type(text).__name__}")
            return
        if len(text) > BIG_TEXT:
            # A grammar far larger than any schema of this run can produce (state leaking from one compile into the next):
            # judged by the reference parser alone, text kept only as head + length; after a few reports only counted.
            big["n"] += 1
            ctx.hist("oversized_grammar", surface)
            if big["n"] <= 12 or big["n"] % 200 == 0:
                code = RefParser(text, False).parse()[0]
                ctx.count()
                shown = {"surface": surface, "input": case, "grammar_length": len(text), "grammar_head": text[:1200],
                         "grammar_tail": text[-400:]}
                if code != 0:
                    ctx.property_failure(shown, f"grammar is not well-formed GBNF: {CODE_NAME[code]} (oversized grammar, {len(text)} characters)")
                else:
                    ctx.correspondence_failure(shown, f"grammar of {len(text)} characters: larger than any schema of this run can produce")
            return
        rec = {"text": text, "surface": surface, "case": case, "fenc": fenc, "env": env, "nameq": nameq}
        if impl_name is not None:
            rec["impl_name"] = impl_name
        records.append(rec)
        if '"::" ws' in text:
            ctx.nontrivial(text)

    BIG_TEXT = 20000          # packaged schemas compile to < 1 000 characters, generated ones to < 3 000
    big = {"n": 0}
    S_X = "compile_schema(extract_schema_from_document(doc), env=%s)"
    S_M = "compile_schema(<schema of compile_gbnf_from_meta>, env=%s)"

    def do_document(doc, case, env_name, hint_name=None):
        """Every way a grammar is obtained from a schema DOCUMENT.  env_name: the envelope name as written (None: no envelope
        line).  The schema name the model uses is computed by the model from env_name (extractor route) or from the META TYPE
        value (compile_gbnf_from_meta route); the tools take the second route iff META has a CONTRACT key."""
        try:
            d = parse(doc)
        except Exception as e:  # schema reader refuses: nothing is compiled
            ctx.hist("reader_refused", type(e).__name__)
            return False
        ctx.hist("doc_shape", ("envelope" if env_name is not None else "no-envelope") + ("+META" if d.meta else "")
                 + ("+TYPE" if d.meta and "TYPE" in d.meta else "") + ("+CONTRACT" if d.meta and "CONTRACT" in d.meta else "")
                 + ("+FIELDS" if "FIELDS:" in doc else ""))
        # (1) extractor route
        q_x = ("doc", env_name)
        schema_x = fenc_x = None
        try:
            schema_x = extract_schema_from_document(d)
            fenc_x = enc_fields(schema_x)
            ctx.hist("fields_in_schema", len(schema_x.fields))
        except Exception as e:
            ctx.hist("compile_raised", type(e).__name__)
        if schema_x is not None:
            for env in (True, False):
                try:
                    add(S_X % env, GBNFCompiler().compile_schema(schema_x, include_envelope=env), case, fenc_x, env, q_x, schema_x.name)
                except Exception as e:
                    ctx.hist("compile_raised", type(e).__name__)
        # (2) META route (any META: CONTRACT absent gives a schema without fields named by TYPE)
        q_m = schema_m = fenc_m = None
        specs = []
        if d.meta:
            if "TYPE" not in d.meta:
                q_m = ("meta", ("absent",))
            elif isinstance(d.meta["TYPE"], str):
                q_m = ("meta", ("str", d.meta["TYPE"]))
            else:
                q_m = ("meta", ("other", type(d.meta["TYPE"]).__name__))
            ctx.hist("meta_type_kind", q_m[1][0] if q_m[1][0] != "other" else "other:" + q_m[1][1])
            try:
                schema_m, specs = schema_from_meta(d.meta)
                fenc_m = enc_fields(schema_m) if schema_m is not None else None
            except Exception as e:
                ctx.hist("compile_raised", type(e).__name__)
                schema_m, specs, fenc_m = None, [], None
            if schema_m is None:
                ctx.hist("compile_raised", "compile_gbnf_from_meta before compile_schema")
            # CONTRACT spec splitting: model of parse_contract_field vs implementation
            if have_model and specs:
                from octave_mcp.core.gbnf_compiler import _CONTRACT_FIELD_PATTERN
                ok_specs = [s for s in specs if not any(ch.isspace() and ord(ch) > 127 for ch in s)]
                res = run_driver("gbnf", [f"ctr {enc_str(s)}" for s in ok_specs])
                for s, r in zip(ok_specs, res):
                    ctx.count()
                    s2 = s.strip()
                    m = _CONTRACT_FIELD_PATTERN.match(s2)
                    if not m or not m.group(1).strip():
                        want = "INVALID"
                    else:
                        cs = m.group(2).strip()
                        want = "OK " + enc_str(m.group(1).strip()) + " " + (enc_str(cs) if cs else "~")
                    if r != want:
                        ctx.correspondence_failure({"spec": s, "impl": want, "model": r}, "CONTRACT field spec split differs from the model")
            iname = schema_m.name if schema_m is not None and isinstance(schema_m.name, str) else None
            for sname, fn in (("compile_gbnf_from_meta", compile_gbnf_from_meta), ("compile_document_grammar", compile_document_grammar)):
                try:
                    add(sname, fn(d.meta), case, fenc_m, True, q_m, iname)
                except Exception as e:
                    ctx.hist("compile_raised", type(e).__name__)
            if schema_m is not None:
                for env in (True, False):
                    try:
                        add(S_M % env, GBNFCompiler().compile_schema(schema_m, include_envelope=env), case, fenc_m, env, q_m, iname)
                    except Exception as e:
                        ctx.hist("compile_raised", type(e).__name__)
        # (3) the tools: META.CONTRACT present -> META route, else extractor route
        if d.meta and "CONTRACT" in d.meta:
            fenc_t, q_t = fenc_m, q_m
        else:
            fenc_t, q_t = fenc_x, q_x
        for sname, fn in (("octave_compile_grammar(content)", surf.compile_tool), ("octave_eject(format=gbnf)", surf.eject)):
            try:
                add(sname, fn(doc), case, fenc_t, True, q_t)
            except Exception as e:
                ctx.hist("tool_raised", type(e).__name__)
        if hint_name is not None:
            for hname, g in surf.hints(doc, hint_name).items():
                add(hname, g, case, fenc_x, True, q_x)
        return True

    def do_fields(name, fields, full):
        doc = fields_doc(name, fields)
        do_document(doc, {"route": "FIELDS", "document": doc}, name, name if full else None)

    def do_contract(tname, fields):
        doc = contract_doc(tname, fields)
        do_document(doc, {"route": "CONTRACT", "document": doc}, "D")

    def do_doc(env_name, type_src, contract_fields, fields, extra_meta=(), with_meta=True):
        doc = document_text(env_name, type_src, None if contract_fields is None else contract_specs_of(contract_fields), fields,
                            extra_meta, with_meta)
        return do_document(doc, {"route": "DOCUMENT", "document": doc, "envelope": env_name}, env_name)

    def do_api(sname, fields):
        """SchemaDefinition built by hand (any text as schema name / field name) -> compile_schema, both envelope modes."""
        from octave_mcp.core.constraints import ConstraintChain
        from octave_mcp.core.holographic import HolographicPattern
        from octave_mcp.core.schema_extractor import FieldDefinition, SchemaDefinition
        case = {"route": "API", "schema_name": sname, "fields": [[fn, list(ch)] for fn, ch in fields]}
        schema = SchemaDefinition(name=sname, version="1.0")
        for fn, ch in fields:
            try:
                cons = ConstraintChain.parse("∧".join(ch)) if ch else None
            except ValueError:
                ctx.hist("reader_refused", "ConstraintChain.parse")
                continue
            schema.fields[fn] = FieldDefinition(name=fn, pattern=HolographicPattern(example=None, constraints=cons, target=None),
                                                raw_value="∧".join(ch))
        enc = enc_fields(schema)
        ctx.hist("fields_in_schema", len(schema.fields))
        for env in (True, False):
            try:
                add(f"GBNFCompiler.compile_schema(env={env})", GBNFCompiler().compile_schema(schema, include_envelope=env), case, enc, env,
                    ("raw", sname))
            except Exception as e:
                ctx.hist("compile_raised", type(e).__name__)
        if not schema.fields:
            try:
                add("emit_grammar_for_schema", emit_grammar_for_schema(sname), case, "", True, ("raw", sname))
            except Exception as e:
                ctx.hist("compile_raised", type(e).__name__)

    TOOLS = {"octave_compile_grammar(content)", "octave_eject(format=gbnf)"}
    MUST_SURFACES = {
        "CONTRACT": {"compile_gbnf_from_meta", "compile_document_grammar", S_M % True, S_M % False, S_X % True, S_X % False} | TOOLS,
        "FIELDS": {S_X % True, S_X % False, "compile_gbnf_from_meta", "compile_document_grammar"} | TOOLS,
        "DOCUMENT": {S_X % True, S_X % False} | TOOLS,
        "API": {"GBNFCompiler.compile_schema(env=True)", "GBNFCompiler.compile_schema(env=False)"},
    }

    try:
        # ---- corpus: finding witnesses and minimised past failures first ----
        seen_wit = {}
        for fid, f in ctx.known.items():
            w = f["witness"]
            n0 = len(records)
            if w["route"] == "FIELDS":
                do_fields(w.get("schema_name", "S"), [tuple(x) for x in w["fields"]], False)
            else:
                do_contract(w.get("type", "T"), [tuple(x) for x in w["fields"]])
            seen_wit[fid] = (n0, len(records))
        cdir = os.path.join(os.path.dirname(__file__), "..", "..", "corpus", "C12")
        must = []          # (file, witness, first record, one past the last record): "expect": "wf" regressions
        if os.path.isdir(cdir):
            for fn in sorted(os.listdir(cdir)):
                if fn.endswith(".json"):
                    w = json.load(open(os.path.join(cdir, fn)))
                    n0 = len(records)
                    if w.get("route") == "FIELDS":
                        do_fields(w.get("schema_name", "S"), [tuple(x) for x in w["fields"]], False)
                    elif w.get("route") == "CONTRACT":
                        do_contract(w.get("type", "T"), [tuple(x) for x in w["fields"]])
                    elif w.get("route") == "API":
                        do_api(w.get("schema_name", "S"), [tuple(x) for x in w["fields"]])
                    elif w.get("route") == "DOCUMENT":
                        do_doc(w.get("envelope"), w.get("type"), None if w.get("contract") is None else [tuple(x) for x in w["contract"]],
                               None if w.get("fields") is None else [tuple(x) for x in w["fields"]],
                               [tuple(x) for x in w.get("extra_meta", [])], w.get("with_meta", True))
                    if w.get("expect") == "wf":
                        must.append((fn, w, n0, len(records)))
        # must-pass regressions (witnesses of findings fixed in /repo): every surface of the route returns a grammar, each
        # grammar is well-formed for the reference parser (independent of the Coq build), and the names are read back
        for fn, w, a, b in must:
            got = {r["surface"] for r in records[a:b]}
            want = set(MUST_SURFACES[w["route"]])
            if w["route"] == "DOCUMENT" and w.get("with_meta", True):
                want |= {"compile_gbnf_from_meta", "compile_document_grammar", S_M % True, S_M % False}
            missing = sorted(want - got)
            if missing:
                ctx.property_failure({"corpus": fn, "input": w, "surfaces_without_grammar": missing},
                                     "must-pass regression: no grammar returned by " + ", ".join(missing))
            for r in records[a:b]:
                code = RefParser(r["text"], False).parse()[0]
                ctx.hist("must_pass_regression", CODE_NAME[code])
                if code != 0:
                    ctx.property_failure({"corpus": fn, "surface": r["surface"], "input": r["case"], "grammar": r["text"]},
                                         f"must-pass regression ({w.get('fixed_in', 'fixed finding')}): grammar is not well-formed GBNF: "
                                         f"{CODE_NAME[code]}")
        # ---- every pool element alone ----
        for nm in CLEAN_NAMES + SAN_NAMES:
            do_fields("S", [(nm, ["REQ"])], False)
            do_contract("T", [(nm, ["REQ"])])
        for nm in CONTRACT_ONLY_NAMES:
            do_contract("T", [(nm, ["REQ"])])
        for p in REGEX_POOL:
            do_fields("S", [("NAME", ['REGEX["' + p + '"]'])], False)
            do_contract("T", [("NAME", ["REQ", 'REGEX["' + p + '"]'])])
        for tn in CONTRACT_TYPES:
            do_contract(tn, [("NAME", ["REQ"])])
            do_contract(tn, [])
        do_fields("S", [], False)
        do_contract("T", [])
        # ---- document route: every TYPE source x envelope / no envelope x CONTRACT / FIELDS / both / neither ----
        F1 = [("NAME", ["REQ"]), ("STATUS", ["OPT", "ENUM[A,B]"])]
        for ts in TYPE_SOURCES + [None]:
            for en in ("SESSION", None):
                do_doc(en, ts, None, F1)
                do_doc(en, ts, F1, None)
            do_doc(None, ts, F1[:1], F1[1:])
            do_doc(None, ts, None, None)
        for en in ENVELOPE_NAMES:
            do_doc(en, '"a\\"b\\\\c\\nd"', None, F1)
            do_doc(en, "T", F1, None)
        for k in EXTRA_META_KEYS:
            for en in ("SESSION", None):
                do_doc(en, "T", None, F1, [(k, '"x\\"y\\\\z\\nw"')])
        do_doc(None, None, None, F1, (), False)
        do_doc("S", None, None, F1, (), False)
        for nm in API_FIELD_NAMES:
            do_api("S", [(nm, ["REQ"])])
        for sn in API_SCHEMA_NAMES:
            do_api(sn, [("NAME", ["REQ"])])
            do_api(sn, [])
        # ---- packaged schemas, by name ----
        for nm in ("META", "SKILL", "TEST_HOLOGRAPHIC", "DEBATE_TRANSCRIPT", "NOPE"):
            try:
                from octave_mcp.schemas.loader import load_schema_by_name
                sd = load_schema_by_name(nm)
                add("octave_compile_grammar(schema)", surf.compile_tool_named(nm), {"route": "packaged", "schema": nm},
                    enc_fields(sd) if sd is not None else None, True, ("raw", sd.name) if sd is not None else None)
            except Exception as e:
                ctx.hist("tool_raised", type(e).__name__)
        # ---- generated schemas ----
        n = ctx.scale(260, 6000)
        for i in range(n):
            k = rng.choice([1, 1, 2, 2, 3, 4, 5])
            safe_only = rng.random() < 0.3
            pool = CLEAN_NAMES if safe_only else CLEAN_NAMES + SAN_NAMES + SAN_NAMES
            fields = [(rng.choice(pool), gen_chain(rng)) for _ in range(k)]
            ctx.hist("n_fields", k)
            for _, ch in fields:
                for m in ch:
                    ctx.hist("member_kind", m.split("[")[0])
            route = rng.random()
            if route < 0.25:
                do_fields(rng.choice(SCHEMA_NAMES), fields, full=(i % 6 == 0))
            elif route < 0.5:
                # schema DOCUMENT with every part optional and hostile text wherever the reader takes free text
                en = rng.choice([None, None, rng.choice(ENVELOPE_NAMES[:8]), rng.choice(ENVELOPE_NAMES)])
                ts = rng.choice([None] + TYPE_SOURCES + TYPE_SOURCES[4:])
                shape = rng.choice(["fields", "fields", "contract", "both", "neither"])
                extra = [(rng.choice(EXTRA_META_KEYS), rng.choice(TYPE_SOURCES[4:])) for _ in range(rng.choice([0, 0, 1, 2]))]
                cf = ff = None
                if shape in ("contract", "both"):
                    cf = list(fields)
                    if rng.random() < 0.3:
                        cf.append((rng.choice(CONTRACT_ONLY_NAMES), gen_chain(rng)))
                if shape in ("fields", "both"):
                    ff = list(fields) if shape == "fields" else [(rng.choice(CLEAN_NAMES), gen_chain(rng))]
                do_doc(en, ts, cf, ff, extra, with_meta=(rng.random() < 0.9 or cf is not None))
            elif route < 0.85:
                if rng.random() < 0.35:
                    fields.append((rng.choice(CONTRACT_ONLY_NAMES), gen_chain(rng)))
                do_contract(rng.choice(CONTRACT_TYPES), fields)
            else:
                # hand-built SchemaDefinition: names are arbitrary text (quotes, backslashes, blanks, line breaks)
                for _ in range(rng.choice([1, 1, 2])):
                    nm = rng.choice(API_FIELD_NAMES) if rng.random() < 0.6 else \
                        "".join(rng.choice('aZ9 "\\\t-.é') for _ in range(rng.randint(1, 6)))
                    fields.append((nm, [m for m in gen_chain(rng) if not m.startswith("REGEX")]))
                sn = rng.choice(API_SCHEMA_NAMES) if rng.random() < 0.7 else \
                    "".join(rng.choice('aZ9 "\\-.é\n\r\x0c\x85\u2028') for _ in range(rng.randint(0, 6)))
                do_api(sn, fields)
        n_texts = check_texts(ctx, have_model, records)
        ctx.extra["distinct_grammar_texts"] = n_texts
        # finding witnesses: still failing?
        fail_texts = None
        for fid, (a, b) in seen_wit.items():
            bad = False
            for r in records[a:b]:
                if RefParser(r["text"], False).parse()[0] != 0:
                    bad = True
            ctx.finding_witness(fid, bad)
        # ---- recogniser cross-check on mutated grammars (both transcriptions of llama.cpp's syntax) ----
        if have_model:
            base = sorted({r["text"] for r in records})
            muts = sorted({mutate(rng, rng.choice(base)) for _ in range(ctx.scale(3000, 60000))})
            ms = model_wf(muts, False)
            nbad = 0
            for t in muts:
                ctx.count()
                a = RefParser(t, False).parse()
                b = ms[t]
                if a[0] != b[0] or (a[0] != 1 and (a[1] != b[1] or sorted(a[2]) != sorted(b[2]))):
                    nbad += 1
                    if nbad <= 5:
                        ctx.correspondence_failure({"text": t, "ref": a, "model": b},
                                                   "extracted recogniser and reference llama.cpp transcription disagree on a mutated grammar")
                ctx.hist("mutant_wf_code", CODE_NAME[b[0]])
            ctx.extra["mutated_grammars_cross_checked"] = len(muts)
            # sanitiser / escape / regex fragments directly
            names = sorted(set(CLEAN_NAMES + SAN_NAMES + CONTRACT_ONLY_NAMES + ["".join(rng.choice("aZ9_.-/éİ \"") for _ in range(rng.randint(0, 8))) for _ in range(ctx.scale(500, 5000))]))
            comp = GBNFCompiler()
            res = run_driver("gbnf", [f"san {enc_str(x)} {enc_str(x.lower())}" for x in names])
            for x, r in zip(names, res):
                ctx.count()
                if dec_str(r) != comp._sanitize_rule_name(x):
                    ctx.correspondence_failure({"name": x, "impl": comp._sanitize_rule_name(x), "model": dec_str(r)}, "_sanitize_rule_name differs")
            strs = sorted({"".join(rng.choice('a"\\\\ \n\té[]') for _ in range(rng.randint(0, 7))) for _ in range(ctx.scale(500, 5000))})
            res = run_driver("gbnf", [f"esc {enc_str(x)}" for x in strs] + [f"lit {enc_str(chr(34) + comp._escape_literal(x) + chr(34) + ' r')}" for x in strs])
            for i, x in enumerate(strs):
                ctx.count()
                if dec_str(res[i]) != comp._escape_literal(x):
                    ctx.correspondence_failure({"s": x}, "_escape_literal differs")
                if res[len(strs) + i] != enc_str(x) + " " + enc_str(" r"):
                    ctx.correspondence_failure({"s": x, "model": res[len(strs) + i]}, "escaped literal is not re-read as the original by the literal scanner")
            ols = sorted(set(API_SCHEMA_NAMES + ["".join(rng.choice("ab \n\r\x0b\x0c\x1c\x1d\x1e\x85\u2028\u2029\t\x1f\u2027") for _ in range(rng.randint(0, 8)))
                                                 for _ in range(ctx.scale(800, 8000))]))
            res = run_driver("gbnf", [f"oneline {enc_str(x)}" for x in ols])
            for x, r in zip(ols, res):
                ctx.count()
                if dec_str(r) != " ".join(x.splitlines()):
                    ctx.correspondence_failure({"s": x, "impl": " ".join(x.splitlines()), "model": dec_str(r)},
                                               "' '.join(s.splitlines()) differs from the model's one_line")
            from octave_mcp.core.constraints import RegexConstraint
            pats = sorted(set([p.replace("\\\\", "\\") for p in REGEX_POOL] + ["".join(rng.choice("ab.[]^$+*?(|)\\d-{}, \n") for _ in range(rng.randint(0, 7))) for _ in range(ctx.scale(800, 8000))]))
            ok_p = []
            for p in pats:
                try:
                    ok_p.append((p, comp._compile_regex(RegexConstraint(pattern=p))))
                except ValueError:
                    pass
            res = run_driver("gbnf", [f"regex {enc_str(p)}" for p, _ in ok_p])
            for (p, want), r in zip(ok_p, res):
                ctx.count()
                if dec_str(r) != want:
                    ctx.correspondence_failure({"pattern": p, "impl": want, "model": dec_str(r)}, "_compile_regex differs")
        for r in records[:3] + records[len(records) // 2: len(records) // 2 + 3]:
            ctx.sample({"surface": r["surface"], "input": r["case"], "grammar": r["text"][:600]})
        ctx.trusted_base.append("Gbnf/Syntax.v gbnf_step: transcription from memory of llama.cpp llama_grammar_parser (no network); "
                                "cross-checked each run against an independent recursive-descent transcription (props/c12.py RefParser)")
        ctx.assumptions += [
            "llama.cpp's grammar syntax is as transcribed in Gbnf/Syntax.v (rule names [a-zA-Z0-9-]+; a duplicate definition is counted as ill-formed although llama.cpp overwrites silently)",
            "str.lower()/str.upper() of non-ASCII names and str(const_value) are supplied to the model by the harness (oracle inputs)",
        ]
    finally:
        surf.close()
