"""C13 -- what a compiled grammar can generate, the validator accepts.

For every compiled field rule of generated schemas whose chain is decided by CONST, ENUM, TYPE[BOOLEAN],
TYPE[NUMBER], DATE or ISO8601 (optionally with REQ/OPT):
  * the value fragment is taken FROM THE IMPLEMENTATION'S grammar text and its derivations are enumerated by the
    extracted enumerator (Gbnf/Derive.v; exhaustive for CONST/ENUM/BOOLEAN, length-bounded for NUMBER, class-sampled
    for DATE/ISO8601) plus boundary/random samples that an independent Python interpretation of the fragment
    (frag_to_regex) confirms to be derivable;
  * each text w is read with octave_mcp.parse("F::"+w) and judged by the field's own ConstraintChain.evaluate;
  * the extracted model (Gbnf/Read.v on top of the shared lexer model) predicts value and verdict: compared;
  * a derivable text that is not read or not accepted is a property failure, attributed to a listed finding
    only when the model's clause for that kind predicts the rejection.
"""
from __future__ import annotations

import re
import unicodedata

from lib import lexcorr
from lib.model import dec_str, enc_str, run_driver
from props import c12

LEVEL = "proof"
DRIVERS = ["gbnf"]

CONST_POOL = ["X", "DONE", "42", "-7", "0", "1.5", "-0.25", "1e10", "true", "false", "null", '"a b"', '"true"', '"42"',
              "v1", "été", "A_B", "a.b", "x-y", '"x y z"', "1.2.3", "007", '"DONE"', "Done9"]
ENUM_POOL = [["A", "B"], ["ACTIVE", "PAUSED", "COMPLETE"], ["ACT", "ACTIVE"], ['"a b"', "c"], ["1", "2", "10"],
             ["true", "no"], ['"true"', '"false"'], ["LOW"], ["été", "hiver"], ["1.5", "2.5"], ["null", "x"],
             ["v1", "v2"], ["007", "8"], ["A", "AB", "ABC"]]
# COMPATIBILITY characters: NFKC changes them, NFC (what the reader applies) does not -- micro sign, superscript two,
# trade mark, ligature fi, full-width A, circled one, black-letter H, Roman numeral, dz digraph, double-struck N -- plus the
# angstrom / ohm / kelvin signs, which NFC itself replaces.  Bare and quoted, alone and inside a word.
COMPAT_CHARS = ["\u00b5", "\u00b2", "\u2122", "\ufb01", "\uff21", "\u2460", "\u210c", "\u2163", "\u01c5", "\u2115", "\u212b", "\u2126",
                "\u212a", "\u1e9b", "\u02b0", "\u00aa", "\u3392"]
COMPAT_VALUES = [c + "m" for c in COMPAT_CHARS[:6]] + ['"' + c + '"' for c in COMPAT_CHARS] + \
                ['"m' + c + ' x"' for c in COMPAT_CHARS[:8]] + ["\ufb01n", "x\u00b5", "\uff21\uff22", "\u00b5\u00b5", "K\u212a"]
CONST_POOL += COMPAT_VALUES
ENUM_POOL += [[COMPAT_VALUES[i], COMPAT_VALUES[(i * 7 + 3) % len(COMPAT_VALUES)]] for i in range(0, len(COMPAT_VALUES), 2)] + \
             [["\u00b5", "\u03bc"], ['"\u00b5m"', '"\u03bcm"', "x"], ["\uff21", "A"], ['"\ufb01"', '"fi"'], ["\u212a", "K"]]


def _prefix_families():
    """ENUM member lists whose members are prefixes of one another, in EVERY order of every sub-family: the short member
    first / in the middle / last, with 1-3 longer members; members equal up to case; numbers whose str() are prefixes."""
    import itertools
    fams = [["PENDING", "PENDING_REVIEW", "PENDING_DEPLOY", "PENDING_REVIEW_2"], ["A", "AB", "ABC", "ABD"], ["a", "ab", "A", "AB"],
            ["x", "x-y", "x-y-z"], ["DONE", "DONE9", "DONE99"], ["1", "10", "100", "11"], ["1", "1.5", "1.55", "15"],
            ["-1", "-10", "-1.5"], ["0", "00", "007"], ['"a"', '"a b"', '"a b c"'], ["v1", "v1.2", "v1.2.3"], ["\u00e9", "\u00e9t\u00e9", "\u00e9t\u00e9s"],
            ['"1"', '"10"', '"100"'], ["t", "tr", "true"], ["pending", "PENDING", "Pending", "PENDING_X"]]
    out = []
    for fam in fams:
        for k in (2, 3, 4):
            for sub in itertools.combinations(fam, k):
                if not any(a != b and b.strip('"').startswith(a.strip('"')) for a in sub for b in sub):
                    continue
                for perm in itertools.permutations(sub):
                    out.append(list(perm))
    return out


PREFIX_ENUMS = _prefix_families()
KINDS = ["CONST", "ENUM", "BOOLEAN", "NUMBER", "DATE", "ISO8601"]
NAMES = c12.CLEAN_NAMES + ["A.B", "MY_FIELD", "A-B", "Ünï", "CONTENT", "WS", "名前", "x/y", "\u00b5", "\ufb01eld", "\uff21\uff22", "K\u212a", "m\u00b2"]
# META.CONTRACT only: FIELD["q r"] keeps its quotes in the field name -- double quotes, backslashes, blanks and a tab inside
# the (escaped, repo 481c8b3) name literal of the rule the value fragment is taken from.  No line break: take() cuts lines.
QUOTED_NAMES = [n for n in c12.CONTRACT_ONLY_NAMES if n.startswith('"') and "\\n" not in n]

FINDING = {"DATE": "C13-date-misread", "ISO8601": "C13-iso8601-misread", "NUMBER": "C13-number-int-limit",
           "CONST": "C13-const-text-unsafe", "ENUM": "C13-enum-text-unsafe"}


def gen_kind_member(rng, kind):
    if kind == "CONST":
        return f"CONST[{rng.choice(CONST_POOL)}]"
    if kind == "ENUM":
        return "ENUM[" + ",".join(rng.choice(PREFIX_ENUMS) if rng.random() < 0.35 else rng.choice(ENUM_POOL)) + "]"
    if kind == "BOOLEAN":
        return "TYPE[BOOLEAN]"
    if kind == "NUMBER":
        return "TYPE[NUMBER]"
    return kind


def wrap(rng, member):
    k = rng.randrange(4)
    return [[member], ["REQ", member], ["OPT", member], [member, "REQ"]][k]


def frag_to_regex(frag):
    """Independent reading of a reference-free GBNF fragment as a Python regex (literals, classes, groups, | * + ?)."""
    out = []
    i = 0
    while i < len(frag):
        c = frag[i]
        if c == '"':
            j = i + 1
            lit = []
            while frag[j] != '"':
                if frag[j] == "\\":
                    lit.append({"n": "\n", "t": "\t", "r": "\r"}.get(frag[j + 1], frag[j + 1]))
                    j += 2
                else:
                    lit.append(frag[j])
                    j += 1
            out.append("(?:" + re.escape("".join(lit)) + ")")
            i = j + 1
        elif c == "[":
            j = i + 1
            while frag[j] != "]":
                j += 2 if frag[j] == "\\" else 1
            out.append(frag[i:j + 1])
            i = j + 1
        elif c in "()|*+?":
            out.append("(?:" if c == "(" else c)
            i += 1
        elif c in " \t":
            i += 1
        else:
            raise ValueError("fragment outside the C13 kinds: " + frag)
    return re.compile("".join(out), re.S)


def kind_of_chain(chain):
    """Most specific member as compile_chain picks it -> kind name, or None when outside C13."""
    from octave_mcp.core import constraints as C
    cs = chain.constraints
    others = [c for c in cs if not isinstance(c, (C.RequiredConstraint, C.OptionalConstraint))]
    if len(others) != 1:
        return None
    c = others[0]
    if isinstance(c, C.ConstConstraint):
        return "CONST"
    if isinstance(c, C.EnumConstraint):
        return "ENUM"
    if isinstance(c, C.TypeConstraint) and c.expected_type == "BOOLEAN":
        return "BOOLEAN"
    if isinstance(c, C.TypeConstraint) and c.expected_type == "NUMBER":
        return "NUMBER"
    if isinstance(c, C.DateConstraint):
        return "DATE"
    if isinstance(c, C.Iso8601Constraint):
        return "ISO8601"
    return None


def enc_chain(chain):
    from octave_mcp.core import constraints as C
    out = []
    for c in chain.constraints:
        if isinstance(c, C.RequiredConstraint):
            out.append("R")
        elif isinstance(c, C.OptionalConstraint):
            out.append("O")
        elif isinstance(c, C.TypeConstraint):
            out.append("TB" if c.expected_type == "BOOLEAN" else "TN")
        elif isinstance(c, C.DateConstraint):
            out.append("DT")
        elif isinstance(c, C.Iso8601Constraint):
            out.append("ISO")
        elif isinstance(c, C.EnumConstraint):
            out.append("E:" + ("/".join(enc_str(v) for v in c.allowed_values) or "~"))
        elif isinstance(c, C.ConstConstraint):
            v = c.const_value
            if isinstance(v, bool):
                out.append("CB:" + ("1" if v else "0"))
            elif v is None:
                out.append("CZ")
            elif isinstance(v, int):
                out.append("CI:" + enc_str(str(v)))
            elif isinstance(v, float):
                out.append("CF:" + enc_str(repr(v)))
            else:
                out.append("CS:" + enc_str(str(v)))
    return ",".join(out)


def own_texts(cenc):
    """The texts a CONST / ENUM member of the chain stands for: str(constant) / the allowed values.  A derived text outside
    this set was put into the grammar by the compiler, not by the schema: no CONST / ENUM finding can excuse it."""
    out = set()
    for m in cenc.split(","):
        if m.startswith("E:"):
            out |= {dec_str(x) for x in m[2:].split("/")} if m[2:] != "~" else set()
        elif m[:3] in ("CS:", "CI:", "CF:"):
            out.add(dec_str(m[3:]))
        elif m.startswith("CB:"):
            out.add("True" if m[3:] == "1" else "False")
        elif m == "CZ":
            out.add("None")
    return out


def cls_tok(w):
    chars = sorted({c for c in w if ord(c) >= 128})
    return ",".join(f"{ord(c)}:{lexcorr.cls_flags(c)}" for c in chars) or "-"


def impl_read(w, cache={}):
    """-> canonical value tag of octave_mcp.parse('F::'+w), and the Python value."""
    if w in cache:
        return cache[w]
    from octave_mcp.core.parser import parse
    try:
        d = parse("F::" + w)
        s = d.sections
        if len(s) >= 1 and type(s[0]).__name__ == "Assignment" and s[0].key == "F":
            r = ("OK", s[0].value)
        else:
            r = ("SHAPE", None)
    except Exception as e:  # noqa
        r = ("EXC:" + type(e).__name__, None)
    if len(cache) < 400000:
        cache[w] = r
    return r


def same_value(tag, m):
    """implementation (status, value) vs model rendering (I.. F.. B1 Z S.. ERR)."""
    st, v = tag
    if m == "ERR":
        return st.startswith("EXC")
    if st != "OK":
        return False
    if m.startswith("I"):
        return type(v) is int and v == int(dec_str(m[1:]))
    if m.startswith("F"):
        return type(v) is float and repr(v) == repr(float(dec_str(m[1:])))
    if m in ("B1", "B0"):
        return v is (m == "B1")
    if m == "Z":
        return v is None
    if m.startswith("S"):
        return type(v) is str and v == dec_str(m[1:])
    return False


def boundary_words(kind, rng, n_rand):
    if kind == "NUMBER":
        ws = ["0", "-0", "007", "00", "1.50", "-0.5", "0.0", "12345678901234567890", "9" * 400, "9" * 400 + ".5",
              "1" + "0" * 4299, "9" * 4300, "9" * 4301, "-" + "9" * 4301, "0" * 4301, "9" * 5000 + ".5", "1." + "0" * 5000,
              "3.14159", "-273.15", "100", "2024"]
        for _ in range(n_rand):
            a = "".join(rng.choice("0123456789") for _ in range(rng.randint(1, 25)))
            w = ("-" if rng.random() < 0.3 else "") + a
            if rng.random() < 0.4:
                w += "." + "".join(rng.choice("0123456789") for _ in range(rng.randint(1, 12)))
            ws.append(w)
        return ws
    if kind == "DATE":
        ws = ["2024-01-15", "2024-02-29", "2023-02-29", "1999-12-31", "0000-00-00", "9999-99-99", "2024-13-01", "0001-01-01"]
        for _ in range(n_rand):
            ws.append("%04d-%02d-%02d" % (rng.randint(0, 9999), rng.randint(0, 99), rng.randint(0, 99)))
        return ws
    if kind == "ISO8601":
        ws = ["2024-01-15", "2024-01-15T10:00:00", "2024-01-15T10:00:00Z", "2024-01-15T10:00:00+01:00",
              "2024-01-15T23:59:59-11:30", "0000-00-00T00:00:00Z", "9999-99-99T99:99:99+99:99"]
        for _ in range(n_rand):
            w = "%04d-%02d-%02d" % (rng.randint(0, 9999), rng.randint(1, 12), rng.randint(1, 28))
            if rng.random() < 0.8:
                w += "T%02d:%02d:%02d" % (rng.randint(0, 23), rng.randint(0, 59), rng.randint(0, 59))
                r = rng.random()
                if r < 0.3:
                    w += "Z"
                elif r < 0.7:
                    w += rng.choice("+-") + "%02d:%02d" % (rng.randint(0, 14), rng.choice([0, 30, 45]))
            ws.append(w)
        return ws
    return []


def run(ctx):
    from octave_mcp.core.gbnf_compiler import GBNFCompiler, compile_gbnf_from_meta
    from octave_mcp.core.parser import parse
    from octave_mcp.core.schema_extractor import extract_schema_from_document
    have_model = ctx.build_status["drivers"].get("gbnf", False)
    rng = ctx.rng
    num_bound = ctx.scale(3, 5)
    ctx.extra["rule"] = (
        "schemas as in C12 restricted to chains [K], [REQ,K], [OPT,K], [K,REQ] with K in CONST (pool of %d constants), ENUM "
        "(pool of %d lists), TYPE[BOOLEAN], TYPE[NUMBER], DATE, ISO8601; FIELDS and META.CONTRACT routes; for each compiled field "
        "rule the derivations of its value fragment (taken from the implementation's grammar text): exhaustive for CONST/ENUM/"
        "BOOLEAN; NUMBER all words of length <= %d plus boundary/random samples (incl. 4300/4301-digit integers); DATE digits "
        "{0,9} exhaustively (256) plus calendar boundary and random samples; ISO8601 all optional-group shapes plus boundary and "
        "random samples. distinct/non-trivial = distinct (chain, derived text)" % (len(CONST_POOL), len(ENUM_POOL), num_bound))
    rules = []   # (case, kind, chain obj, rule line)

    def take(schema, text, case):
        lines = text.split("\n")
        flines = lines[4:4 + len(schema.fields)]
        for (fname, fd), line in zip(schema.fields.items(), flines):
            if not (fd.pattern and fd.pattern.constraints):
                continue
            kind = kind_of_chain(fd.pattern.constraints)
            if kind is None:
                continue
            rules.append((dict(case, field=fname), kind, fd.pattern.constraints, line))

    def do(route, fields, tname="T"):
        if route == "FIELDS":
            doc = c12.fields_doc("S", fields)
        else:
            doc = c12.contract_doc(tname, fields)
        case = {"route": route, "document": doc}
        try:
            d = parse(doc)
        except Exception as e:  # noqa
            ctx.hist("reader_refused", type(e).__name__)
            return
        try:
            if route == "FIELDS":
                schema = extract_schema_from_document(d)
                text = GBNFCompiler().compile_schema(schema, include_envelope=True)
            else:
                if not (d.meta and "CONTRACT" in d.meta):
                    return
                schema, _ = c12.schema_from_meta(d.meta)
                text = compile_gbnf_from_meta(d.meta)
        except Exception as e:  # noqa
            ctx.hist("compile_raised", type(e).__name__)
            return
        take(schema, text, case)

    # corpus: finding witnesses first
    wit_ranges = {}
    for fid, f in ctx.known.items():
        w = f["witness"]
        n0 = len(rules)
        do(w["route"], [tuple(x) for x in w["fields"]])
        wit_ranges[fid] = (n0, len(rules), w.get("text"))
    import json
    import os
    cdir = os.path.join(os.path.dirname(__file__), "..", "..", "corpus", "C13")
    if os.path.isdir(cdir):
        for fn in sorted(os.listdir(cdir)):
            if fn.endswith(".json"):
                w = json.load(open(os.path.join(cdir, fn)))
                do(w["route"], [tuple(x) for x in w["fields"]])
    for c in CONST_POOL:
        do("FIELDS", [("K", [f"CONST[{c}]"])])
        do("CONTRACT", [("K", ["REQ", f"CONST[{c}]"])])
    for e in PREFIX_ENUMS:
        do("FIELDS" if len(e) % 2 else "CONTRACT", [("K", ["REQ", "ENUM[" + ",".join(e) + "]"])])
    for e in ENUM_POOL:
        do("FIELDS", [("K", ["REQ", "ENUM[" + ",".join(e) + "]"])])
        do("CONTRACT", [("K", ["ENUM[" + ",".join(e) + "]"])])
    for k in ("BOOLEAN", "NUMBER", "DATE", "ISO8601"):
        for ch in (lambda m: [m], lambda m: ["REQ", m], lambda m: ["OPT", m], lambda m: [m, "REQ"]):
            do("FIELDS", [("K", ch(gen_kind_member(rng, k)))])
            do("CONTRACT", [("K", ch(gen_kind_member(rng, k)))])
    for qn in QUOTED_NAMES:
        for k in KINDS:
            do("CONTRACT", [(qn, ["REQ", gen_kind_member(rng, k)])])
    for tn in ('"a\\"b\\\\c"', '"My Type"'):
        do("CONTRACT", [('"q r"', ["CONST[X]"]), ("K", ["TYPE[BOOLEAN]"])], tn)
    for _ in range(ctx.scale(150, 3000)):
        n = rng.choice([1, 2, 3, 4])
        fields = [(rng.choice(NAMES), wrap(rng, gen_kind_member(rng, rng.choice(KINDS)))) for _ in range(n)]
        route = rng.choice(["FIELDS", "CONTRACT"])
        if route == "CONTRACT" and rng.random() < 0.3:
            fields.append((rng.choice(QUOTED_NAMES), wrap(rng, gen_kind_member(rng, rng.choice(KINDS)))))
            ctx.hist("quoted_field_name", 1)
        do(route, fields)
    ctx.extra["compiled_field_rules"] = len(rules)
    # ---- derivations from the implementation's grammar text ----
    words_of = {}
    frag_of = {}
    uniq_lines = sorted({(kind, line) for _, kind, _, line in rules})
    if have_model:
        cmds = []
        for kind, line in uniq_lines:
            if kind == "NUMBER":
                cmds.append(f"derive {num_bound} 10 {enc_str(line)}")
            elif kind == "DATE":
                cmds.append(f"derive 10 2 {enc_str(line)}")
            elif kind == "ISO8601":
                cmds.append(f"derive 25 1 {enc_str(line)}")
            else:
                cmds.append(f"derive 400 10 {enc_str(line)}")
        res = run_driver("gbnf", cmds)
        for (kind, line), r in zip(uniq_lines, res):
            if r == "NONE":
                ctx.correspondence_failure({"rule": line}, "field rule of the implementation's grammar is not of the form NAME ::= \"F\" \"::\" ws <fragment>")
                words_of[(kind, line)] = ([], False)
                continue
            flag, _, body = r.partition(" ")
            ws = [dec_str(x) for x in body.split(";")] if body else []
            words_of[(kind, line)] = (ws, flag == "C")
    n_eval = 0
    pending = []     # (case, kind, chain, w, impl_ok, impl_tag, what)
    done_frag = set()
    for case, kind, chain, line in rules:
        frag = line.split('"::" ws ', 1)[1] if '"::" ws ' in line else None
        # reading and judging do not depend on the field name: one evaluation per distinct (chain, fragment)
        if (enc_chain(chain), frag) in done_frag:
            ctx.hist("duplicate_rule_skipped", kind)
            continue
        done_frag.add((enc_chain(chain), frag))
        try:
            rx = frag_to_regex(frag)
        except Exception:  # noqa
            rx = None
        ws, complete = words_of.get((kind, line), ([], False))
        ws = list(ws)
        if not have_model and kind in ("CONST", "ENUM", "BOOLEAN") and rx is not None:
            # model unavailable: literal alternatives read directly from the fragment
            ws = [bytes(m, "utf-8").decode("unicode_escape").encode("latin-1").decode("utf-8") if False else m
                  for m in re.findall(r'"((?:[^"\\]|\\.)*)"', frag)]
            ws = [w.replace('\\"', '"').replace("\\\\", "\\") for w in ws]
        if kind in ("CONST", "ENUM", "BOOLEAN") and have_model and not complete:
            ctx.correspondence_failure({"rule": line}, "fragment of an exhaustive kind is not enumerable")
        extra = boundary_words(kind, rng, ctx.scale(25, 300))
        for w in extra:
            if rx is not None and rx.fullmatch(w):
                ws.append(w)
            else:
                ctx.hist("boundary_not_derivable", kind)
        if rx is not None:
            for w in ws[:50]:
                if not rx.fullmatch(w):
                    ctx.correspondence_failure({"rule": line, "word": w}, "enumerated word is not matched by the independent reading of the fragment")
        cenc = enc_chain(chain)
        ctx.hist("kind", kind)
        ctx.hist("words_per_rule", min(len(ws), 5000) // 100 * 100)
        for w in ws:
            n_eval += 1
            tag = impl_read(w)
            ok = False
            what = None
            if tag[0] != "OK":
                what = f"derivable value is not read: {tag[0]}"
            else:
                try:
                    res = chain.evaluate(tag[1], "F")
                    ok = bool(res.valid)
                    if not ok:
                        what = "derivable value is rejected by the field's own chain: " + ",".join(e.code for e in res.errors)
                except Exception as e:  # noqa
                    what = f"chain.evaluate raised {type(e).__name__}"
            ctx.nontrivial((cenc, w))
            pending.append((case, kind, cenc, w, ok, tag, what))
    ctx.count(n_eval)
    # ---- model predictions (one batch over distinct (chain, word)) ----
    pred = {}
    if have_model:
        keys = sorted({(cenc, w) for _, _, cenc, w, _, _, _ in pending
                       if unicodedata.normalize("NFC", w) == w and lexcorr.in_model(w) and "\n" not in w})
        res = run_driver("gbnf", [f"accept {cenc} {cls_tok(w)} {enc_str(w)}" for cenc, w in keys])
        for k, r in zip(keys, res):
            v, _, val = r.partition(" ")
            pred[k] = (v, val)
    seen_fail = {}
    for case, kind, cenc, w, ok, tag, what in pending:
        p = pred.get((cenc, w))
        if p is not None:
            v, val = p
            if val != "OUT":
                ctx.hist("model_value_kind", val[0] if val != "ERR" else "ERR")
                if not same_value(tag, val):
                    ctx.correspondence_failure({"text": w if len(w) < 200 else w[:60] + f"...({len(w)})", "impl": [tag[0], repr(tag[1])[:80]], "model": val[:200]},
                                               "value read from F::w differs from the reader model")
            else:
                ctx.hist("model_value_kind", "OUT")
            if v in "01" and (v == "1") != ok:
                ctx.correspondence_failure({"chain": cenc, "text": w[:200], "impl_accepts": ok, "model_accepts": v == "1"},
                                           "chain verdict differs from the constraint model")
        if ok:
            continue
        fid = None
        if p is not None and p[0] == "0":
            if kind in ("DATE", "ISO8601"):
                fid = FINDING[kind]
            elif kind in ("CONST", "ENUM") and w in own_texts(cenc):
                # the grammar shows the constant's / member's own text and the READER types it differently
                fid = FINDING[kind]
            elif kind == "NUMBER" and p[1] == "ERR":
                fid = FINDING["NUMBER"]
        ctx.hist("failure", fid or "unattributed")
        wshow = w if len(w) < 300 else w[:40] + f"...({len(w)} chars)"
        ctx.property_failure(dict(case, chain=cenc, derived_text=wshow, full_length=len(w), read=[tag[0], repr(tag[1])[:100]]),
                             f"{kind}: {what}", finding=fid)
    # finding witnesses
    for fid, (a, b, text) in wit_ranges.items():
        bad = False
        for case, kind, chain, line in rules[a:b]:
            cands = [text] if text else []
            if text == "9*4301":
                cands = ["9" * 4301]
            for w in cands:
                tag = impl_read(w)
                if tag[0] != "OK":
                    bad = True
                else:
                    try:
                        bad = bad or not chain.evaluate(tag[1], "F").valid
                    except Exception:  # noqa
                        bad = True
        ctx.finding_witness(fid, bad)
    for case, kind, cenc, w, ok, tag, what in pending[:: max(1, len(pending) // 10)][:10]:
        ctx.sample({"kind": kind, "chain": cenc, "derived_text": w[:80], "read": [tag[0], repr(tag[1])[:60]], "accepted": ok})
    ctx.assumptions += [
        "float(repr(x)) == x for finite Python floats (CONST with a float constant: the model compares lexemes)",
        "datetime.fromisoformat rejects every string whose character at index 4 is a space (used only to predict rejections; every prediction is compared with the implementation)",
        "Python refuses int() of more than 4300 digits (sys.get_int_max_str_digits default); the bound is a constant of the reader model",
    ]
    ctx.trusted_base.append("Gbnf/Read.v read_tokens: small model of Parser.parse_value on one value line, tied by this correspondence run")
