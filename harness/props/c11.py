"""C11 -- schema repair changes only what it may, and logs every change.

Three layers per generated case:
  (K) correspondence: extracted Coq model (build/bin/rep) vs repair(), octave_validate(fix), octave_write(lenient,
      schema) + written file, `octave validate --fix`, compared as canonical token strings (AST + log entries);
  (P) the property text evaluated directly on the implementation's results (independent of the model);
  (F) the committed finding witnesses replayed.
int()/float() results are an ORACLE table computed with the real Python and handed to the model.
"""
from __future__ import annotations

import asyncio
import copy
import decimal
import json
import math
import os
import shutil
import tempfile
from functools import lru_cache

from lib.model import enc_str, run_driver

LEVEL = "proof"
DRIVERS = ["rep"]
COQ_TARGETS = ["theories/Rep/Pins_Repair.vo"]

RULES = ("ENUM_CASEFOLD", "TYPE_COERCION")

# ------------------------------------------------------------------------------------------------
# self-test mutations (never active in a normal run): VERIF_SELFTEST_MUTATION=<name> monkeypatches the
# implementation IN THIS PROCESS ONLY so that one can see the check fail without editing /repo
# ------------------------------------------------------------------------------------------------
def _apply_selftest_mutation(name):
    import octave_mcp.core.repair as R
    from octave_mcp.core.repair_log import RepairTier
    if name == "enum_first_match":          # ambiguous enum: take the first case-insensitive match
        def f(value, constraint, repair_log):
            if not isinstance(value, str) or value in constraint.allowed_values:
                return value, False
            m = [v for v in constraint.allowed_values if v.lower() == value.lower()]
            if not m:
                return value, False
            repair_log.add(rule_id="ENUM_CASEFOLD", before=value, after=m[0], tier=RepairTier.REPAIR)
            return m[0], True
        R._attempt_enum_casefold = f
    elif name == "enum_prefix":             # replace by unique prefix match
        orig = R._attempt_enum_casefold
        def f(value, constraint, repair_log):
            v, d = orig(value, constraint, repair_log)
            if d or not isinstance(value, str) or value in constraint.allowed_values:
                return v, d
            m = [a for a in constraint.allowed_values if a.startswith(value)]
            if len(m) == 1:
                repair_log.add(rule_id="ENUM_CASEFOLD", before=value, after=m[0], tier=RepairTier.REPAIR)
                return m[0], True
            return v, d
        R._attempt_enum_casefold = f
    elif name == "no_log":                  # change without logging
        orig = R._attempt_type_coercion
        def f(value, constraint, repair_log):
            from octave_mcp.core.repair_log import RepairLog
            return orig(value, constraint, RepairLog(repairs=[]))
        R._attempt_type_coercion = f
    elif name == "no_finite_guard":
        R.math = type("M", (), {"isfinite": staticmethod(lambda x: True)})
    elif name == "no_underflow_guard":      # the state before 80b6126: a literal that float() reads as zero is coerced
        orig = R._attempt_type_coercion
        def f(value, constraint, repair_log):
            v, d = orig(value, constraint, repair_log)
            if not d and isinstance(value, str) and constraint.expected_type == "NUMBER":
                try:
                    x = float(value.strip())
                except (ValueError, OverflowError):
                    return v, d
                if x == 0 and ("." in value or "e" in value.lower()):
                    repair_log.add(rule_id="TYPE_COERCION", before=value, after=str(x), tier=RepairTier.REPAIR)
                    return x, True
            return v, d
        R._attempt_type_coercion = f
    elif name == "fill_none":
        orig = R.repair_value
        def f(value, field_def, repair_log, fix=False):
            if value is None and fix and field_def is not None and field_def.pattern is not None:
                return field_def.pattern.example, True
            return orig(value, field_def, repair_log, fix)
        R.repair_value = f
    elif name == "wrong_tier":
        orig = R._attempt_enum_casefold
        def f(value, constraint, repair_log):
            v, d = orig(value, constraint, repair_log)
            if d:
                repair_log.repairs[-1].tier = RepairTier.NORMALIZATION
            return v, d
        R._attempt_enum_casefold = f
    elif name == "fix_off_repairs":
        orig = R.repair
        R.repair = lambda doc, errs, fix=False, schema=None: orig(doc, errs, True, schema)
        import octave_mcp.mcp.validate as V
        V.repair = R.repair
    else:
        raise RuntimeError(f"unknown self-test mutation {name}")


# ------------------------------------------------------------------------------------------------
# canonical token form of AST / schema (same grammar as ocaml/rep_main.ml)
# ------------------------------------------------------------------------------------------------
def _imports():
    from octave_mcp.core import ast_nodes as A
    return A


def tok_ostr(s):
    return "~" if s is None else enc_str(s)


def tok_value(v):
    A = _imports()
    if v is None:
        return "z"
    if isinstance(v, bool):
        return "b1" if v else "b0"
    if isinstance(v, int):
        return "i" + str(v)
    if isinstance(v, float):
        return "f" + enc_str(repr(v))
    if isinstance(v, str):
        return "s" + enc_str(v)
    if isinstance(v, A.ListValue):
        return " ".join([f"L {len(v.items)}"] + [tok_value(x) for x in v.items])
    if isinstance(v, A.InlineMap):
        return " ".join([f"M {len(v.pairs)}"] + [enc_str(k) + " " + tok_value(x) for k, x in v.pairs.items()])
    if isinstance(v, A.LiteralZoneValue):
        return f"Z {enc_str(v.content)} {tok_ostr(v.info_tag)} {enc_str(v.fence_marker)}"
    if isinstance(v, A.HolographicValue):
        return "H " + enc_str(v.raw_pattern)
    raise OutOfModel(f"value kind {type(v).__name__}")


class OutOfModel(Exception):
    pass


def tok_node(n):
    A = _imports()
    if isinstance(n, A.Assignment):
        return f"A {enc_str(n.key)} {tok_value(n.value)}"
    if isinstance(n, A.Block):
        return " ".join([f"B {enc_str(n.key)} {tok_ostr(n.target)} {len(n.children)}"] + [tok_node(c) for c in n.children])
    if isinstance(n, A.Section):
        return " ".join([f"S {enc_str(n.section_id)} {enc_str(n.key)} {tok_ostr(n.annotation)} {len(n.children)}"]
                        + [tok_node(c) for c in n.children])
    if isinstance(n, A.Comment):
        return "C " + enc_str(n.text)
    raise OutOfModel(f"node kind {type(n).__name__}")


def tok_doc(nodes):
    return " ".join([f"D {len(nodes)}"] + [tok_node(n) for n in nodes])


def tok_schema(schema):
    """Model view of a real SchemaDefinition (what repair_value inspects)."""
    from octave_mcp.core.constraints import EnumConstraint, TypeConstraint
    if schema is None:
        return "S0"
    out = [f"S {len(schema.fields)}"]
    for k, fd in schema.fields.items():
        out.append(enc_str(k))
        if fd.pattern is None:
            out.append("p")
        elif fd.pattern.constraints is None:
            out.append("c")
        else:
            cs = fd.pattern.constraints.constraints
            out.append(f"F {len(cs)}")
            for c in cs:
                if isinstance(c, EnumConstraint):
                    out.append(" ".join([f"E {len(c.allowed_values)}"] + [enc_str(a) for a in c.allowed_values]))
                elif isinstance(c, TypeConstraint):
                    out.append("T " + enc_str(c.expected_type))
                else:
                    out.append("X")
    return " ".join(out)


def py_strip_candidates(nodes, schema):
    """Every text the model may ask the number oracle about: stripped assignment strings and enum members."""
    A = _imports()
    from octave_mcp.core.constraints import EnumConstraint
    out = set()

    def walk(n):
        if isinstance(n, A.Assignment):
            if isinstance(n.value, str):
                out.add(n.value.strip())
        elif isinstance(n, (A.Block, A.Section)):
            for c in n.children:
                walk(c)
    for n in nodes:
        walk(n)
    if schema is not None:
        for fd in schema.fields.values():
            if fd.pattern is not None and fd.pattern.constraints is not None:
                for c in fd.pattern.constraints.constraints:
                    if isinstance(c, EnumConstraint):
                        for a in c.allowed_values:
                            out.add(a.strip())
    out.discard("")
    return sorted(out)


@lru_cache(maxsize=None)
def oracle_entry(st):
    try:
        i = str(int(st))
    except (ValueError, OverflowError):
        i = "x"
    try:
        f = float(st)
        ft = enc_str(repr(f)) + ":" + ("1" if math.isfinite(f) else "0") + ":" + ("1" if f == 0 else "0")
    except (ValueError, OverflowError):
        ft = "x"
    return f"{enc_str(st)} {i} {ft}"


def py_nonzero_mantissa(st):
    """The text test of the underflow guard (80b6126, 0b7941a) as repair.py writes it (source text pinned in Pins_Repair.v)."""
    return any(ch.isdecimal() and int(ch) != 0 for ch in st.lower().split("e")[0])


def in_scope_text(t):
    """Model scope: ASCII plus non-ASCII DECIMAL DIGITS (no case, not whitespace: str.lower / str.strip treat them as the
    model's ASCII lower/strip do; their decimal value is handed to the model as the digit oracle)."""
    return all(ch.isascii() or ch.isdecimal() for ch in t)


def tok_digits(texts):
    """Digit oracle of one case: every non-ASCII character with str.isdecimal() -> int(ch), computed by the real Python."""
    ds = sorted({ch for t in texts for ch in t if not ch.isascii() and ch.isdecimal()})
    return " ".join([f"G {len(ds)}"] + [f"{ord(ch)} {int(ch)}" for ch in ds])


ORACLE_SEEN = set()


def tok_oracle(cands):
    ORACLE_SEEN.update(cands)
    return " ".join([f"O {len(cands)}"] + [oracle_entry(c) for c in cands])


def model_line(fix, schema, nodes):
    """fix: bool, or one of the tokens "v~" / "w~" / "c~" = the switch was OMITTED at octave_validate / octave_write / the CLI
    (the extracted model then takes the default the translator read from the source)."""
    cands = py_strip_candidates(nodes, schema)
    fx = fix if isinstance(fix, str) else (1 if fix else 0)
    return f"repair {fx} {tok_schema(schema)} {tok_oracle(cands)} {tok_digits(cands)} {tok_doc(nodes)}"


def is_ascii_case(nodes, schema):
    """Model scope: str.lower / str.strip are modelled for ASCII; non-ASCII decimal digits are in scope (in_scope_text)."""
    A = _imports()
    from octave_mcp.core.constraints import EnumConstraint
    ok = True

    def walk(n):
        nonlocal ok
        if isinstance(n, A.Assignment):
            if isinstance(n.value, str) and not in_scope_text(n.value):
                ok = False
        elif isinstance(n, (A.Block, A.Section)):
            for c in n.children:
                walk(c)
    for n in nodes:
        walk(n)
    if schema is not None:
        for fd in schema.fields.values():
            if fd.pattern is not None and fd.pattern.constraints is not None:
                for c in fd.pattern.constraints.constraints:
                    if isinstance(c, EnumConstraint) and not all(in_scope_text(a) for a in c.allowed_values):
                        ok = False
    return ok


def tok_entries(entries):
    """entries: list of (rule, before, after, tier)"""
    return ";".join("|".join(enc_str(x) for x in e) for e in entries)


# ------------------------------------------------------------------------------------------------
# the property text, evaluated on (source AST, result AST, log, schema)
# ------------------------------------------------------------------------------------------------
def vtext(v):
    if isinstance(v, bool) or v is None:
        return None
    if isinstance(v, (int, float)):
        return str(v)
    if isinstance(v, str):
        return v
    return None


def same_value(a, b):
    if type(a) is not type(b):
        return False
    if isinstance(a, float):
        return repr(a) == repr(b)
    try:
        return tok_value(a) == tok_value(b)
    except OutOfModel:
        return a == b


def flat_assignments(nodes, path=()):
    """[(path, node)] of all Assignment nodes in document order; raises on shape-relevant kinds only via shape()."""
    A = _imports()
    out = []
    for i, n in enumerate(nodes):
        if isinstance(n, A.Assignment):
            out.append((path + (i,), n))
        elif isinstance(n, (A.Block, A.Section)):
            out += flat_assignments(n.children, path + (i,))
    return out


def shape(nodes):
    A = _imports()
    out = []
    for n in nodes:
        if isinstance(n, A.Assignment):
            out.append(("A", n.key))
        elif isinstance(n, A.Block):
            out.append(("B", n.key, n.target, shape(n.children)))
        elif isinstance(n, A.Section):
            out.append(("S", n.section_id, n.key, n.annotation, shape(n.children)))
        elif isinstance(n, A.Comment):
            out.append(("C", n.text))
        else:
            out.append(("?", type(n).__name__))
    return out


def zones_deep(v, acc):
    A = _imports()
    if isinstance(v, A.LiteralZoneValue):
        acc.append((v.content, v.info_tag, v.fence_marker))
    elif isinstance(v, A.ListValue):
        for x in v.items:
            zones_deep(x, acc)
    elif isinstance(v, A.InlineMap):
        for x in v.pairs.values():
            zones_deep(x, acc)


def exact_value_of_text(st):
    """Exact rational value of a numeric text, or None when decimal cannot read it."""
    try:
        d = decimal.Decimal(st)
    except (decimal.InvalidOperation, ValueError):
        return None
    if not d.is_finite():
        return None
    return d


def check_property(src, res, log, schema, fix):
    """-> list of (what, finding_clause_or_None).  src/res: list of nodes; log: [(rule, before, after, tier)]."""
    from octave_mcp.core.constraints import EnumConstraint, TypeConstraint
    bad = []
    if shape(src) != shape(res):
        bad.append(("keys/nesting/order/targets changed", None))
        return bad
    sa, ra = flat_assignments(src), flat_assignments(res)
    rlog = [e for e in log if e[0] in RULES or e[3] == "REPAIR"]
    for e in rlog:
        if e[3] != "REPAIR":
            bad.append((f"entry {e[0]} logged with tier {e[3]}", None))
        if e[0] not in RULES:
            bad.append((f"REPAIR-tier entry with unknown rule {e[0]}", None))
    if not fix or schema is None:
        for (p, a), (_, b) in zip(sa, ra):
            if not same_value(a.value, b.value):
                bad.append((f"fix off / no schema: value of {a.key} changed", None))
        if rlog:
            bad.append(("fix off / no schema: REPAIR entries logged", None))
        return bad
    # zones, None, non-text
    zs, zr = [], []
    for (_, a), (_, b) in zip(sa, ra):
        zones_deep(a.value, zs)
        zones_deep(b.value, zr)
        if a.value is None and b.value is not None:
            bad.append((f"missing/None value of {a.key} was filled", None))
        if not isinstance(a.value, str) and not same_value(a.value, b.value):
            bad.append((f"non-text value of {a.key} changed", None))
    if zs != zr:
        bad.append(("literal zone changed", None))
    # log == diff : consume chains in order (backtracking over chain lengths)
    pairs = [(a, b) for (_, a), (_, b) in zip(sa, ra)]
    n_changed = sum(1 for a, b in pairs if not same_value(a.value, b.value))
    if len(rlog) < n_changed:
        bad.append((f"the log is not complete: {n_changed} values changed but only {len(rlog)} REPAIR entries were logged", None))

    def chains(i, j):
        """generator: every way to explain pairs[i:] with rlog[j:] as [(pair_index, [entries])] (chains of exact texts)"""
        if i == len(pairs):
            if j == len(rlog):
                yield []
            return
        a, b = pairs[i]
        cur_txt = vtext(a.value)
        jj = j
        seq = []
        may_change = a.key in schema.fields
        while True:
            end_ok = (not seq and same_value(a.value, b.value)) or (seq and vtext(b.value) == seq[-1][2]
                                                                    and not (isinstance(b.value, str) and seq[-1][0] == "TYPE_COERCION")
                                                                    and not (not isinstance(b.value, str) and seq[-1][0] == "ENUM_CASEFOLD"))
            if end_ok:
                for rest in chains(i + 1, jj):
                    yield [(i, list(seq))] + rest
            if may_change and jj < len(rlog) and cur_txt is not None and rlog[jj][1] == cur_txt and isinstance(a.value, str):
                seq.append(rlog[jj])
                cur_txt = rlog[jj][2]
                jj += 1
            else:
                return

    def judge(sol):
        out = []
        for i, seq in sol:
            a, b = pairs[i]
            if not seq:
                continue
            fd = schema.fields.get(a.key)
            cs = []
            if fd is not None and fd.pattern is not None and fd.pattern.constraints is not None:
                cs = fd.pattern.constraints.constraints
            if not cs:
                out.append((f"value of {a.key} changed but the schema gives no constraint for it", None))
                continue
            for n_e, e in enumerate(seq):
                rule, before, after, tier = e
                last = n_e == len(seq) - 1
                if rule == "ENUM_CASEFOLD":
                    enums = [c for c in cs if isinstance(c, EnumConstraint)]
                    ok = False
                    for c in enums:
                        m = [x for x in c.allowed_values if x.lower() == before.lower()]
                        if len(m) == 1 and m[0] == after and before not in c.allowed_values and before != after:
                            ok = True
                            if not c.evaluate(after).valid:
                                out.append((f"{a.key}: casefolded value does not satisfy ENUM", None))
                    if not ok:
                        out.append((f"{a.key}: '{before}'->'{after}' is not a case change to the single case-insensitive ENUM match", None))
                elif rule == "TYPE_COERCION":
                    if not any(isinstance(c, TypeConstraint) and c.expected_type == "NUMBER" for c in cs):
                        out.append((f"{a.key}: number coercion without TYPE[NUMBER]", None))
                    if not last:
                        out.append((f"{a.key}: an entry follows a number coercion", None))
                        continue
                    newv = b.value
                    if isinstance(newv, bool) or not isinstance(newv, (int, float)):
                        out.append((f"{a.key}: coerced value is not a number", None))
                        continue
                    if not TypeConstraint("NUMBER").evaluate(newv).valid:
                        out.append((f"{a.key}: coerced value does not satisfy TYPE[NUMBER]", None))
                    if isinstance(newv, float) and not math.isfinite(newv):
                        out.append((f"{a.key}: coerced to non-finite {newv!r}", None))
                        continue
                    try:
                        back = float(after) if isinstance(newv, float) else int(after)
                        if back != newv or type(back) is not type(newv):
                            out.append((f"{a.key}: logged after-text {after!r} does not re-read to the new number", None))
                    except ValueError:
                        out.append((f"{a.key}: logged after-text {after!r} is not readable", None))
                    ex = exact_value_of_text(before.strip())
                    if ex is not None:
                        if newv == 0 and ex != 0:
                            # rejected since 80b6126 (ASCII digits) / 0b7941a (every decimal digit): never attributed
                            out.append((f"{a.key}: non-zero literal {before!r} became {newv!r}", None))
                        elif isinstance(newv, int) and ex != newv:
                            out.append((f"{a.key}: integer text {before!r} became {newv!r}", None))
                        elif isinstance(newv, float) and newv != 0 and ex != 0:
                            rel = abs((decimal.Decimal(newv) - ex) / ex)
                            if rel > decimal.Decimal(2) ** -52 and abs(ex) >= decimal.Decimal("2.2250738585072014e-308"):
                                out.append((f"{a.key}: {before!r} -> {newv!r} is not the nearest double", None))
                else:
                    out.append((f"{a.key}: changed by unknown rule {rule}", None))
        return out
    best = None
    for n_sol, sol in enumerate(chains(0, 0)):
        j = judge(sol)
        # prefer a decomposition with no unattributed complaint, then the fewest complaints
        score = (sum(1 for _, c in j if c is None), len(j))
        if best is None or score < best[0]:
            best = (score, j)
        if score[0] == 0 or n_sol > 300:
            break
    if best is None:
        bad.append(("the log is not the ordered list of before/after differences between input and output", None))
        return bad
    bad += best[1]
    # ambiguous / non matching enum never replaced is implied by the allowed-change predicate above
    return bad


# ------------------------------------------------------------------------------------------------
# generators
# ------------------------------------------------------------------------------------------------
ENUM_SETS = [
    ["ACTIVE", "DONE", "DRAFT"], ["Ab", "a"], ["ACTIVE", "Active", "active2"], ["X"], ["yes", "no", "Yes"],
    ["1", "2"], ["ACTIVE", "ACTIVATING"], ["lower", "MiXed", "UPPER"], ["A_B", "a-b"],
]
ENUM_SETS_API = ENUM_SETS + [["A", "A"], ["ÉTÉ", "x"], ["STRASSE", "straße"], ["1E3", "k"], ["İ", "i"], [" padded ", "Q"]]
NUM_TEXTS = ["42", "-7", "+5", "007", "1_000", " 42 ", "42 ", "\t42\n", "1.5", ".5", "1.", "1e5", "1E5", "1e-5", "1e309",
             "-1e309", "1e-400", "-1e-400", "1e-330", "2e-324", "5e-324", "nan", "NaN", "inf", "-inf", "Infinity", "0x10",
             "0b1", "1 2", "1,5", "--5", "", " ", "１２", "٤٢", "4²", "1e", "e5", "1.2.3", "9" * 30,
             "9" * 4400, "1" + "0" * 400, "0.1", "12345678901234567890.5", "1_0.5", "1__0", "_1", "1_", "42 ",
             "\x1f42\x1c", "0e0", "0.0", "-0", "-0.0", "0e-400", "0.000", "1e+22", "123456789012345678", "1.0e0",
             "1e400", "-.5e1", "+.5", "1.e1", "١e5", "1 000", "1e-323", "4.9e-324", "2.4e-324", "1E-400", "1e-9999"]
# literals float() reads as +-0.0 although the mantissa is non-zero (must stay text since 80b6126) ...
UNDERFLOW_TEXTS = ["1e-400", "-1e-400", "2e-324", "-2e-324", "4.9e-325", "0.1e-323", "1E-400", " 1e-400 ", "1.0e-400",
                   "0.0001e-320", "+2.4e-324", "9_9e-400", "123456789e-340", "00.5e-324", ".1e-323", "1.e-324", "-1E-9999"]
# ... zero in every notation float()/int() accepts (must still be coerced) ...
ZERO_TEXTS = ["0", "-0", "+0", "00", "0_0", "0.0", "-0.0", "+0.0", ".0", "0.", "0.000", "-.0", "0e0", "0e5", "0E5", "-0e5",
              "0.0e-999", "-0.0e-999", "0e-400", "0.0E+999", " 0e5\t", "0_0.0_0e1_0", "000.000e000"]
# ... the same two classes written with non-ASCII decimal digits (must stay text / be coerced since 0b7941a) ...
NONASCII_NUM_TEXTS = ["\uff11e-400", "-\u0664e-400", "0.0\uff11e-400", "\u0660e5", "\uff10.\uff10", "\uff11e-3", "\uff10e5", "0.0\u0664E-400",
                      "\u0969.\u0966e-350", " \uff10\uff10.\uff10e-9 ", "\U0001d7cfe-400", "\uff10\uff10", "\u0661\u0662e-330",
                      "\uff11\uff12\uff13\uff14\uff15\uff16\uff17\uff18\uff19\uff10\uff11\uff12\uff13\uff14\uff15\uff16\uff17\uff18\uff19"]
# ... and integer texts that are not representable as a double: the repaired value must be the EXACT integer
BIGINT_TEXTS = ["9007199254740993", "-9007199254740993", "9007199254740992", "-12345678901234567891", "18446744073709551617",
                "100000000000000000000001", "12345678901234567", " 99999999999999999 ", "+36028797018963969",
                "1_000_000_000_000_000_001", "007199254740993007199254740993"]
PRIORITY_NUM_TEXTS = UNDERFLOW_TEXTS + ZERO_TEXTS + NONASCII_NUM_TEXTS + BIGINT_TEXTS
NUM_TEXTS = NUM_TEXTS + [t for t in PRIORITY_NUM_TEXTS if t not in NUM_TEXTS]
# texts that ARE repaired under TYPE[NUMBER]: used for the repeated-occurrence documents
REPAIRABLE_NUM_TEXTS = ["42", "-7", "1.5", "1e5", " 42 ", "0e5", "9007199254740993", "007", "-0.0", "1_000"]
WRONG_KINDS = ["int", "float", "true", "false", "none", "list", "map", "zone", "holo", "biglist"]


def wrong_kind(kind, seedtext):
    A = _imports()
    if kind == "int":
        return 42
    if kind == "float":
        return 1.5
    if kind == "true":
        return True
    if kind == "false":
        return False
    if kind == "none":
        return None
    if kind == "list":
        return A.ListValue(items=[seedtext])
    if kind == "biglist":
        return A.ListValue(items=[seedtext, A.LiteralZoneValue(content=seedtext, info_tag=None, fence_marker="```"),
                                  A.InlineMap(pairs={"k": seedtext})])
    if kind == "map":
        return A.InlineMap(pairs={"k": seedtext})
    if kind == "zone":
        return A.LiteralZoneValue(content=seedtext, info_tag="txt", fence_marker="```")
    if kind == "holo":
        return A.HolographicValue(example=seedtext, constraints=None, target=None, raw_pattern=f'["{seedtext}"]')
    raise ValueError(kind)


def enum_perturbations(allowed):
    out = []
    for m in allowed:
        out += [m, m.lower(), m.upper(), m.swapcase(), m.title(), m + "x", " " + m, m + " ", m.lower() + " "]
        for k in range(1, len(m)):
            out += [m[:k], m[:k].lower(), m[:k].upper()]
    out += ["zzz", "", "42", "1e5"]
    seen, res = set(), []
    for x in out:
        if x not in seen:
            seen.add(x)
            res.append(x)
    return res


def file_schema_text(name, fields, policy):
    lines = [f"==={name}===", "META:", "  TYPE::SCHEMA", '  VERSION::"1.0"', "---", "POLICY:", '  VERSION::"1.0"',
             f"  UNKNOWN_FIELDS::{policy}", "---", "FIELDS:"]
    for k, ex, chain in fields:
        lines.append(f'  {k}::["{ex}"∧{chain}]')
    lines.append("===END===")
    return "\n".join(lines) + "\n"


FILE_FIELD_SPECS = [
    # (key, example, chain text)
    ("STATE", "ACTIVE", "REQ∧ENUM[ACTIVE,DONE,DRAFT]"),
    ("KIND", "a", "OPT∧ENUM[Ab,a]"),
    ("MODE", "ACTIVE", "ENUM[ACTIVE,Active,active2]"),
    ("FLAG", "yes", "REQ∧ENUM[yes,no,Yes]"),
    ("PHASE", "ACTIVE", "OPT∧ENUM[ACTIVE,ACTIVATING]"),
    ("COUNT", "1", "REQ∧TYPE[NUMBER]"),
    ("RATIO", "1", "OPT∧TYPE[NUMBER]∧RANGE[0,100]"),
    ("LEVEL", "1", "OPT∧ENUM[1,2]∧TYPE[NUMBER]"),
    ("NAME", "x", "REQ∧TYPE[STRING]"),
    ("NOTE", "x", "OPT"),
    ("CODE", "abc", "OPT∧REGEX[\"^[a-z]+$\"]"),
    ("ON", "true", "OPT∧TYPE[BOOLEAN]"),
    ("TAGS", "x", "OPT∧TYPE[LIST]"),
    ("MIXED", "lower", "OPT∧ENUM[lower,MiXed,UPPER]"),
]


def make_file_schemas(ctx, root):
    """Write generated schema files under root/specs/schemas; return {name: SchemaDefinition (loaded by the real loader)}."""
    from octave_mcp.schemas.loader import load_schema
    d = os.path.join(root, "specs", "schemas")
    os.makedirs(d, exist_ok=True)
    rng = ctx.rng
    out = {}
    combos = [FILE_FIELD_SPECS, FILE_FIELD_SPECS[:6], FILE_FIELD_SPECS[5:9], [FILE_FIELD_SPECS[0]], [FILE_FIELD_SPECS[5]]]
    for _ in range(ctx.scale(5, 25)):
        k = rng.randint(1, len(FILE_FIELD_SPECS))
        combos.append(rng.sample(FILE_FIELD_SPECS, k))
    for i, fields in enumerate(combos):
        name = f"GEN{i}"
        pol = ["REJECT", "IGNORE", "WARN"][i % 3]
        p = os.path.join(d, f"{name.lower()}.oct.md")
        with open(p, "w", encoding="utf-8") as f:
            f.write(file_schema_text(name, fields, pol))
        try:
            sd = load_schema(p)
        except Exception as e:  # noqa
            ctx.hist("schema_load", "failed:" + type(e).__name__)
            continue
        ctx.hist("schema_load", "ok")
        out[name] = sd
    return out


def make_api_schemas(ctx):
    """SchemaDefinition objects built directly (shapes the file syntax cannot express)."""
    from octave_mcp.core.constraints import (ConstraintChain, EnumConstraint, RegexConstraint, RequiredConstraint,
                                             TypeConstraint, OptionalConstraint)
    from octave_mcp.core.holographic import HolographicPattern
    from octave_mcp.core.schema_extractor import FieldDefinition, SchemaDefinition
    rng = ctx.rng

    def fd(name, cs):
        return FieldDefinition(name=name, pattern=HolographicPattern(example="x", constraints=ConstraintChain(cs), target=None))
    out = []
    for i, a in enumerate(ENUM_SETS_API):
        fields = {
            "E": fd("E", [RequiredConstraint(), EnumConstraint(allowed_values=list(a))]),
            "N": fd("N", [OptionalConstraint(), TypeConstraint(expected_type="NUMBER")]),
            "EN": fd("EN", [EnumConstraint(allowed_values=list(a)), TypeConstraint(expected_type="NUMBER")]),
            "NE": fd("NE", [TypeConstraint(expected_type="NUMBER"), EnumConstraint(allowed_values=list(a))]),
            "EE": fd("EE", [EnumConstraint(allowed_values=list(a)), EnumConstraint(allowed_values=[x.swapcase() for x in a])]),
            "S": fd("S", [TypeConstraint(expected_type="STRING")]),
            "R": fd("R", [RegexConstraint(pattern="^[a-z]+$")]),
            "P0": FieldDefinition(name="P0", pattern=None),
            "C0": FieldDefinition(name="C0", pattern=HolographicPattern(example="x", constraints=None, target=None)),
            "E0": fd("E0", []),
            "NN": fd("NN", [TypeConstraint(expected_type="NUMBER"), TypeConstraint(expected_type="NUMBER")]),
        }
        keys = list(fields)
        if i % 2:
            rng.shuffle(keys)
        out.append(SchemaDefinition(name=f"API{i}", fields={k: fields[k] for k in keys}))
    return out


def perturbed_values_for(fd, rng):
    """All perturbations relevant for one field definition (python values)."""
    from octave_mcp.core.constraints import EnumConstraint
    vals = []
    cs = []
    if fd.pattern is not None and fd.pattern.constraints is not None:
        cs = fd.pattern.constraints.constraints
    for c in cs:
        if isinstance(c, EnumConstraint):
            vals += enum_perturbations(c.allowed_values)
    vals += NUM_TEXTS
    vals += [wrong_kind(k, "active") for k in WRONG_KINDS]
    return vals


def build_doc_nodes(schema, rng, value_pool, n_extra=2):
    """A document (list of nodes) over the schema's field names: main block (named like the schema), a nested block,
    a section, top-level occurrences, extra keys, missing fields, duplicates, a comment node, a block target."""
    A = _imports()
    keys = list(schema.fields)

    def assigns(k_lo, k_hi):
        out = []
        for k in rng.sample(keys, min(len(keys), rng.randint(k_lo, k_hi))):
            out.append(A.Assignment(key=k, value=copy.deepcopy(rng.choice(value_pool[k]))))
        for _ in range(rng.randint(0, n_extra)):
            out.append(A.Assignment(key=rng.choice(["EXTRA", "OTHER", "Z9"]), value=rng.choice(["active", "42", 7, None])))
        if out and rng.random() < 0.2:
            out.append(copy.deepcopy(out[0]))       # duplicate key
        rng.shuffle(out)
        return out
    main = A.Block(key=schema.name, children=assigns(1, len(keys)))
    nodes = [main]
    if rng.random() < 0.7:
        inner = A.Block(key="INNER", children=assigns(0, 3))
        main.children.insert(rng.randint(0, len(main.children)), inner)
    if rng.random() < 0.5:
        nodes.append(A.Block(key="ELSEWHERE", target=rng.choice([None, "TGT"]), children=assigns(0, 3)))
    if rng.random() < 0.5:
        nodes.append(A.Section(section_id=str(rng.randint(1, 3)), key="SEC", children=assigns(0, 3)))
    if rng.random() < 0.5:
        nodes += assigns(0, 2)
    rng.shuffle(nodes)
    return nodes


def chain_of(fd):
    if fd.pattern is not None and fd.pattern.constraints is not None:
        return fd.pattern.constraints.constraints
    return []


def has_number(fd):
    from octave_mcp.core.constraints import TypeConstraint
    return any(isinstance(c, TypeConstraint) and c.expected_type == "NUMBER" for c in chain_of(fd))


def wrap_single(a, pos, main_name):
    """One assignment at one of four document positions."""
    A = _imports()
    if pos == 0:
        return [a]
    if pos == 1:
        return [A.Block(key=main_name, children=[a])]
    if pos == 2:
        return [A.Block(key="OUTER", target="T", children=[A.Block(key="IN", children=[a, A.Comment(text="c")])])]
    return [A.Section(section_id="1", key="SEC", annotation=None, children=[a])]


def build_repeat_doc(sd, rng):
    """The SAME schema field name at 2..4 places of one document (nested occurrence, repeated item blocks, duplicate key,
    sections, mixed) carrying the IDENTICAL repairable text.  -> (nodes, key, text, occurrences) or None."""
    A = _imports()
    from octave_mcp.core.constraints import EnumConstraint, TypeConstraint
    cands = []
    for k, fd in sd.fields.items():
        for c in chain_of(fd):
            if isinstance(c, EnumConstraint):
                for m in c.allowed_values:
                    for v in (m.lower(), m.upper(), m.swapcase(), m.title()):
                        if v not in c.allowed_values:
                            cands.append((k, v))
            elif isinstance(c, TypeConstraint) and c.expected_type == "NUMBER":
                cands += [(k, t) for t in REPAIRABLE_NUM_TEXTS]
    if not cands:
        return None
    k, v = rng.choice(cands)
    n = rng.randint(2, 4)

    def mk():
        return A.Assignment(key=k, value=v)

    def other():
        return A.Assignment(key=rng.choice(["EXTRA", "OTHER"]), value=rng.choice(["x", 7, "42"]))
    style = rng.choice(["nested", "items", "dupkey", "section", "mixed"])
    if style == "nested":
        deeper = A.Block(key="DEEPER", children=[mk()])
        inner = A.Block(key="INNER", children=([mk()] if n >= 3 else []) + [other(), deeper] + ([mk()] if n >= 4 else []))
        nodes = [A.Block(key=sd.name, children=[mk(), other(), inner])]
    elif style == "items":
        nodes = [A.Block(key="ITEM_" + chr(65 + i), children=[mk(), other()]) for i in range(n)]
    elif style == "dupkey":
        nodes = [A.Block(key=sd.name, children=[mk() for _ in range(n)] + [other()])]
    elif style == "section":
        n = 3
        nodes = [A.Section(section_id="1", key="SEC", annotation=None, children=[mk()]),
                 A.Section(section_id="2", key="SEC2", annotation=None, children=[other(), mk(), A.Block(key="B", children=[mk()])])]
    else:
        n = 3
        nodes = [mk(), A.Block(key=sd.name, target=rng.choice([None, "TGT"]), children=[other(), mk()]),
                 A.Section(section_id="3", key="SEC", annotation=None, children=[mk()])]
    return nodes, k, v, n, style


def emit_text(nodes, name="DOC"):
    A = _imports()
    from octave_mcp.core.emitter import emit
    return emit(A.Document(name=name, meta={"TYPE": "X", "VERSION": "1.0"}, sections=copy.deepcopy(nodes)))


# ------------------------------------------------------------------------------------------------
# implementation paths
# ------------------------------------------------------------------------------------------------
def impl_repair(nodes, schema, fix):
    A = _imports()
    from octave_mcp.core.repair import repair
    doc = A.Document(name="DOC", sections=copy.deepcopy(nodes))
    doc2, log = repair(doc, [], fix=fix, schema=schema)
    return doc2.sections, [(e.rule_id, e.before, e.after, e.tier.value) for e in log.repairs]


def log_from_dicts(lst, rule_key):
    out = []
    for r in lst:
        if isinstance(r, dict) and (r.get(rule_key) in RULES or r.get("tier") == "REPAIR"):
            out.append((str(r.get(rule_key)), r.get("before"), r.get("after"), r.get("tier")))
    return out


def run(ctx):
    mut = os.environ.get("VERIF_SELFTEST_MUTATION")
    if mut:
        _apply_selftest_mutation(mut)
        ctx.extra["SELFTEST_MUTATION"] = mut
    from octave_mcp.core.parser import parse
    have_model = ctx.build_status["drivers"].get("rep", False)
    rng = ctx.rng
    ctx.extra["rule"] = (
        "schemas: %d field specs combined into generated schema FILES (loaded by the real loader; ENUM/TYPE[NUMBER]/"
        "TYPE[STRING|BOOLEAN|LIST]/REQ/OPT/REGEX/RANGE) + SchemaDefinition objects built through the API (two ENUMs, "
        "NUMBER before ENUM, pattern None, chain None, empty chain, non-ASCII members, duplicates). instances: (a) sweep "
        "= every field x every perturbation (each member in 5 case variants, every proper prefix in 3 cases, padded, "
        "suffixed, %d numeric notations incl. overflow/underflow/nan/inf/underscore/non-ASCII digits/4400 digits, %d "
        "wrong kinds) as a one-assignment document; (b) random documents with main block, nested block, section, "
        "top-level occurrences of field names, extra/missing/duplicate keys; (c) PRIORITY (never subsampled): every distinct "
        "NUMBER field definition x %d texts = underflowing literals (1e-400, -1e-400, 2e-324, 4.9e-325, 0.1e-323, ...: must stay "
        "text since 80b6126), zero in every notation (must be coerced), the same with non-ASCII decimal digits (fullwidth, Arabic-Indic, "
        "Devanagari, mathematical bold; must stay text / be coerced since 0b7941a; in model scope via the digit oracle), integer texts that are "
        "not doubles (2^53+1, 20+ digits: the new value must be the exact int); (d) REPEAT documents: one schema field at 2-4 "
        "places (nested, repeated item blocks, duplicate key, sections, mixed) with the identical repairable text -- #REPAIR "
        "entries must be occurrences x entries of the one-assignment document; corpus/C11 (witnesses of fixed findings, "
        "expect unrepaired) replayed FIRST through repair(), octave_validate(fix), octave_write(lenient). paths: repair() fix on/off, "
        "octave_validate fix on/off, octave_write(lenient, schema)+file, `octave validate --fix` (CliRunner). "
        "non-trivial = distinct (schema, document tokens) on which at least one value changed or a guard other than "
        "`not a string` decided" % (len(FILE_FIELD_SPECS), len(NUM_TEXTS), len(WRONG_KINDS), len(PRIORITY_NUM_TEXTS)))
    root = tempfile.mkdtemp(prefix="c11_")
    old_cwd = os.getcwd()
    try:
        os.chdir(root)
        _run(ctx, root, have_model, parse)
    finally:
        os.chdir(old_cwd)
        shutil.rmtree(root, ignore_errors=True)
    ctx.assumptions += [
        "int(text)/float(text)/repr(float)/math.isfinite(float)/(float == 0) of CPython are an oracle table handed to the model per case; "
        "the mantissa test of the underflow guard is computed by the model and compared on every oracle text: ASCII digits in Gallina, "
        "the decimal value of NON-ASCII characters (str.isdecimal / int(ch)) is a per-case digit oracle table (G) computed with the real Python",
        "C11_repair_lossless_text / C11_repair_tbl_lossless_text assume a self-consistent oracle (zero repr text -> flagged == 0) and that int() "
        "does not read a text with a decimal digit of non-zero value as 0: both are evaluated by the extracted tbl_float_consistent / tbl_int_zero_ok on "
        "every oracle text of the run (driver command tblok)",
        "str.lower/str.strip are modelled for ASCII; non-ASCII decimal digits are in the model's scope (no case, not whitespace); cases with "
        "any other non-ASCII character are compared on the implementation only (counted as out_of_model)",
        "the schema loader / constraint parser are not modelled: the model receives the SchemaDefinition the real loader produced",
        "write path: whether validation found errors (the gate of the lenient repair) is taken from the real Validator",
    ]


def classify(ctx, what, clause, case, path):
    fid = None
    if clause == "cli-no-log":
        fid = "C11-cli-fix-no-log"
    ctx.hist("property_failures", fid or "unattributed")
    case = dict(case)
    case["path"] = path
    ctx.property_failure(case, f"{path}: {what}", finding=fid)


def _run(ctx, root, have_model, parse):
    A = _imports()
    rng = ctx.rng
    file_schemas = make_file_schemas(ctx, root)
    api_schemas = make_api_schemas(ctx)
    # -------- corpus FIRST: minimised past failures and the witnesses of FIXED findings ---------------------
    # corpus/C11/*.json = {"schema_name", "schema_text", "doc_text", ["expect": "unrepaired" | "repaired"]}; each is
    # replayed through repair(), octave_validate(fix=true) and octave_write(lenient, schema)+file
    corpus_dir = os.path.join(os.path.dirname(os.path.dirname(os.path.dirname(os.path.abspath(__file__)))), "corpus", "C11")
    if os.path.isdir(corpus_dir):
        for fn in sorted(os.listdir(corpus_dir)):
            if fn.endswith(".json"):
                c = json.load(open(os.path.join(corpus_dir, fn), encoding="utf-8"))
                c["corpus_file"] = fn
                try:
                    replay_corpus_case(ctx, root, c, parse)
                except Exception as e:  # noqa
                    ctx.obligation_failure("corpus:" + fn, f"{type(e).__name__}: {e}")
    # -------- (F) finding witnesses --------------------------------------------------------------
    for fid, f in ctx.known.items():
        w = f["witness"]
        try:
            if fid == "C11-cli-fix-no-log":
                still = replay_cli_witness(root, w)
                ctx.finding_witness(fid, still)
        except Exception as e:  # noqa
            ctx.obligation_failure("finding-witness:" + fid, f"{type(e).__name__}: {e}")
    # -------- cases: (schema, nodes) --------------------------------------------------------------
    cases = []          # (schema_obj, schema_label, nodes, kind)
    all_schemas = [(s, "file:" + n) for n, s in file_schemas.items()] + [(s, "api:" + s.name) for s in api_schemas]
    seen_sweep = set()
    for sd, label in all_schemas:
        for k, fd in sd.fields.items():
            for v in perturbed_values_for(fd, rng):
                try:
                    key = (tok_schema(type(sd)(name="x", fields={k: fd})), tok_value(v))
                except OutOfModel:
                    key = None
                if key in seen_sweep:
                    continue
                seen_sweep.add(key)
                nodes = wrap_single(A.Assignment(key=k, value=copy.deepcopy(v)), len(cases) % 4, sd.name)
                cases.append((sd, label, nodes, "sweep"))
    if ctx.quick() and len(cases) > 9000:
        keep = cases[::max(1, len(cases) // 9000)]
        cases = keep
    n_sweep = len(cases)
    # priority cases (NEVER subsampled, every tier): every distinct NUMBER field definition x every underflowing literal,
    # zero notation, non-ASCII-digit literal and integer text that is not a double
    prio, seen_prio = [], set()
    for sd, label in all_schemas:
        for k, fd in sd.fields.items():
            if not has_number(fd):
                continue
            key = (label.split(":")[0], tok_schema(type(sd)(name="x", fields={k: fd})))
            if key in seen_prio:
                continue
            seen_prio.add(key)
            for j, v in enumerate(PRIORITY_NUM_TEXTS):
                prio.append((sd, label, wrap_single(A.Assignment(key=k, value=v), (j + len(seen_prio)) % 4, sd.name), "priority"))
    # repeated occurrences of one field with the identical repairable text
    repeat_meta = {}
    reps = []
    for _ in range(ctx.scale(600, 8000)):
        sd, label = rng.choice(all_schemas)
        r = build_repeat_doc(sd, rng)
        if r is not None:
            repeat_meta[id(r[0])] = r[1:]
            reps.append((sd, label, r[0], "repeat"))
    cases = prio + reps + cases
    ctx.extra["priority_cases"] = len(prio)
    ctx.extra["repeat_docs"] = len(reps)
    pools = {}
    for sd, label in all_schemas:
        pools[label] = {k: perturbed_values_for(fd, rng) for k, fd in sd.fields.items()}
    for _ in range(ctx.scale(1500, 40000)):
        sd, label = rng.choice(all_schemas)
        cases.append((sd, label, build_doc_nodes(sd, rng, pools[label]), "random"))
    # -------- repair() direct: implementation, property, model ---------------------------------------
    lines, idx = [], []
    impl_results = []
    for ci, (sd, label, nodes, kind) in enumerate(cases):
        for fix in (True, False):
            if not fix and ci % 7:
                continue
            try:
                res, log = impl_repair(nodes, sd, fix)
            except Exception as e:  # noqa
                ctx.property_failure({"schema": label, "doc": _safe_tok(nodes), "fix": fix}, f"repair() raised {type(e).__name__}: {e}")
                continue
            ctx.count()
            ctx.hist("path", "repair()")
            ctx.hist("fix", fix)
            ctx.hist("log_len", len(log))
            ctx.hist("doc_assignments", min(len(flat_assignments(nodes)), 12))
            for e in log:
                ctx.hist("rule", e[0])
            ctx.hist("case_kind", kind)
            case = {"schema": label, "schema_tokens": tok_schema(sd), "doc": _safe_tok(nodes), "fix": fix, "kind": kind,
                    "text_values": [a.value for _, a in flat_assignments(nodes) if isinstance(a.value, str)][:8]}
            for what, clause in check_property(nodes, res, log, sd, fix):
                classify(ctx, what, clause, case, "repair()")
            if fix and kind == "repeat":
                # every occurrence of (field, identical text) must get the same new value and its own log entries:
                # #entries == occurrences x #entries of the one-assignment document
                k, v, n_occ, style = repeat_meta[id(nodes)]
                ctx.hist("repeat_style", style)
                _, log1 = impl_repair([A.Assignment(key=k, value=v)], sd, True)
                mine = log      # the other assignments of a repeat document use keys outside every schema
                occ = [(a, b) for (_, a), (_, b) in zip(flat_assignments(nodes), flat_assignments(res)) if a.key == k and a.value == v]
                newvals = {tok_value(b.value) for _, b in occ}
                changed_occ = sum(1 for a, b in occ if not same_value(a.value, b.value))
                ctx.hist("repeat_changed_occurrences", changed_occ)
                if len(occ) != n_occ or len(newvals) != 1:
                    classify(ctx, f"{n_occ} identical occurrences of {k}={v!r} were repaired to different values {sorted(newvals)}",
                             None, case, "repair() repeated field")
                if len(mine) != n_occ * len(log1):
                    classify(ctx, f"{n_occ} identical occurrences of {k}={v!r}: expected {n_occ}x{len(log1)} REPAIR entries, "
                                  f"the log has {len(mine)} ({changed_occ} values changed)", None, case, "repair() repeated field")
            if fix:
                # idempotence (document level, every schema; log level for simple chains is the model's theorem)
                res2, log2 = impl_repair(res, sd, True)
                ctx.count()
                try:
                    if tok_doc(res2) != tok_doc(res):
                        classify(ctx, "repairing a repaired document changed it again", None, case, "repair() twice")
                except OutOfModel:
                    pass
                if log or any(isinstance(a.value, str) for _, a in flat_assignments(nodes)):
                    ctx.nontrivial((label, case["doc"]))
            if len(ctx.samples) < 6 and log and ci % 97 == 0:
                ctx.sample({"schema": label, "doc_tokens": case["doc"][:300], "log": log[:3]})
            impl_results.append((ci, fix, res, log))
            if have_model:
                try:
                    in_model = is_ascii_case(nodes, sd)
                    if not in_model:
                        ctx.hist("model_scope", "out_of_model(non-ascii other than decimal digits)")
                        continue
                    ln = model_line(fix, sd, nodes)
                    exp = tok_doc(res) + " # " + tok_entries(log)
                except OutOfModel as e:
                    ctx.hist("model_scope", "out_of_model(" + str(e) + ")")
                    continue
                ctx.hist("model_scope", "in_model")
                lines.append(ln)
                idx.append((case, exp))
    if have_model and lines:
        outs = run_driver("rep", lines)
        for (case, exp), got in zip(idx, outs):
            ctx.count()
            if got != exp:
                ctx.correspondence_failure({"case": case, "impl": exp[:600], "model": got[:600]}, "repair(): model and implementation differ")
    ctx.extra["sweep_cases"] = n_sweep
    ctx.extra["random_docs"] = sum(1 for c in cases if c[3] == "random")
    # -------- tool paths (file schemas only; text goes through emit/parse) ------------------------------
    from octave_mcp.mcp.validate import ValidateTool
    from octave_mcp.mcp.write import WriteTool
    from octave_mcp.core.validator import Validator
    from click.testing import CliRunner
    from octave_mcp.cli.main import cli
    file_cases = [c for c in cases if c[1].startswith("file:")]
    must = [c for c in file_cases if c[3] == "priority"]
    if ctx.quick():     # quick tier: the plain NUMBER field only (every priority text), thorough: every NUMBER field
        must = [c for c in must if "COUNT" in c[0].fields and flat_assignments(c[2])[0][1].key == "COUNT"]
    must += [c for c in file_cases if c[3] == "repeat"][:ctx.scale(60, 1500)]
    tool_cases = [c for c in file_cases if c[3] != "priority"]
    rng.shuffle(tool_cases)
    tool_cases = must + tool_cases[:ctx.scale(390, 12000)]
    ctx.extra["tool_priority_and_repeat_cases"] = len(must)
    m_lines, m_idx = [], []
    n_tool = 0
    matrix_pool = []
    for sd, label, nodes, kind in tool_cases:
        name = sd.name
        try:
            text = emit_text(nodes)
            src = parse(text).sections
            if tok_doc(parse(emit_text(src)).sections) != tok_doc(src):
                ctx.hist("tool_cases", "skipped:source does not round-trip (C01-C04 scope)")
                continue
            exp_res, exp_log = impl_repair(src, sd, True)
            if tok_doc(parse(emit_text(exp_res)).sections) != tok_doc(exp_res):
                ctx.hist("tool_cases", "skipped:repaired doc does not round-trip (C01-C04 scope)")
                continue
        except OutOfModel:
            ctx.hist("tool_cases", "skipped:kind")
            continue
        except Exception as e:  # noqa
            ctx.hist("tool_cases", "skipped:emit/parse " + type(e).__name__)
            continue
        ctx.hist("tool_cases", "run")
        n_tool += 1
        case = {"schema": label, "schema_name": name, "schema_text": open(os.path.join(root, "specs", "schemas", name.lower() + ".oct.md")).read(),
                "doc_text": text, "kind": kind}
        ctx.hist("tool_case_kind", kind)
        if exp_log:
            matrix_pool.append((sd, label, name, text, src, case))
        in_model = have_model and is_ascii_case(src, sd)
        # ---- octave_validate fix on / off
        for fix in (True, False):
            try:
                r = asyncio.run(ValidateTool().execute(content=text, schema=name, fix=fix))
            except Exception as e:  # noqa
                classify(ctx, f"octave_validate raised {type(e).__name__}: {e}", None, case, "octave_validate")
                continue
            ctx.count()
            ctx.hist("path", f"octave_validate(fix={fix})")
            if r.get("status") != "success" or not isinstance(r.get("canonical"), str):
                ctx.hist("tool_cases", "validate:not-success")
                continue
            out = parse(r["canonical"]).sections
            log = log_from_dicts(r.get("repairs", []), "rule_id")
            if r.get("repair_log") is not r.get("repairs") and log_from_dicts(r.get("repair_log", []), "rule_id") != log:
                classify(ctx, "repairs and repair_log disagree", None, case, "octave_validate")
            for what, clause in check_property(src, out, log, sd, fix):
                classify(ctx, what, clause, case, f"octave_validate(fix={fix})")
            if in_model:
                m_lines.append(model_line(fix, sd, src))
                m_idx.append((case, f"octave_validate(fix={fix})", tok_doc(out) + " # " + tok_entries(log)))
        # ---- octave_write(lenient=True, schema=...) and the file
        try:
            fp = os.path.join(root, f"w{n_tool}.oct.md")
            r = asyncio.run(WriteTool().execute(target_path=fp, content=text, lenient=True, schema=name))
            ctx.count()
            ctx.hist("path", "octave_write(lenient)")
            if r.get("status") == "success" and os.path.exists(fp):
                out = parse(open(fp, encoding="utf-8").read()).sections
                log = log_from_dicts(r.get("corrections", []), "code")
                os.unlink(fp)
                for what, clause in check_property(src, out, log, sd, True):
                    classify(ctx, what, clause, case, "octave_write(lenient)")
                verrs = Validator(schema=None).validate(A.Document(name="DOC", meta={"TYPE": "X", "VERSION": "1.0"},
                                                                   sections=copy.deepcopy(src)), strict=False,
                                                         section_schemas={sd.name: sd})
                gate = bool(verrs)
                ctx.hist("write_gate(validation_errors)", gate)
                if in_model:
                    m_lines.append(model_line(gate, sd, src))
                    m_idx.append((case, "octave_write(lenient)", tok_doc(out) + " # " + tok_entries(log)))
            else:
                ctx.hist("tool_cases", "write:not-success")
        except Exception as e:  # noqa
            classify(ctx, f"octave_write raised {type(e).__name__}: {e}", None, case, "octave_write")
        # ---- CLI validate --fix (in-process runner; real subprocess in the thorough tier for a sample)
        if n_tool % ctx.scale(6, 3) == 0:
            fp = os.path.join(root, f"c{n_tool}.oct.md")
            with open(fp, "w", encoding="utf-8") as f:
                f.write(text)
            res = CliRunner().invoke(cli, ["validate", "--fix", "--schema", name, fp])
            os.unlink(fp)
            ctx.count()
            ctx.hist("path", "cli validate --fix")
            outtxt = res.output
            cut = outtxt.find("\nvalidation_status:")
            if cut > 0 and outtxt.startswith("==="):
                out = parse(outtxt[:cut]).sections
                # the CLI prints no log: any change is an unlogged change
                for what, clause in check_property(src, out, [], sd, True):
                    classify(ctx, what, "cli-no-log" if "log is not" in what else clause, case, "cli validate --fix")
            else:
                ctx.hist("tool_cases", "cli:no-canonical")
    ctx.extra["tool_documents"] = n_tool
    # -------- what switches repair on: every surface x profile spelling x switch omitted/False/True x other arguments ----
    rng.shuffle(matrix_pool)
    surface_matrix(ctx, root, matrix_pool[:ctx.scale(8, 100)], have_model, parse, m_lines, m_idx)
    if have_model and m_lines:
        outs = run_driver("rep", m_lines)
        for (case, path, exp), got in zip(m_idx, outs):
            ctx.count()
            if got != exp:
                ctx.correspondence_failure({"case": case, "path": path, "impl": exp[:600], "model": got[:600]},
                                           f"{path}: model and implementation differ")
    # -------- octave_write with the builtin META dict schema (lenient META enum casefold) -----------------
    for status in ["draft", "Draft", "ACTIVE", "active", "DEPRECATED", "deprecated", "ACT", "dra", "zzz", "Activ"]:
        for with_type in (False, True):
            text = "===DOC===\nMETA:\n" + ("  TYPE::X\n" if with_type else "") + f'  VERSION::"1.0"\n  STATUS::{status}\nK::v\n===END===\n'
            fp = os.path.join(root, "m.oct.md")
            if os.path.exists(fp):
                os.unlink(fp)
            try:
                r = asyncio.run(WriteTool().execute(target_path=fp, content=text, lenient=True, schema="META"))
            except Exception as e:  # noqa
                classify(ctx, f"octave_write(META) raised {type(e).__name__}", None, {"doc_text": text}, "octave_write(META)")
                continue
            ctx.count()
            ctx.hist("path", "octave_write(lenient, builtin META)")
            if r.get("status") != "success":
                continue
            new = parse(open(fp, encoding="utf-8").read()).meta.get("STATUS")
            log = log_from_dicts(r.get("corrections", []), "code")
            allowed = ["DRAFT", "ACTIVE", "DEPRECATED"]
            m = [a for a in allowed if a.lower() == status.lower()]
            case = {"doc_text": text, "schema": "META"}
            if new != status:
                ok = len(m) == 1 and new == m[0] and status not in allowed and log == [("ENUM_CASEFOLD", status, new, "REPAIR")]
                if not ok:
                    classify(ctx, f"META.STATUS {status!r}->{new!r} not an allowed, logged casefold (log={log})", None, case, "octave_write(META)")
                ctx.nontrivial(("meta", status, with_type))
            elif log:
                classify(ctx, "REPAIR entry logged without a change", None, case, "octave_write(META)")
    # -------- the oracle tables of this run satisfy the hypotheses of C11_repair_tbl_lossless_text; mantissa test -----
    if have_model:
        ents = sorted(t for t in ORACLE_SEEN if in_scope_text(t) and t)
        t_lines = ["tblok " + tok_oracle(ents[i:i + 300]) + " " + tok_digits(ents[i:i + 300]) for i in range(0, len(ents), 300)]
        for ln, got in zip(t_lines, run_driver("rep", t_lines) if t_lines else []):
            ctx.count()
            if got != "1 1":
                ctx.obligation_failure("oracle-hypotheses", f"tbl_float_consistent/tbl_int_zero_ok = {got} on a table of this run: {ln[:300]}")
        m_l = ["mant " + tok_digits([t]) + " " + enc_str(t) for t in ents]
        for t, got in zip(ents, run_driver("rep", m_l) if m_l else []):
            ctx.count()
            exp = ("1" if py_nonzero_mantissa(t) else "0") + " " + enc_str(t.lower().split("e")[0])
            if got != exp:
                ctx.correspondence_failure({"text": t, "impl": exp, "model": got}, "mantissa test: model and Python expression differ")
        ctx.extra["oracle_texts_checked"] = len(ents)
        ctx.extra["oracle_texts_with_nonascii_digits"] = sum(1 for t in ents if not t.isascii())


OMIT = object()
PROFILE_SPELLINGS = [OMIT, "STRICT", "STANDARD", "LENIENT", "ULTRA", "lenient", "Lenient", "LeNiEnT", "lENIENT", "strict", "Standard",
                     "ultra", "Ultra", ""]
VALIDATE_EXTRAS = [
    {},
    {"debug_grammar": False, "grammar_hint": False, "diff_only": False, "compact": False},
    {"debug_grammar": True, "grammar_hint": True},
    {"compact": True},
    {"diff_only": True},
    {"lenient": True, "corrections_only": False},         # arguments of ANOTHER tool: must not switch anything on
]
WRITE_EXTRAS = [
    {},
    {"corrections_only": False, "parse_error_policy": "error", "debug_grammar": False, "grammar_hint": False},
    {"corrections_only": True},
    {"parse_error_policy": "salvage"},
    {"debug_grammar": True, "grammar_hint": True},
    {"fix": True, "profile": "LENIENT"},                   # arguments of ANOTHER tool: must not switch anything on
    {"profile": "lenient"},
]


def repair_records(obj):
    """Every dict anywhere in a tool result that is a REPAIR record (tier REPAIR or one of the two rule ids)."""
    out = []
    if isinstance(obj, dict):
        if obj.get("tier") == "REPAIR" or obj.get("rule_id") in RULES or obj.get("code") in RULES:
            out.append(obj)
        for v in obj.values():
            out += repair_records(v)
    elif isinstance(obj, (list, tuple)):
        for v in obj:
            out += repair_records(v)
    return out


def surface_matrix(ctx, root, docs, have_model, parse, m_lines, m_idx):
    """The switch must be the ONLY thing that turns repair on: octave_validate (`fix`), octave_write (`lenient`), the CLI
    (`--fix`), each with the switch omitted / False / True, every profile spelling (where the surface has one), the other
    optional arguments omitted / at their defaults / set, content and file_path input.  Switch off or omitted: the values of
    the returned / written document equal the source and NO REPAIR record appears anywhere in the result."""
    from click.testing import CliRunner
    from octave_mcp.cli.main import cli
    from octave_mcp.core.validator import Validator
    from octave_mcp.mcp.validate import ValidateTool
    from octave_mcp.mcp.write import WriteTool
    A = _imports()
    n_calls = 0
    for di, (sd, label, name, text, src, case0) in enumerate(docs):
        in_model = have_model and is_ascii_case(src, sd)
        fpath = os.path.join(root, f"mx{di}.oct.md")
        with open(fpath, "w", encoding="utf-8") as f:
            f.write(text)
        src_tok = tok_doc(src)

        def judge(path, case, out_sections, log, records, on, model_fix):
            """on: the switch is explicitly True (and a schema is given); log: the REPAIR entries of the result's log list;
            records: every REPAIR-looking dict anywhere in the result."""
            if not on:
                if out_sections is not None and tok_doc(out_sections) != src_tok:
                    classify(ctx, "switch off/omitted but the values of the document changed", None, case, path)
                if records:
                    classify(ctx, f"switch off/omitted but {len(records)} REPAIR record(s) returned: {records[:2]}", None, case, path)
            if out_sections is not None:
                for what, clause in check_property(src, out_sections, log, sd, on):
                    classify(ctx, what, clause, case, path)
                if in_model and model_fix is not None:
                    m_lines.append(model_line(model_fix, sd, src))
                    m_idx.append((case, path, tok_doc(out_sections) + " # " + tok_entries(log)))

        # ---- octave_validate
        for prof in PROFILE_SPELLINGS:
            for fx in (OMIT, False, True):
                for xi, extra in enumerate(VALIDATE_EXTRAS):
                    for mode in (("content", "file_path") if xi == 0 else ("content",)):
                        kw = {"schema": name}
                        kw[mode] = text if mode == "content" else fpath
                        if prof is not OMIT:
                            kw["profile"] = prof
                        if fx is not OMIT:
                            kw["fix"] = fx
                        kw.update(extra)
                        shown = {k: v for k, v in kw.items() if k != "content"}
                        case = dict(case0, call="octave_validate", arguments=shown, fix="omitted" if fx is OMIT else fx,
                                    profile="omitted" if prof is OMIT else prof)
                        path = f"octave_validate(fix={'omitted' if fx is OMIT else fx}, profile={'omitted' if prof is OMIT else repr(prof)})"
                        try:
                            r = asyncio.run(ValidateTool().execute(**kw))
                        except Exception as e:  # noqa
                            classify(ctx, f"octave_validate raised {type(e).__name__}: {e}", None, case, path)
                            continue
                        n_calls += 1
                        ctx.count()
                        ctx.hist("matrix", f"validate fix={'omitted' if fx is OMIT else fx}")
                        ctx.hist("matrix_profile", "omitted" if prof is OMIT else repr(prof))
                        if r.get("status") != "success":
                            ctx.hist("matrix_skipped", "validate:not-success")
                            continue
                        can = r.get("canonical")
                        out = parse(can).sections if isinstance(can, str) else None
                        if out is None and not extra.get("diff_only"):
                            ctx.hist("matrix_skipped", "validate:no-canonical")
                        judge(path, case, out, log_from_dicts(r.get("repairs", []), "rule_id"), repair_records(r), fx is True,
                              ("v~" if fx is OMIT else fx))
        # ---- octave_write
        verrs = Validator(schema=None).validate(A.Document(name="DOC", meta={"TYPE": "X", "VERSION": "1.0"}, sections=copy.deepcopy(src)),
                                                strict=False, section_schemas={sd.name: sd})
        gate = bool(verrs)
        for ln in (OMIT, False, True):
            for with_schema in (True, False):
                for extra in WRITE_EXTRAS:
                    wp = os.path.join(root, f"mxw{di}.oct.md")
                    if os.path.exists(wp):
                        os.unlink(wp)
                    kw = {"target_path": wp, "content": text}
                    if with_schema:
                        kw["schema"] = name
                    if ln is not OMIT:
                        kw["lenient"] = ln
                    kw.update(extra)
                    shown = {k: v for k, v in kw.items() if k not in ("content", "target_path")}
                    case = dict(case0, call="octave_write", arguments=shown, lenient="omitted" if ln is OMIT else ln)
                    path = f"octave_write(lenient={'omitted' if ln is OMIT else ln}, schema={'given' if with_schema else 'omitted'})"
                    try:
                        r = asyncio.run(WriteTool().execute(**kw))
                    except Exception as e:  # noqa
                        classify(ctx, f"octave_write raised {type(e).__name__}: {e}", None, case, path)
                        continue
                    n_calls += 1
                    ctx.count()
                    ctx.hist("matrix", f"write lenient={'omitted' if ln is OMIT else ln} schema={with_schema}")
                    if r.get("status") != "success":
                        ctx.hist("matrix_skipped", "write:not-success")
                        continue
                    out = None
                    if os.path.exists(wp):
                        out = parse(open(wp, encoding="utf-8").read()).sections
                        os.unlink(wp)
                    elif not extra.get("corrections_only"):
                        ctx.hist("matrix_skipped", "write:no-file")
                    on = ln is True and with_schema
                    mf = None
                    if with_schema:
                        mf = ("w~" if ln is OMIT else ln) if gate else False
                    judge(path, case, out, log_from_dicts(r.get("corrections", []), "code"), repair_records(r), on, mf)
        # ---- CLI
        for args, stdin, on in ((["validate", fpath], None, False),
                                (["validate", "--schema", name, fpath], None, False),
                                (["validate", "--fix", fpath], None, False),
                                (["validate", "--stdin", "--schema", name], text, False),
                                (["validate", "--fix", "--schema", name, fpath], None, True),
                                (["validate", "--stdin", "--fix", "--schema", name], text, True)):
            res = CliRunner().invoke(cli, args, input=stdin)
            n_calls += 1
            ctx.count()
            ctx.hist("matrix", "cli " + " ".join(a for a in args if a.startswith("--")))
            outtxt = res.output
            cut = outtxt.find("\nvalidation_status:")
            if not (cut > 0 and outtxt.startswith("===")):
                ctx.hist("matrix_skipped", "cli:no-canonical")
                continue
            out = parse(outtxt[:cut]).sections
            shown = [a if a != fpath else "<file>" for a in args]
            case = dict(case0, call="octave validate (CLI)", arguments=shown, stdin=stdin is not None)
            path = "cli " + " ".join(shown)
            mentions = any(x in outtxt[cut:] for x in RULES) or "REPAIR" in outtxt[cut:]
            if not on:
                if tok_doc(out) != src_tok:
                    classify(ctx, "--fix absent (or no schema) but the values of the printed document changed", None, case, path)
                if mentions:
                    classify(ctx, "--fix absent (or no schema) but the output mentions a REPAIR", None, case, path)
                if in_model and "--schema" in args:         # here --fix is absent: the model takes the CLI default
                    m_lines.append(model_line("c~", sd, src))
                    m_idx.append((case, path, tok_doc(out) + " # "))
            else:
                for what, clause in check_property(src, out, [], sd, True):
                    classify(ctx, what, "cli-no-log" if "log is not" in what else clause, case, path)
        os.unlink(fpath)
        ctx.nontrivial(("matrix", label, case0["doc_text"]))
    ctx.extra["switch_matrix_documents"] = len(docs)
    ctx.extra["switch_matrix_calls"] = n_calls


def replay_corpus_case(ctx, root, c, parse):
    """One corpus case through repair(), octave_validate(fix=true), octave_write(lenient, schema)+file.
    expect = "unrepaired": every path must return the source values unchanged with no REPAIR entry (witness of a FIXED
    finding: a regression is an unattributed property failure -> VIOLATION)."""
    import octave_mcp.core.ast_nodes as A
    from octave_mcp.mcp.validate import ValidateTool
    from octave_mcp.mcp.write import WriteTool
    from octave_mcp.schemas.loader import load_schema
    name = c["schema_name"]
    sp = os.path.join(root, "specs", "schemas", name.lower() + ".oct.md")
    with open(sp, "w", encoding="utf-8") as f:
        f.write(c["schema_text"])
    fp = os.path.join(root, "corpus_out.oct.md")
    try:
        sd = load_schema(sp)
        text = c["doc_text"]
        src = parse(text).sections
        case = {k: c[k] for k in ("corpus_file", "schema_name", "schema_text", "doc_text", "expect") if k in c}
        outs = []
        res, log = impl_repair(src, sd, True)
        outs.append(("corpus repair()", res, log))
        r = asyncio.run(ValidateTool().execute(content=text, schema=name, fix=True))
        if r.get("status") == "success" and isinstance(r.get("canonical"), str):
            outs.append(("corpus octave_validate(fix=True)", parse(r["canonical"]).sections, log_from_dicts(r.get("repairs", []), "rule_id")))
        else:
            ctx.obligation_failure("corpus:" + c["corpus_file"], "octave_validate did not return a canonical document")
        if os.path.exists(fp):
            os.unlink(fp)
        r = asyncio.run(WriteTool().execute(target_path=fp, content=text, lenient=True, schema=name))
        if r.get("status") == "success" and os.path.exists(fp):
            outs.append(("corpus octave_write(lenient)", parse(open(fp, encoding="utf-8").read()).sections,
                         log_from_dicts(r.get("corrections", []), "code")))
        else:
            ctx.obligation_failure("corpus:" + c["corpus_file"], "octave_write(lenient, schema) did not write the document")
        for path, out, lg in outs:
            ctx.count()
            ctx.hist("path", path)
            for what, clause in check_property(src, out, lg, sd, True):
                classify(ctx, what, clause, case, path)
            changed = tok_doc(out) != tok_doc(src)
            if c.get("expect") == "unrepaired" and (changed or lg):
                classify(ctx, f"expected to be left unrepaired with an empty log, got changed={changed} log={lg}", None, case, path)
            if c.get("expect") == "repaired" and not (changed and lg):
                ctx.correspondence_failure({"case": case, "path": path}, "corpus case expected to be repaired (and logged) was left alone")
        ctx.nontrivial(("corpus", c["corpus_file"]))
    finally:
        for q in (sp, fp):
            if os.path.exists(q):
                os.unlink(q)


def replay_cli_witness(root, w):
    from click.testing import CliRunner
    from octave_mcp.cli.main import cli
    from octave_mcp.core.parser import parse
    sp = os.path.join(root, "specs", "schemas", "meta.oct.md")
    with open(sp, "w", encoding="utf-8") as f:
        f.write(w["schema_text"])
    fp = os.path.join(root, "wit.oct.md")
    with open(fp, "w", encoding="utf-8") as f:
        f.write(w["doc_text"])
    try:
        res = CliRunner().invoke(cli, ["validate", "--fix", "--schema", "META", fp])
        out = res.output
        cut = out.find("\nvalidation_status:")
        changed = tok_doc(parse(out[:cut]).sections) != tok_doc(parse(w["doc_text"]).sections)
        mentions = any(r in out for r in RULES) or "REPAIR" in out
        return changed and not mentions
    finally:
        os.unlink(sp)
        os.unlink(fp)


def _safe_tok(nodes):
    try:
        return tok_doc(nodes)
    except OutOfModel as e:
        return "<" + str(e) + ">"
